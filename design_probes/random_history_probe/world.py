import sys, logging, random, itertools, traceback
sys.path.insert(0,'/repo')
logging.disable(logging.CRITICAL)
from eos import *
from eos.const.eos import *
from eos.const.eve import *
from eos.source import Source, SourceManager
from tests.integration.environment import CacheHandler
from eos.eve_obj.modifier import DogmaModifier
from eos.item import Charge

OPS=[o for o in ModOperator]
FILTERS=[f for f in ModAffecteeFilter]
ITEMCLS = dict(ship=Ship, mh=ModuleHigh, mm=ModuleMid, ml=ModuleLow, rig=Rig, drone=Drone, impl=Implant, boost=Booster, skill=Skill, sub=Subsystem, stance=Stance, beacon=EffectBeacon, fighter=FighterSquad, charge=Charge)

class Universe:
    def __init__(self, rnd, nattr=6, neff=8, ntype=14, projected=True):
        self.ch = ch = CacheHandler()
        self.rnd = rnd
        self.attrs=[]
        ids=[ch.allocate_attr_id() for i in range(nattr)]
        for i in range(nattr):
            # acyclic: max_attr only to higher index
            mx = rnd.choice([None]*3 + ids[i+1:])
            a = ch.mkattr(attr_id=ids[i], max_attr_id=mx, default_value=rnd.choice([None,0,1,10]), high_is_good=rnd.random()<.5, stackable=rnd.random()<.5)
            self.attrs.append(a)
        self.aids=ids
        self.groups=[1,2,3]
        self.skill_type_ids=[ch.allocate_type_id() for _ in range(2)]
        self.effects=[]
        for i in range(neff):
            cat = rnd.choice([EffectCategoryId.passive, EffectCategoryId.online, EffectCategoryId.active, EffectCategoryId.overload, EffectCategoryId.target if projected else EffectCategoryId.passive])
            mods=[]
            for _ in range(rnd.randint(1,3)):
                # acyclic: affector attr index > affectee attr index
                i1,i2 = sorted(rnd.sample(range(nattr),2))
                src_attr, tgt_attr = self.aids[i2], self.aids[i1]
                filt = rnd.choice(FILTERS)
                if cat==EffectCategoryId.target:
                    dom = ModDomain.target
                    if filt==ModAffecteeFilter.owner_skillrq: filt=ModAffecteeFilter.item
                else:
                    dom = rnd.choice([ModDomain.self, ModDomain.character, ModDomain.ship, ModDomain.other] if filt==ModAffecteeFilter.item else [ModDomain.self, ModDomain.character, ModDomain.ship])
                    if filt==ModAffecteeFilter.owner_skillrq: dom=ModDomain.character
                extra=None
                if filt==ModAffecteeFilter.domain_group: extra=rnd.choice(self.groups)
                if filt in (ModAffecteeFilter.domain_skillrq, ModAffecteeFilter.owner_skillrq): extra=rnd.choice(self.skill_type_ids+[EosTypeId.current_self])
                mods.append(DogmaModifier(affectee_filter=filt, affectee_domain=dom, affectee_filter_extra_arg=extra, affectee_attr_id=tgt_attr, operator=rnd.choice(OPS), aggregate_mode=ModAggregateMode.stack, affector_attr_id=src_attr))
            e = ch.mkeffect(category_id=cat, modifiers=tuple(mods))
            self.effects.append(e)
        self.online = ch.mkeffect(effect_id=EffectId.online, category_id=EffectCategoryId.online)
        self.types={}
        for st in self.skill_type_ids:
            self.types.setdefault('skill',[]).append(self.mktype(st, TypeCategoryId.skill))
        for kind in ['ship','ship','mh','mh','mm','ml','rig','drone','drone','impl','boost','sub','stance','charge','charge','fighter']:
            self.types.setdefault(kind,[]).append(self.mktype(None, rnd.choice([TypeCategoryId.ship, TypeCategoryId.module, TypeCategoryId.drone, TypeCategoryId.implant, TypeCategoryId.charge])))
    def mktype(self, tid, cat):
        rnd=self.rnd
        effs = rnd.sample(self.effects, rnd.randint(0,3))
        if rnd.random()<.6: effs.append(self.online)
        de = rnd.choice([None]+[e for e in effs if e.category_id in (EffectCategoryId.active, EffectCategoryId.target)])
        attrs={a: rnd.choice([0.5,2,3,-1,10,1.5,50]) for a in rnd.sample(self.aids, rnd.randint(1,len(self.aids)))}
        rs = {s: rnd.randint(1,5) for s in rnd.sample(self.skill_type_ids, rnd.randint(0,2))}
        return self.ch.mktype(type_id=tid, group_id=rnd.choice(self.groups), category_id=cat, attrs=attrs, effects=effs, default_effect=de, required_skills=rs)

def snapshot(ss):
    """public configuration of solar system"""
    fits=list(ss.fits)
    items=[]
    for f in fits:
        for it in f._item_iter(skip_autoitems=True):
            items.append(it)
    return fits, items

def observe_item(it, aids):
    d={}
    for a in aids:
        if not it._is_loaded: d[a]=None; continue
        try: d[a]=it.attrs[a]
        except KeyError: d[a]=None
    eff={eid: st.status for eid, st in it.effects.items()}
    return d, eff

def rebuild(fits_order, source, fleet_of):
    """rebuild world: fits_order is list of fits (old); returns mapping old item -> new item"""
    ss = SolarSystem(source=source)
    m={}
    newfits={}
    fleets={}
    for f in fits_order:
        nf = Fit(solar_system=ss)
        newfits[f]=nf
    def clone(it):
        cls=type(it)
        if cls is Skill: n=Skill(it._type_id, level=it.level)
        elif hasattr(it,'charge'):
            n=cls(it._type_id, state=it.state, charge=(clone(it.charge) if it.charge is not None else None))
        elif cls in (Drone, FighterSquad): n=cls(it._type_id, state=it.state)
        else: n=cls(it._type_id)
        m[it]=n
        for eid in it._type_effects if it._is_loaded else []:
            pass
        modes = getattr(it, '_BaseItemMixin__effect_mode_overrides') or {}
        for eid,mode in modes.items(): n.set_effect_mode(eid, mode)
        return n
    for f in fits_order:
        nf=newfits[f]
        if f.ship is not None: nf.ship=clone(f.ship)
        if f.stance is not None: nf.stance=clone(f.stance)
        if f.effect_beacon is not None: nf.effect_beacon=clone(f.effect_beacon)
        for s in f.skills: nf.skills.add(clone(s))
        for s in f.implants: nf.implants.add(clone(s))
        for s in f.boosters: nf.boosters.add(clone(s))
        for s in f.subsystems: nf.subsystems.add(clone(s))
        for s in f.rigs: nf.rigs.add(clone(s))
        for s in f.drones: nf.drones.add(clone(s))
        for s in f.fighters: nf.fighters.add(clone(s))
        for rn in ('high','mid','low'):
            rack=getattr(f.modules,rn); nr=getattr(nf.modules,rn)
            for idx,mod in enumerate(rack):
                if mod is not None: nr.place(idx, clone(mod))
        nf.default_incoming_dmg=f.default_incoming_dmg
        nf.rah_incoming_dmg=f.rah_incoming_dmg
    for f in fits_order:
        if f.fleet is not None:
            fl=fleets.setdefault(f.fleet, Fleet())
            fl.fits.add(newfits[f])
    for old,new in list(m.items()):
        tgt=getattr(old,'target',None)
        if tgt is not None:
            new.target = m.get(tgt, None) if tgt in m else None  # target outside world -> None
    return ss, m, newfits
