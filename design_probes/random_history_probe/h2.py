"""Replayable histories: ops are tuples referencing item ids (creation order)."""
from world import *
import math, copy

def close(a,b):
    if a is None or b is None: return a is b
    return abs(a-b) <= 1e-9*max(1,abs(a),abs(b))

HYP=True
SRC=False
KINDS=['mh','mm','ml','rig','drone','impl','boost','skill','sub','fighter']
class World:
    def __init__(self, u, src, nfits):
        self.u=u; self.src=src
        self.ss=SolarSystem(source=src)
        self.fits=[Fit(solar_system=self.ss) for _ in range(nfits)]
        self.fl=Fleet()
        self.items={}  # id -> item
    def cont(self,f,kind):
        return {'mh':f.modules.high,'mm':f.modules.mid,'ml':f.modules.low,'rig':f.rigs,'drone':f.drones,'impl':f.implants,'boost':f.boosters,'skill':f.skills,'sub':f.subsystems,'fighter':f.fighters}[kind]
    def apply(self, op):
        k=op[0]; u=self.u
        if k=='new':
            _,iid,kind,tidx,state,level=op
            t=u.types[kind][tidx % len(u.types[kind])]; cls=ITEMCLS[kind]
            if kind=='skill': it=Skill(t.id, level=level)
            elif kind in('mh','mm','ml','drone','fighter'): it=cls(t.id, state=State(state))
            else: it=cls(t.id)
            it._kind=kind; self.items[iid]=it
        elif k=='ship': self.fits[op[1]].ship = self.items.get(op[2]) if op[2] is not None else None
        elif k=='stance': self.fits[op[1]].stance = self.items.get(op[2]) if op[2] is not None else None
        elif k=='add':
            _,fi,iid,how,idx=op; it=self.items[iid]; c=self.cont(self.fits[fi], it._kind)
            if it._kind in ('mh','mm','ml'):
                if how==0: c.equip(it)
                elif how==1: c.append(it)
                else: c.place(idx,it)
            else: c.add(it)
        elif k=='remove':
            _,iid,free=op; it=self.items[iid]; c=it._container
            if free and hasattr(c,'free'): c.free(it)
            else: c.remove(it)
        elif k=='state': self.items[op[1]].state=State(op[2])
        elif k=='mode':
            it=self.items[op[1]]; effs=sorted(it._type_effects)
            if effs: it.set_effect_mode(effs[op[2]%len(effs)], EffectMode(op[3]))
        elif k=='target': self.items[op[1]].target = self.items[op[2]] if op[2] is not None else None
        elif k=='level': self.items[op[1]].level=op[2]
        elif k=='charge': self.items[op[1]].charge = self.items[op[2]] if op[2] is not None else None
        elif k=='fleet': 
            f=self.fits[op[1]]
            if op[2]: self.fl.fits.add(f)
            else: self.fl.fits.remove(f)
        elif k=='read':
            for iid,a in op[1]:
                if self.items[iid]._is_loaded: self.items[iid].attrs.get(u.aids[a])
        elif k=='source':
            self.ss.source = self.srcs[op[1]]; self.src=self.srcs[op[1]]
        else: raise Exception(op)

EXPECTED=(ValueError, KeyError, IndexError, SlotTakenError, TypeError)

def gen_op_raw(rnd, w, nid):
    """generate a plausible op given current world; returns op or None"""
    fits=w.fits; items=w.items
    on_fit=[i for i,it in items.items() if it._fit is not None]
    detached=[i for i,it in items.items() if it._container is None]
    fi=rnd.randrange(len(fits)); f=fits[fi]
    c=rnd.random()
    if c<.12:
        cands=[i for i in detached if items[i]._kind=='ship']
        if cands and rnd.random()<.5: return [('ship',fi,rnd.choice(cands))]
        return [('new',nid,'ship',rnd.randrange(9),1,0),('ship',fi,nid)]
    if c<.15: return [('ship',fi,None)]
    if c<.19:
        if rnd.random()<.3: return [('stance',fi,None)]
        return [('new',nid,'stance',rnd.randrange(9),1,0),('stance',fi,nid)]
    if c<.40:
        kind=rnd.choice(KINDS)
        cands=[i for i in detached if items[i]._kind==kind]
        if cands and rnd.random()<.4: return [('add',fi,rnd.choice(cands),rnd.randrange(3),rnd.randrange(5))]
        return [('new',nid,kind,rnd.randrange(9),rnd.randint(1,4),rnd.randint(0,5)),('add',fi,nid,rnd.randrange(3),rnd.randrange(5))]
    if not on_fit: return None
    iid=rnd.choice(on_fit); it=items[iid]
    if c<.50:
        if it._kind in KINDS: return [('remove',iid,rnd.random()<.5)]
        return None
    if c<.62:
        cands=[i for i in on_fit if items[i]._kind in('mh','mm','ml','drone','fighter')]
        if cands: return [('state',rnd.choice(cands),rnd.randint(1,4))]
        return None
    if c<.70: return [('mode',iid,rnd.randrange(5),rnd.randint(1,4))]
    if c<.82:
        cands=[i for i in on_fit if items[i]._kind in('mh','mm','ml','drone')]
        tg=[i for i in items if items[i]._kind in('ship','drone','fighter')]
        if cands and tg: return [('target',rnd.choice(cands),rnd.choice(tg+[None]))]
        return None
    if c<.86:
        cands=[i for i in on_fit if items[i]._kind=='skill']
        if cands: return [('level',rnd.choice(cands),rnd.randint(0,5))]
        return None
    if c<.92:
        cands=[i for i in on_fit if items[i]._kind in('mh','mm','ml')]
        if cands:
            m=rnd.choice(cands)
            if rnd.random()<.3: return [('charge',m,None)]
            return [('new',nid,'charge',rnd.randrange(9),1,0),('charge',m,nid)]
        return None
    if c<.94 and w.with_source:
        return [('source', rnd.randrange(3))]
    if c<.96 and w.allow_fleet:
        return [('fleet',fi, f.fleet is None)]
    return [('read',[(rnd.choice(on_fit),rnd.randrange(len(w.u.aids))) for _ in range(3)])]

def gen_op(rnd, w, nid):
    g=gen_op_raw(rnd,w,nid)
    if not g or not getattr(w,'hyp',False): return g
    items=w.items
    out=[]
    def untarget(tid):
        for i,it in items.items():
            if getattr(it,'target',None) is items.get(tid) and items.get(tid) is not None:
                out.append(('target',i,None))
    for op in g:
        if op[0]=='ship':
            old=w.fits[op[1]].ship
            if old is not None:
                oid=[i for i,it in items.items() if it is old][0]; untarget(oid)
        if op[0]=='remove': untarget(op[1])
        if op[0]=='target' and op[2] is not None:
            t=items[op[2]]
            if t._fit is None or not t._is_loaded: continue
        out.append(op)
    return out

def observe_world(w):
    obs={}
    for iid,it in w.items.items():
        if it._fit is None: continue
        obs[iid]=observe_item(it,w.u.aids)
    return obs

def rebuild_world(w):
    """fresh world via canonical construction"""
    w2=World(w.u,w.src,len(w.fits)); w2.allow_fleet=w.allow_fleet
    def clone(iid):
        it=w.items[iid]; kind=it._kind; cls=ITEMCLS[kind]
        if kind=='skill': n=Skill(it._type_id, level=it.level)
        elif kind in('mh','mm','ml','drone','fighter'): n=cls(it._type_id, state=it.state)
        else: n=cls(it._type_id)
        n._kind=kind; w2.items[iid]=n
        modes = getattr(it, '_BaseItemMixin__effect_mode_overrides') or {}
        for eid,mode in modes.items(): n.set_effect_mode(eid, mode)
        return n
    ids={id(it):iid for iid,it in w.items.items()}
    for fi,f in enumerate(w.fits):
        nf=w2.fits[fi]
        if f.ship is not None: nf.ship=clone(ids[id(f.ship)])
        if f.stance is not None: nf.stance=clone(ids[id(f.stance)])
        for name in ('skills','implants','boosters','subsystems','rigs','drones','fighters'):
            for s in sorted(getattr(f,name), key=lambda x: ids[id(x)]): getattr(nf,name).add(clone(ids[id(s)]))
        for rn in ('high','mid','low'):
            rack=getattr(f.modules,rn); nr=getattr(nf.modules,rn)
            for idx,mod in enumerate(rack):
                if mod is not None:
                    nm=clone(ids[id(mod)]); nr.place(idx,nm)
                    if mod.charge is not None: nm.charge=clone(ids[id(mod.charge)])
    for fi,f in enumerate(w.fits):
        if f.fleet is not None: w2.fl.fits.add(w2.fits[fi])
    for iid,it in w.items.items():
        if iid in w2.items:
            tgt=getattr(it,'target',None)
            if tgt is not None and ids[id(tgt)] in w2.items:
                w2.items[iid].target=w2.items[ids[id(tgt)]]
    return w2

def check(w):
    w2=rebuild_world(w)
    o1=observe_world(w); o2=observe_world(w2)
    for iid in o1:
        if o1[iid][1]!=o2[iid][1]: return ('effdiff',iid,o1[iid][1],o2[iid][1])
        for a in w.u.aids:
            if not close(o1[iid][0][a],o2[iid][0][a]): return ('attrdiff',iid,w.items[iid]._kind,w.u.aids.index(a),o1[iid][0][a],o2[iid][0][a])
    return None

def mkworld(seed, nfits, projected, fleet):
    rnd=random.Random(seed)
    u=Universe(rnd, projected=projected)
    src=Source('u%d'%seed,u.ch)
    ch2=CacheHandler()
    r2=random.Random(seed+7)
    for a in u.attrs: ch2._CacheHandler__attr_data[a.id]=a
    for e in u.effects+[u.online]: ch2._CacheHandler__effect_data[e.id]=e
    for tid,t in u.ch._CacheHandler__type_data.items():
        if r2.random()<.7:
            from eos.eve_obj.type import Type
            ch2._CacheHandler__type_data[tid]=Type(tid, group_id=t.group_id, category_id=t.category_id, attrs={k:(v if r2.random()<.7 else v+1) for k,v in t.attrs.items()}, effects=tuple(t.effects.values()), default_effect=t.default_effect, required_skills=dict(t.required_skills))
    src2=Source('v%d'%seed,ch2)
    w=World(u,src,nfits); w.srcs=[src,src2,None]; w.with_source=SRC; w.allow_fleet=fleet; w.hyp=HYP
    return rnd,w

def generate(seed, nsteps=30, nfits=2, projected=True, fleet=False):
    rnd,w=mkworld(seed,nfits,projected,fleet)
    ops=[]; nid=0
    for i in range(nsteps):
        g=gen_op(rnd,w,nid)
        if not g: continue
        for op in g:
            if op[0]=='new': nid+=1
            try: w.apply(op)
            except EXPECTED: ops.append(op); break
            except ZeroDivisionError: return ops,('illformed',)
            except Exception as e: ops.append(op); return ops,('crash',type(e).__name__,str(e)[:80])
            ops.append(op)
        try: r=check(w)
        except ZeroDivisionError: return ops,('illformed',)
        except Exception as e: return ops,('crash-obs',type(e).__name__,str(e)[:80], traceback.format_exc())
        if r: return ops,r
    return ops,None

def replay(seed, ops, nfits=2, projected=True, fleet=False, check_each=True):
    rnd,w=mkworld(seed,nfits,projected,fleet)
    for op in ops:
        try: w.apply(op)
        except EXPECTED: continue
        except ZeroDivisionError: return ('illformed',)
        except Exception as e: return ('crash',type(e).__name__,str(e)[:80])
        if check_each:
            try: r=check(w)
            except ZeroDivisionError: return ('illformed',)
            except Exception as e: return ('crash-obs',type(e).__name__,str(e)[:80])
            if r: return r
    if not check_each:
        try: return check(w)
        except ZeroDivisionError: return ('illformed',)
        except Exception as e: return ('crash-obs',type(e).__name__,str(e)[:80])
    return None

def shrink(seed, ops, kind, **kw):
    cur=list(ops)
    changed=True
    while changed:
        changed=False
        for i in range(len(cur)-1,-1,-1):
            t=cur[:i]+cur[i+1:]
            try: r=replay(seed,t,**kw)
            except Exception: r=None
            if r and r[0]==kind: cur=t; changed=True
    return cur

if __name__=='__main__':
    import collections
    n=int(sys.argv[1]); kw=eval(sys.argv[2]) if len(sys.argv)>2 else {}
    c=collections.Counter(); ex={}
    for s in range(n):
        ops,r=generate(s,**kw)
        k=r[0] if r else 'ok'
        if r and r[0].startswith('crash'): k=':'.join(r[:3])
        c[k]+=1
        if r and r[0]!='illformed' and k not in ex: ex[k]=(s,ops,r)
    for k,v in c.most_common(): print(v,k)
    kw2={k:v for k,v in kw.items() if k!='nsteps'}
    for k,(s,ops,r) in ex.items():
        print('=====',k,'seed',s,r[:6])
        sh=shrink(s,ops,r[0],**kw2)
        for op in sh: print('   ',op)
        print('   ->',replay(s,sh,**kw2))
