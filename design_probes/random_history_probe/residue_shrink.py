import h2
from h2 import *
import sys
seed=int(sys.argv[1])
ops,r=generate(seed, nsteps=30, nfits=2, projected=True, fleet=False)
def residue(ops):
    rnd,w=mkworld(seed,2,True,False)
    for op in ops:
        try: w.apply(op)
        except EXPECTED: pass
    fits=set(w.ss.fits); w.ss.fits.clear()
    calc=w.ss._calculator
    out={}
    for name in ('_CalculationService__affections','_CalculationService__projections'):
        reg=getattr(calc,name)
        for k,v in vars(reg).items():
            if len(v): out[k.split('__')[-1]]=len(v)
    for k in ('_CalculationService__warfare_buffs','_CalculationService__subscribed_affectors'):
        if len(getattr(calc,k)): out[k]=len(getattr(calc,k))
    return out
print(residue(ops))
# shrink
cur=list(ops)
changed=True
while changed:
    changed=False
    for i in range(len(cur)-1,-1,-1):
        t=cur[:i]+cur[i+1:]
        try:
            if residue(t): cur=t; changed=True
        except Exception: pass
for op in cur: print('  ',op)
print(residue(cur))
