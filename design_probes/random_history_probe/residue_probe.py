import h2
from h2 import *
import sys
h2.SRC = (len(sys.argv)>1 and sys.argv[1]=='src')
h2.HYP = not (len(sys.argv)>2 and sys.argv[2]=='nohyp')
from tests.integration.testcase import IntegrationTestCase
tc=IntegrationTestCase('assert_solsys_buffers_empty')
res={}
for seed in range(400):
    ops,r=generate(seed, nsteps=30, nfits=2, projected=True, fleet=False)
    if r: continue
    rnd,w=mkworld(seed,2,True,False)
    ok=True
    for op in ops:
        try: w.apply(op)
        except EXPECTED: pass
        except ZeroDivisionError: ok=False; break
    if not ok: continue
    # untarget everything? no: plain teardown
    try:
        tc.assert_solsys_buffers_empty(w.ss); k='clean'
    except AssertionError as e: k='residue: '+str(e)[:60]
    except Exception as e: k='crash '+type(e).__name__+' '+str(e)[:60]
    res[k]=res.get(k,0)+1
    if k!='clean' and res[k]<=2: print(seed,k)
print(res)
