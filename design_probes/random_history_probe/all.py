from h2 import *
n=int(sys.argv[1]); kw=eval(sys.argv[2]); start=int(sys.argv[3]) if len(sys.argv)>3 else 0
kw2={k:v for k,v in kw.items() if k!='nsteps'}
seen=set()
for s in range(start,start+n):
    ops,r=generate(s,**kw)
    if r and r[0] not in('illformed',):
        sh=shrink(s,ops,r[0],**kw2)
        sig=tuple(o[0] for o in sh)
        if sig in seen: continue
        seen.add(sig)
        print('=====seed',s,r[:6])
        for op in sh: print('   ',op)
        print('   ->',replay(s,sh,**kw2))
