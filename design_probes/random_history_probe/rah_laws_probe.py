import sys, logging, random, itertools
sys.path.insert(0,'/repo')
logging.disable(logging.CRITICAL)
from eos import *
from eos.const.eos import *
from eos.const.eve import *
from eos.source import Source
from tests.integration.environment import CacheHandler
from eos.eve_obj.modifier import DogmaModifier
RES=(AttrId.armor_em_dmg_resonance,AttrId.armor_therm_dmg_resonance,AttrId.armor_kin_dmg_resonance,AttrId.armor_expl_dmg_resonance)
def setup():
    ch=CacheHandler()
    mx=ch.mkattr(default_value=1.0, high_is_good=False, stackable=False)
    cyc=ch.mkattr(high_is_good=False, stackable=True); heat=ch.mkattr(high_is_good=False, stackable=True)
    ch.mkattr(attr_id=AttrId.resist_shift_amount, high_is_good=True, stackable=True)
    for r in RES: ch.mkattr(attr_id=r, max_attr_id=mx.id, high_is_good=False, stackable=False)
    rah=ch.mkeffect(effect_id=EffectId.adaptive_armor_hardener, category_id=EffectCategoryId.active, duration_attr_id=cyc.id)
    hm=DogmaModifier(affectee_filter=ModAffecteeFilter.item, affectee_domain=ModDomain.self, affectee_attr_id=cyc.id, operator=ModOperator.post_percent, aggregate_mode=ModAggregateMode.stack, affector_attr_id=heat.id)
    he=ch.mkeffect(category_id=EffectCategoryId.overload, modifiers=[hm])
    return ch,cyc,heat,rah,he
def world(rnd, nrah):
    ch,cyc,heat,rah,he=setup()
    f=Fit(solar_system=SolarSystem(source=Source('s',ch)))
    f.ship=Ship(ch.mktype(attrs=dict(zip(RES,[rnd.choice([.5,.65,.75,.9,1.0]) for _ in RES]))).id)
    rahs=[]
    for i in range(nrah):
        t=ch.mktype(attrs={**dict(zip(RES,[rnd.choice([.85,.8,.9,.95]) for _ in RES])), AttrId.resist_shift_amount:rnd.choice([6,3,10]), cyc.id:rnd.choice([5,10,7]), heat.id:-15}, effects=(rah,he), default_effect=rah)
        m=ModuleLow(t.id, state=rnd.choice([State.active, State.overload])); f.modules.low.append(m); rahs.append(m)
    prof=[rnd.choice([0,0,1,2,5]) for _ in range(4)]
    if sum(prof)==0: prof[rnd.randrange(4)]=1
    f.rah_incoming_dmg=DmgProfile(*prof)
    return f,rahs,prof
bad=0
for seed in range(400):
    rnd=random.Random(seed)
    f,rahs,prof=world(rnd, rnd.randint(1,3))
    for m in rahs:
        un=[m.attrs._get_without_overrides(r) for r in RES]
        # random read order
        order=list(RES); rnd.shuffle(order)
        vals={r:m.attrs[r] for r in order}
        s1=sum(un); s2=sum(vals.values())
        if abs(s1-s2)>1e-9 or max(vals.values())>1+1e-12:
            bad+=1; print('seed',seed,'prof',prof,'unsim',un,'sim',[vals[r] for r in RES])
    # single type check
    if sum(1 for p in prof if p>0)==1 and len(rahs)==1:
        m=rahs[0]; i=[k for k,p in enumerate(prof) if p>0][0]
        # RES order em,therm,kin,expl ; profile order em,therm,kin,expl
        vals=[m.attrs[r] for r in RES]
        others=[v for k,v in enumerate(vals) if k!=i]
        if any(abs(v-1)>1e-9 for v in others): print('single-type not driven: seed',seed,prof,vals)
print('bad',bad)
