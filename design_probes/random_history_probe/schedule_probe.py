import h2
from h2 import *
from eos.pubsub.broker import FitMsgBroker
import random as _r
sched=_r.Random(0)
def _publish(self, msg):
    msg.fit=self
    subs=list(self._FitMsgBroker__subscribers.get(type(msg), ()))
    subs.sort(key=lambda s: type(s).__name__+str(id(s)%7)); sched.shuffle(subs)
    for s in subs: s._notify(msg)
def _publish_bulk(self, msgs):
    for m in msgs: _publish(self, m)
FitMsgBroker._publish=_publish; FitMsgBroker._publish_bulk=_publish_bulk
def obs_after(seed, ops, sseed, **kw):
    sched.seed(sseed)
    rnd,w=mkworld(seed, kw.get('nfits',2), kw.get('projected',True), kw.get('fleet',False))
    excs=[]
    for op in ops:
        try: w.apply(op); excs.append(None)
        except EXPECTED as e: excs.append(type(e).__name__)
        except ZeroDivisionError: return None
    try:
        o=observe_world(w)
    except ZeroDivisionError: return None
    # add stats/validate
    extra=[]
    for f in w.fits:
        try: f.validate(); extra.append('ok')
        except ValidationError as e:
            extra.append(sorted((str(getattr(k,'_type_id',None)), sorted(int(r) for r in v)) for k,v in e.data.items()))
        extra.append((f.stats.cpu.used, f.stats.high_slots, f.stats.launched_drones.used))
    return o, excs, extra
diff=0; n=0
for seed in range(300):
    sched.seed(1000+seed)
    ops,r=generate(seed, nsteps=30, nfits=2, projected=True, fleet=False)
    if r: 
        if r[0]!='illformed': print('gen issue',seed,r[:3])
        continue
    base=obs_after(seed, ops, 1)
    if base is None: continue
    for ss in range(2,6):
        o=obs_after(seed, ops, ss)
        n+=1
        if o is None: continue
        same = o[1]==base[1] and o[2]==base[2] and all(o[0][i][1]==base[0][i][1] and all(close(o[0][i][0][a],base[0][i][0][a]) for a in o[0][i][0]) for i in base[0])
        if not same: diff+=1; print('DIFF seed',seed,'sched',ss)
print('compared',n,'diffs',diff)
