import sys
import os
import importlib.util, types
src=open(os.path.join(os.path.dirname(os.path.abspath(__file__)), 'd21_residue_values.py')).read().split("h, s = history()")[0]
ns={}; exec(compile(src,'d21','exec'),ns)
from eos import Fit, Fleet, Ship, ModuleHigh, Skill, State
ch, ss, ship, mod, skill = ns['world']()
a, b = Fit(solar_system=ss), Fit(solar_system=ss)
a.ship, b.ship = Ship(ship), Ship(ship)
s = Skill(skill, level=0); a.skills.add(s)
m = ModuleHigh(mod, state=State.active); a.modules.high.append(m)
fl = Fleet(); fl.fits.add(a); fl.fits.add(b)
m.state = State.offline
# complete tear-down
fl.fits.remove(a); fl.fits.remove(b)
a.modules.high.remove(m); a.skills.remove(s); a.ship=None; b.ship=None
ss.fits.remove(a); ss.fits.remove(b)
pr = ss._calculator._CalculationService__projections
print('projector_tgts:', dict(pr._ProjectionRegister__projector_tgts))
print('tgt_projectors:', dict(pr._ProjectionRegister__tgt_projectors))
