"""Residue of a boost without templates: targets recorded by a fleet join are never un-applied."""
import sys
sys.path.insert(0, '/verif/tools')
import common as C
from harness import mem
from eos import Fit, Fleet, SolarSystem, Ship, ModuleHigh, Skill, State
from eos.const.eos import ModAffecteeFilter, ModAggregateMode, ModDomain, ModOperator
from eos.const.eve import AttrId, EffectCategoryId, EffectId, TypeCategoryId
from eos.eve_obj.buff_template import WarfareBuffTemplate
from eos.eve_obj.modifier import DogmaModifier

def world():
    ch = mem.MemCache()
    ch.mkattr(attr_id=100, default_value=0, stackable=True)              # boosted ship attribute
    ch.mkattr(attr_id=int(AttrId.warfare_buff_1_id)); ch.mkattr(attr_id=int(AttrId.warfare_buff_1_value))
    ch.mkattr(attr_id=int(AttrId.skill_level))
    burst = ch.mkeffect(effect_id=int(EffectId.module_bonus_warfare_link_armor), category_id=EffectCategoryId.active)
    ch.buffs[10] = {WarfareBuffTemplate(buff_id=10, affectee_filter=ModAffecteeFilter.item, affectee_attr_id=100,
                                        operator=ModOperator.post_percent, aggregate_mode=ModAggregateMode.maximum)}
    # a skill adds its level to the buff id of modules on the ship: level 0 -> id 9 (no template), level 1 -> id 10
    tweak = ch.mkeffect(category_id=EffectCategoryId.passive, modifiers=(DogmaModifier(
        affectee_filter=ModAffecteeFilter.domain, affectee_domain=ModDomain.ship,
        affectee_attr_id=int(AttrId.warfare_buff_1_id), operator=ModOperator.mod_add,
        aggregate_mode=ModAggregateMode.stack, affector_attr_id=int(AttrId.skill_level)),))
    ship = ch.mktype(category_id=TypeCategoryId.ship, attrs={100: 100})
    mod = ch.mktype(category_id=TypeCategoryId.module, attrs={int(AttrId.warfare_buff_1_id): 9, int(AttrId.warfare_buff_1_value): 50},
                    effects=[burst], default_effect=burst)
    skill = ch.mktype(category_id=TypeCategoryId.skill, effects=[tweak])
    ss = SolarSystem(source=mem.source(ch) if hasattr(mem, 'source') else None)
    return ch, ss, ship.id, mod.id, skill.id

def history():
    ch, ss, ship, mod, skill = world()
    a, b = Fit(solar_system=ss), Fit(solar_system=ss)
    a.ship, b.ship = Ship(ship), Ship(ship)
    s = Skill(skill, level=0); a.skills.add(s)
    m = ModuleHigh(mod, state=State.active); a.modules.high.append(m)      # buff id 9: nothing registered
    fl = Fleet(); fl.fits.add(a); fl.fits.add(b)                             # b's ship recorded as a target of the burst
    m.state = State.offline                                                  # stopped: nothing un-applied
    fl.fits.remove(b)                                                        # b leaves the fleet
    s.level = 1                                                              # buff id 10 now
    m.state = State.active
    return b.ship.attrs[100]

def scratch():
    ch, ss, ship, mod, skill = world()
    a, b = Fit(solar_system=ss), Fit(solar_system=ss)
    a.ship, b.ship = Ship(ship), Ship(ship)
    a.skills.add(Skill(skill, level=1))
    a.modules.high.append(ModuleHigh(mod, state=State.active))
    return b.ship.attrs[100]

h, s = history(), scratch()
print('ship of the fit that left the fleet: after the history', h, '- built from scratch', s)
sys.exit(0 if h == s else 1)
