"""Observation (outside every property's quantifier, not a finding): a domain_group modifier WITHOUT a group argument
is rejected by the library's own validation (`DogmaModifier._valid` is False; the modifier builder never emits it).  If
one is constructed by hand anyway, it modifies items whose type has no group (get_affector_specs looks up
(fit, domain, None)), but the reverse query get_local_affectee_items does not list them (__get_affectee_storages skips
group None), so the value is never invalidated."""
import os, sys
sys.path.insert(0, os.path.join(os.path.dirname(os.path.abspath(__file__)), '..', 'tools'))
import common as C
from harness import mem
from eos import Fit, SolarSystem, Ship, ModuleHigh, Skill, State
from eos.const.eos import ModAffecteeFilter, ModDomain, ModOperator, ModAggregateMode
from eos.const.eve import EffectCategoryId, AttrId
from eos.eve_obj.modifier import DogmaModifier
ch = mem.MemCache()
ch.mkattr(attr_id=2001); ch.mkattr(attr_id=int(AttrId.skill_level))
m = DogmaModifier(affectee_filter=ModAffecteeFilter.domain_group, affectee_domain=ModDomain.ship,
                  affectee_filter_extra_arg=None, affectee_attr_id=2001, operator=ModOperator.mod_add,
                  aggregate_mode=ModAggregateMode.stack, affector_attr_id=int(AttrId.skill_level))
print('modifier._valid =', m._valid)
e = ch.mkeffect(effect_id=5001, category_id=EffectCategoryId.passive, modifiers=(m,))
ch.mktype(type_id=1, attrs={int(AttrId.skill_level): 0}, effects=(e,))          # the skill
ch.mktype(type_id=2, group_id=None, attrs={2001: 100})                            # module type without group
ch.mktype(type_id=3, group_id=55, attrs={2001: 100})                              # module type with a group
ss = SolarSystem(source=mem.source(ch))
f = Fit(solar_system=ss)
sk = Skill(1, level=3); f.skills.add(sk)
a = ModuleHigh(2); b = ModuleHigh(3); f.modules.high.append(a); f.modules.high.append(b)
print('no-group module:', a.attrs[2001], ' grouped module:', b.attrs[2001], ' (skill level 3)')
sk.level = 5
print('after level := 5, incremental:', a.attrs[2001])
ss2 = SolarSystem(source=mem.source(ch)); f2 = Fit(solar_system=ss2)
f2.skills.add(Skill(1, level=5)); a2 = ModuleHigh(2); f2.modules.high.append(a2)
print('after level := 5, from scratch:', a2.attrs[2001])
