#!/venv/bin/python
"""Design-time reproducers for the defects discussed in DESIGN.md section 8.

Throw-away evidence for the design, NOT part of the verification machinery:
each case is the minimal public-API scenario found by reading the code or by
a random-history probe at design time.  Run:  /venv/bin/python repro_defects.py
"""
import bz2
import logging
import os
import sys
import tempfile

sys.path.insert(0, '/repo')
logging.disable(logging.CRITICAL)

from eos import *  # noqa
from eos.cache_handler import BuffTemplatesFetchError
from eos.const.eos import *  # noqa
from eos.const.eve import *  # noqa
from eos.eve_obj.attribute import Attribute
from eos.eve_obj.buff_template import WarfareBuffTemplate
from eos.eve_obj.effect import Effect
from eos.eve_obj.modifier import DogmaModifier
from eos.eve_obj.type import Type
from eos.eve_obj_builder import EveObjBuilder
from eos.source import Source
from tests.integration.environment import CacheHandler


class CH(CacheHandler):
    def __init__(self):
        super().__init__()
        self.buffs = {}

    def get_buff_templates(self, buff_id):
        try:
            return self.buffs[int(buff_id)]
        except KeyError:
            raise BuffTemplatesFetchError(buff_id)


def outcome(f):
    try:
        return 'ok: %r' % (f(),)
    except Exception as e:  # noqa
        return 'RAISES %s: %s' % (type(e).__name__, str(e)[:70])


def d01_range_queries():
    ch = CH(); ss = SolarSystem(source=Source('s', ch))
    f1, f2 = Fit(solar_system=ss), Fit(solar_system=ss)
    f1.ship = Ship(ch.mktype().id); f2.ship = Ship(ch.mktype().id)
    return outcome(lambda: ss.get_ctc_range(f1.ship, f2.ship))


def d02_randomize_side_effects():
    ch = CH(); ss = SolarSystem(source=Source('s', ch)); f = Fit(solar_system=ss)
    a = ch.mkattr()
    e = ch.mkeffect(category_id=EffectCategoryId.passive,
                    fitting_usage_chance_attr_id=a.id)
    b = Booster(ch.mktype(attrs={a.id: 0.5}, effects=[e]).id)
    f.boosters.add(b)
    return outcome(b.randomize_side_effects)


def d03_set_readd():
    ch = CH(); f = Fit(solar_system=SolarSystem(source=Source('s', ch)))
    it = Implant(ch.mktype().id); f.implants.add(it)
    r = outcome(lambda: f.implants.add(it))
    return '%s; afterwards in-set=%s len=%d item-still-owned=%s' % (
        r, it in f.implants, len(f.implants), it._container is not None)


def d04_list_insert_negative():
    ch = CH(); ss = SolarSystem(source=Source('s', ch))
    f, g = Fit(solar_system=ss), Fit(solar_system=ss)
    m1, m2, m3 = (ModuleHigh(ch.mktype().id) for _ in range(3))
    f.modules.high.append(m1); f.modules.high.append(m2)
    g.modules.high.append(m3)
    r = outcome(lambda: f.modules.high.insert(-1, m3))
    return '%s; rack is [m1,m3]=%s (m2 dropped but owned=%s)' % (
        r, list(f.modules.high) == [m1, m3], m2._container is not None)


def d05_validate_reports_hole():
    ch = CH(); f = Fit(solar_system=SolarSystem(source=Source('s', ch)))
    ch.mkattr(attr_id=AttrId.hi_slots)
    f.ship = Ship(ch.mktype(attrs={AttrId.hi_slots: 1}).id)
    f.modules.high.place(0, ModuleHigh(ch.mktype().id))
    f.modules.high.place(3, ModuleHigh(ch.mktype().id))
    try:
        f.validate()
    except ValidationError as e:
        return 'None among offending items: %s' % (None in e.data)


def d06_cache_buff_leftover():
    p = os.path.join(tempfile.mkdtemp(), 'c.json.bz2')
    h = JsonCacheHandler(p)
    bt = WarfareBuffTemplate(
        buff_id=5, affectee_filter=ModAffecteeFilter.item, affectee_attr_id=1,
        operator=ModOperator.post_percent,
        aggregate_mode=ModAggregateMode.maximum)
    h.update_cache(([Type(1)], [Attribute(1)], [Effect(7)], [bt]), 'fp1')
    h.update_cache(([Type(2)], [Attribute(2)], [Effect(8)], []), 'fp2')
    return 'writer: %s | fresh reader: %s' % (
        outcome(lambda: len(h.get_buff_templates(5))),
        outcome(lambda: len(JsonCacheHandler(p).get_buff_templates(5))))


def d07_cache_wrong_json():
    p = os.path.join(tempfile.mkdtemp(), 'c.json.bz2')
    res = []
    for payload in ('{}', '[]',
                    '{"types":[],"attrs":[],"effects":[],"buff_templates":[]}'):
        with bz2.BZ2File(p, 'w') as f:
            f.write(payload.encode())
        res.append(outcome(lambda: JsonCacheHandler(p).get_fingerprint()))
    return ' | '.join(res)


class DH:
    def __init__(self, **t):
        self.t = t

    def __getattr__(self, n):
        if n.startswith('get_'):
            return lambda: [dict(r) for r in self.t.get(n[4:], [])]
        raise AttributeError(n)

    def get_version(self):
        return 'v1'


def d08_builder_drops_resist_attr():
    dh = DH(evetypes=[{'typeID': 1, 'groupID': 1}],
            evegroups=[{'groupID': 1, 'categoryID': TypeCategoryId.ship}],
            dgmattribs=[{'attributeID': 100}, {'attributeID': 101}],
            dgmtypeeffects=[{'typeID': 1, 'effectID': 5}],
            dgmeffects=[{'effectID': 5, 'effectCategory': 2,
                         'resistanceAttributeID': 100,
                         'durationAttributeID': 101}])
    types, attrs, effects, _ = EveObjBuilder.run(dh)
    return 'kept attrs %s, effect.resist_attr_id=%s' % (
        sorted(a.id for a in attrs), effects[0].resist_attr_id)


def d09_builder_aborts():
    base = dict(evetypes=[{'typeID': 1, 'groupID': 1}],
                evegroups=[{'groupID': 1, 'categoryID': TypeCategoryId.ship}],
                dgmattribs=[{'attributeID': int(AttrId.ammo_loaded)}])
    r1 = outcome(lambda: bool(EveObjBuilder.run(DH(
        dgmtypeattribs=[{'typeID': 1, 'attributeID': int(AttrId.ammo_loaded),
                         'value': 'abc'}], **base))))
    r2 = outcome(lambda: bool(EveObjBuilder.run(DH(
        dgmeffects=[{'effectID': 5, 'modifierInfo': ['junk']}],
        dgmtypeeffects=[{'typeID': 1, 'effectID': 5}], **base))))
    return 'non-numeric ammo value: %s | non-dict modifierInfo entry: %s' % (
        r1, r2)


def d10_unloaded_item_attr_read():
    ch1, ch2 = CH(), CH()
    a = ch1.mkattr(default_value=1); ch2.mkattr(attr_id=a.id, default_value=1)
    t = ch1.mktype(attrs={a.id: 5})  # type absent from source 2
    ss = SolarSystem(source=Source('a', ch1)); f = Fit(solar_system=ss)
    it = Implant(t.id); f.implants.add(it)
    ss.source = Source('b', ch2)
    return 'loaded=%s, attrs[a]: %s' % (
        it._is_loaded, outcome(lambda: it.attrs[a.id]))


def _projecting_module(ch, a):
    mod = DogmaModifier(
        affectee_filter=ModAffecteeFilter.item,
        affectee_domain=ModDomain.target, affectee_attr_id=a.id,
        operator=ModOperator.post_percent,
        aggregate_mode=ModAggregateMode.stack, affector_attr_id=a.id)
    e = ch.mkeffect(category_id=EffectCategoryId.target, modifiers=(mod,))
    return ch.mktype(attrs={a.id: 10}, effects=[e], default_effect=e)


def d11_stale_projector_crash():
    ch1, ch2 = CH(), CH(); a = ch1.mkattr(); ch2.mkattr(attr_id=a.id)
    modt = _projecting_module(ch1, a); shipt = ch1.mktype()
    # source 2 knows the module type (with its own effect object) but not the
    # ship type
    e1 = modt.default_effect
    e2 = ch2.mkeffect(effect_id=e1.id, category_id=e1.category_id,
                      modifiers=e1.modifiers)
    ch2.mktype(type_id=modt.id, attrs={a.id: 10}, effects=[e2],
               default_effect=e2)
    dronet = ch2.mktype(type_id=shipt.id + 10)
    ss = SolarSystem(source=Source('a', ch1)); f = Fit(solar_system=ss)
    f.ship = Ship(shipt.id)
    m = ModuleHigh(modt.id, state=State.active); f.modules.high.append(m)
    ss.source = Source('b', ch2)  # ship unloads before module: stray projector
    f.modules.high.remove(m)
    return outcome(lambda: f.drones.add(Drone(dronet.id)))


def d12_target_loaded_later():
    ch = CH(); a = ch.mkattr()
    modt = _projecting_module(ch, a); shipt = ch.mktype(attrs={a.id: 100})
    res = []
    for order in ('ship-then-target', 'target-then-ship'):
        ss = SolarSystem(source=Source('a', ch))
        f, g = Fit(solar_system=ss), Fit(solar_system=ss)
        m = ModuleHigh(modt.id, state=State.active); f.modules.high.append(m)
        s = Ship(shipt.id)
        if order == 'ship-then-target':
            g.ship = s; m.target = s
        else:
            m.target = s; g.ship = s
        res.append('%s -> %s' % (order, s.attrs[a.id]))
    return ' | '.join(res)


def d13_fleet_boost_order():
    res = []
    for order in ('ship-then-boost', 'boost-then-ship'):
        ch = CH(); a = ch.mkattr()
        ch.mkattr(attr_id=AttrId.warfare_buff_1_id)
        ch.mkattr(attr_id=AttrId.warfare_buff_1_value)
        ch.buffs[7] = {WarfareBuffTemplate(
            buff_id=7, affectee_filter=ModAffecteeFilter.item,
            affectee_attr_id=a.id, operator=ModOperator.post_percent,
            aggregate_mode=ModAggregateMode.maximum)}
        e = ch.mkeffect(effect_id=EffectId.module_bonus_warfare_link_armor,
                        category_id=EffectCategoryId.active)
        modt = ch.mktype(attrs={AttrId.warfare_buff_1_id: 7,
                                AttrId.warfare_buff_1_value: 50},
                         effects=[e], default_effect=e)
        shipt = ch.mktype(attrs={a.id: 100})
        ss = SolarSystem(source=Source('a', ch))
        f, g = Fit(solar_system=ss), Fit(solar_system=ss)
        fl = Fleet(); fl.fits.add(f); fl.fits.add(g)
        m = ModuleHigh(modt.id, state=State.active); s = Ship(shipt.id)
        if order == 'ship-then-boost':
            g.ship = s; f.modules.high.append(m)
        else:
            f.modules.high.append(m); g.ship = s
        res.append('%s -> %s' % (order, s.attrs[a.id]))
    return ' | '.join(res)


def d14_unsupported_effect_category():
    ch = CH(); f = Fit(solar_system=SolarSystem(source=Source('s', ch)))
    t = ch.mktype(effects=[ch.mkeffect(category_id=EffectCategoryId.area)])
    return outcome(lambda: f.implants.add(Implant(t.id)))


def d15_full_resist_ehp():
    ch = CH(); f = Fit(solar_system=SolarSystem(source=Source('s', ch)))
    ids = (AttrId.armor_hp, AttrId.armor_em_dmg_resonance,
           AttrId.armor_therm_dmg_resonance, AttrId.armor_kin_dmg_resonance,
           AttrId.armor_expl_dmg_resonance)
    for i in ids:
        ch.mkattr(attr_id=i)
    f.ship = Ship(ch.mktype(attrs={i: (100 if i == AttrId.armor_hp else 0)
                                   for i in ids}).id)
    return outcome(lambda: f.stats.get_ehp(DmgProfile(1, 1, 1, 1)).armor)


if __name__ == '__main__':
    for name, fn in sorted(globals().items()):
        if name.startswith('d') and name[1:3].isdigit():
            print('%-34s %s' % (name, fn()))
