"""Confirm an independently authored breaking change and record how the checks react.

usage: seedtool.py <src dir with patch.diff demo.py note.txt> <seed id> <property> [checks to run ...]

Works on a scratch copy of /repo (never on /repo itself): confirms demo PASS on the clean copy, FAIL on the
changed copy, the repository test-suite counts unchanged; then runs the given checks with EOS_REPO pointing
at the changed copy and stores everything under /verif/seeded/<seed id>/.
"""
import json
import os
import re
import shutil
import subprocess
import sys
import time

VERIF = os.path.dirname(os.path.dirname(os.path.abspath(__file__)))
BASELINE = '129 failed, 1288 passed, 13 errors'


def sh(cmd, cwd=None, env=None, timeout=3600):
    p = subprocess.run(cmd, shell=True, cwd=cwd, env=env, stdout=subprocess.PIPE, stderr=subprocess.STDOUT,
                       text=True, timeout=timeout)
    return p.returncode, p.stdout


def main():
    src, sid, prop = sys.argv[1:4]
    checks = sys.argv[4:] or [prop]
    scratch = '/dev/shm/seedrun_%s' % sid
    shutil.rmtree(scratch, ignore_errors=True)
    sh('git -C /repo worktree prune')
    rc, out = sh('git -C /repo worktree add -f --detach %s HEAD' % scratch)
    if rc:
        print(out)
        return 2
    meta = {'seed': sid, 'property': prop, 'note': open(os.path.join(src, 'note.txt')).read()
            if os.path.exists(os.path.join(src, 'note.txt')) else '', 'ran': {},
            'verif_seed': os.environ.get('VERIF_SEED', 'default')}
    old_meta = os.path.join(src, 'meta.json')
    if not meta['note'] and os.path.exists(old_meta):
        meta['note'] = json.load(open(old_meta)).get('needs', '')
    try:
        demo = os.path.join(src, 'demo.py')
        rc0, o0 = sh('/venv/bin/python %s %s' % (demo, scratch))
        rc, out = sh('git apply %s' % os.path.join(os.path.abspath(src), 'patch.diff'), cwd=scratch)
        if rc:
            print('patch does not apply:', out)
            return 2
        rc1, o1 = sh('/venv/bin/python %s %s' % (demo, scratch))
        _, suite = sh('/venv/bin/python -m pytest -q -p no:cacheprovider --continue-on-collection-errors tests 2>&1 | tail -1',
                      cwd=scratch)
        counts = re.sub(r' in [\d.]+s.*', '', suite.strip())
        meta['demo_clean'] = {'exit': rc0, 'tail': o0.strip()[-200:]}
        meta['demo_changed'] = {'exit': rc1, 'tail': o1.strip()[-300:]}
        meta['suite_changed'] = counts
        meta['confirmed'] = (rc0 == 0 and rc1 != 0 and counts.strip('= ') == BASELINE)
        print('demo clean exit %d, changed exit %d, suite: %s -> confirmed=%s' % (rc0, rc1, counts, meta['confirmed']))
        env = dict(os.environ, EOS_REPO=scratch)
        for chk in checks:
            t0 = time.time()
            rc, out = sh('./check %s' % chk, cwd=VERIF, env=env)
            lines = [l for l in out.splitlines() if l.startswith('VIOLATION') or l.startswith('KNOWN-FINDING')]
            viol = [l for l in lines if l.startswith('VIOLATION')]
            replay = None
            m = re.search(r'replay=(\S+)', viol[0]) if viol else None
            what = None
            if m and os.path.exists(os.path.join(VERIF, m.group(1))):
                d = json.load(open(os.path.join(VERIF, m.group(1))))
                v = d.get('violation') or {}
                what = (v.get('what') or str([b.get('obligation') for b in d.get('broken', [])]))[:300]
            meta['ran'][chk] = {'exit': rc, 'violation_line': viol[0] if viol else None, 'what': what,
                                'wall_s': round(time.time() - t0, 1)}
            print('  ./check %s -> exit %d %s | %s' % (chk, rc, viol[0] if viol else '', what))
    finally:
        sh('git -C /repo worktree remove --force %s' % scratch)
        shutil.rmtree(scratch, ignore_errors=True)
    dst = os.path.join(VERIF, 'seeded', sid)
    os.makedirs(dst, exist_ok=True)
    for f in ('patch.diff', 'demo.py', 'note.txt'):
        if os.path.exists(os.path.join(src, f)) and os.path.abspath(src) != os.path.abspath(dst):
            shutil.copy(os.path.join(src, f), os.path.join(dst, f))
    meta['needs'] = meta.pop('note')
    json.dump(meta, open(os.path.join(dst, 'meta.json'), 'w'), indent=1)
    # regenerate EosGen from the real tree again
    for chk in checks:
        sh('/venv/bin/python -c "import sys; sys.path.insert(0, \'tools\'); import runner, importlib; '
           'm = importlib.import_module(\'props.%s\'); runner.regenerate(getattr(m, \'GENERATORS\', []), print)"'
           % chk.lower(), cwd=VERIF)
    return 0


if __name__ == '__main__':
    sys.exit(main())
