"""Mechanical mutation sweep (development aid): classical operators on the anchored files of /repo.

usage: mutate.py <out dir> <n mutants> [-j N] [--seed S] [--only path-substring ...]

For every sampled mutant: a scratch git worktree of /repo gets the mutated file; the repository's own test-suite must
keep its baseline counts (otherwise the mutant is `killed-by-suite`); then the checks mapped to the file run in a
private copy of /verif (as tools/seedwave.py does) with EOS_REPO pointing at the worktree.  A mutant that survives all
mapped checks is written to <out dir>/survivors/ with its diff - an equivalent mutant or a gap to look at.
"""
import ast
import copy
import json
import os
import random
import re
import shutil
import subprocess
import sys
from concurrent.futures import ThreadPoolExecutor

VERIF = os.path.dirname(os.path.dirname(os.path.abspath(__file__)))
REPO = '/repo'
BASELINE = '129 failed, 1288 passed, 13 errors'
SUITE = '/venv/bin/python -m ' + 'pytest -q -p no:cacheprovider --continue-on-collection-errors tests 2>&1 | tail -1'

FILES = {
    'eos/calculator/map.py': ['C02', 'C01', 'C09'],
    'eos/calculator/service.py': ['C01', 'C13', 'C11', 'C02'],
    'eos/calculator/affection.py': ['C02', 'C01', 'C13'],
    'eos/calculator/projection.py': ['C01', 'C13', 'C11'],
    'eos/item/mixin/base.py': ['C05', 'C01', 'C06'],
    'eos/item/mixin/state.py': ['C05', 'C01'],
    'eos/item/mixin/targetable.py': ['C13', 'C01'],
    'eos/effect_status.py': ['C05'],
    'eos/pubsub/message/helper.py': ['C05', 'C01', 'C03'],
    'eos/restriction/service.py': ['C03'],
    'eos/restriction/restriction/max_group.py': ['C03'],
    'eos/restriction/restriction/resource.py': ['C03'],
    'eos/restriction/restriction/slot_index.py': ['C03', 'C11'],
    'eos/restriction/restriction/skill_requirement.py': ['C03'],
    'eos/restriction/restriction/charge_size.py': ['C03'],
    'eos/restriction/restriction/drone_group.py': ['C03'],
    'eos/restriction/restriction/state.py': ['C03'],
    'eos/stats/register/dmg_dealer.py': ['C04'],
    'eos/stats/register/resource/ship_regular.py': ['C04', 'C03'],
    'eos/stats/register/slot/launched_drone.py': ['C04', 'C11'],
    'eos/stats/service.py': ['C04'],
    'eos/eve_obj/effect/effect.py': ['C04', 'C05'],
    'eos/eve_obj/effect/helper_func.py': ['C04'],
    'eos/sim/reactive_armor_hardener.py': ['C12', 'C09'],
    'eos/cache_handler/json_cache_handler.py': ['C15', 'C16', 'C17'],
    'eos/source/manager.py': ['C17'],
    'eos/eve_obj_builder/cleaner.py': ['C18'],
    'eos/eve_obj_builder/normalizer.py': ['C18'],
    'eos/eve_obj_builder/validator_preclean.py': ['C18'],
    'eos/eve_obj_builder/validator_preconv.py': ['C18'],
    'eos/eve_obj_builder/mod_builder/builder.py': ['C19'],
    'eos/eve_obj_builder/mod_builder/converter/mod_info.py': ['C19'],
    'eos/eve_obj/modifier/base.py': ['C19', 'C02'],
    'eos/eve_obj/modifier/dogma.py': ['C19', 'C02'],
    'eos/item_container/list.py': ['C07', 'C06'],
    'eos/item_container/set.py': ['C07', 'C06'],
    'eos/item_container/single.py': ['C06', 'C07'],
    'eos/item_container/dict.py': ['C07', 'C06'],
    'eos/item_container/type_unique_set.py': ['C07', 'C06'],
    'eos/item_container/base.py': ['C06', 'C07'],
    'eos/solar_system/solar_system.py': ['C20', 'C14'],
    'eos/solar_system/fit_set.py': ['C06', 'C14', 'C01'],
    'eos/fleet/fit_set.py': ['C06', 'C13', 'C10'],
    'eos/fit.py': ['C12', 'C10', 'C06'],
    'eos/item/booster.py': ['C05', 'C10'],
    'eos/item/skill.py': ['C01', 'C14'],
}

CMP = {ast.Lt: ast.LtE, ast.LtE: ast.Lt, ast.Gt: ast.GtE, ast.GtE: ast.Gt, ast.Eq: ast.NotEq, ast.NotEq: ast.Eq,
       ast.Is: ast.IsNot, ast.IsNot: ast.Is, ast.In: ast.NotIn, ast.NotIn: ast.In}
BIN = {ast.Add: ast.Sub, ast.Sub: ast.Add, ast.Mult: ast.Div, ast.Div: ast.Mult}


def points(tree):
    """List of (description, function applying the mutation to a deep copy's node with the same index)."""
    out = []
    for idx, node in enumerate(ast.walk(tree)):
        line = getattr(node, 'lineno', 0)
        if isinstance(node, ast.Compare) and len(node.ops) == 1 and type(node.ops[0]) in CMP:
            out.append((idx, line, 'cmp:%s' % type(node.ops[0]).__name__))
        elif isinstance(node, ast.BoolOp):
            out.append((idx, line, 'bool:%s' % type(node.op).__name__))
        elif isinstance(node, ast.UnaryOp) and isinstance(node.op, ast.Not):
            out.append((idx, line, 'not:drop'))
        elif isinstance(node, ast.BinOp) and type(node.op) in BIN:
            out.append((idx, line, 'bin:%s' % type(node.op).__name__))
        elif isinstance(node, ast.Constant) and isinstance(node.value, bool):
            out.append((idx, line, 'const:bool'))
        elif isinstance(node, ast.Constant) and isinstance(node.value, int) and 0 <= node.value <= 10:
            out.append((idx, line, 'const:int+1'))
        elif isinstance(node, ast.If):
            out.append((idx, line, 'if:negate'))
        elif isinstance(node, ast.Continue):
            out.append((idx, line, 'continue:break'))
        elif isinstance(node, ast.Expr) and isinstance(node.value, ast.Call) and not (
                isinstance(node.value.func, ast.Attribute) and node.value.func.attr in ('warning', 'info', 'debug', 'error')):
            out.append((idx, line, 'stmt:drop-call'))
    return out


def mutate(src, idx, kind):
    tree = ast.parse(src)
    nodes = list(ast.walk(tree))
    node = nodes[idx]
    if kind.startswith('cmp:'):
        node.ops = [CMP[type(node.ops[0])]()]
    elif kind.startswith('bool:'):
        node.op = ast.Or() if isinstance(node.op, ast.And) else ast.And()
    elif kind == 'not:drop':
        for parent in nodes:
            for field, val in ast.iter_fields(parent):
                if val is node:
                    setattr(parent, field, node.operand)
                elif isinstance(val, list) and node in val:
                    val[val.index(node)] = node.operand
    elif kind.startswith('bin:'):
        node.op = BIN[type(node.op)]()
    elif kind == 'const:bool':
        node.value = not node.value
    elif kind == 'const:int+1':
        node.value = node.value + 1
    elif kind == 'if:negate':
        node.test = ast.UnaryOp(op=ast.Not(), operand=node.test)
    elif kind == 'continue:break':
        for parent in nodes:
            for field, val in ast.iter_fields(parent):
                if isinstance(val, list) and node in val:
                    val[val.index(node)] = ast.Break()
    elif kind == 'stmt:drop-call':
        for parent in nodes:
            for field, val in ast.iter_fields(parent):
                if isinstance(val, list) and node in val:
                    val[val.index(node)] = ast.Pass()
    ast.fix_missing_locations(tree)
    return ast.unparse(tree)


def sh(cmd, cwd=None, env=None, timeout=3600):
    p = subprocess.run(cmd, shell=True, cwd=cwd, env=env, stdout=subprocess.PIPE, stderr=subprocess.STDOUT, text=True,
                       timeout=timeout)
    return p.returncode, p.stdout


def worker(args):
    k, jobs, out = args
    copy_dir = '/dev/shm/vm_%d' % k
    shutil.rmtree(copy_dir, ignore_errors=True)
    subprocess.run(['rsync', '-a', '--exclude', '.git', '--exclude', 'replays', '--exclude', 'evidence_scratch',
                    VERIF + '/', copy_dir + '/'], check=True)
    res = []
    for mid, path, idx, line, kind in jobs:
        wt = '/dev/shm/mut_%s' % mid
        shutil.rmtree(wt, ignore_errors=True)
        sh('git -C %s worktree prune' % REPO)
        rc, o = sh('git -C %s worktree add -f --detach %s HEAD' % (REPO, wt))
        rec = {'id': mid, 'file': path, 'line': line, 'kind': kind}
        try:
            src = open(os.path.join(wt, path)).read()
            try:
                new = mutate(src, idx, kind)
                compile(new, path, 'exec')
            except Exception as e:
                rec['verdict'] = 'not-applicable:%s' % type(e).__name__
                continue
            # unparse the ORIGINAL too, so that the diff shows the mutation only
            open(os.path.join(wt, path), 'w').write(ast.unparse(ast.parse(src)))
            sh('git add -A && git -c user.email=m@m -c user.name=m commit -qm base', cwd=wt)
            open(os.path.join(wt, path), 'w').write(new)
            _, diff = sh('git diff', cwd=wt)
            rec['diff'] = diff[-1500:]
            try:
                _, suite = sh('timeout 600 ' + SUITE, cwd=wt, timeout=700)
            except subprocess.TimeoutExpired:
                suite = 'timeout'
            counts = re.sub(r' in [\d.]+s.*', '', suite.strip()).strip('= ')
            if counts != BASELINE:
                rec['verdict'] = 'killed-by-suite'
                rec['suite'] = counts
                continue
            env = dict(os.environ, EOS_REPO=wt)
            rec['checks'] = {}
            for chk in FILES[path]:
                try:
                    rc, o = sh('timeout 1500 ./check %s' % chk, cwd=copy_dir, env=env, timeout=1600)
                except subprocess.TimeoutExpired:
                    rc, o = 124, ''
                if rc == 124:
                    rec['caught_by'] = chk
                    rec['violation'] = 'check did not terminate (the mutant hangs the real code)'
                    break
                rec['checks'][chk] = rc
                if rc == 1:
                    v = [l for l in o.splitlines() if l.startswith('VIOLATION')]
                    rec['caught_by'] = chk
                    rec['violation'] = v[0] if v else ''
                    break
                if rc == 2:
                    rec['infra'] = o[-600:]
            rec['verdict'] = 'caught' if 'caught_by' in rec else 'SURVIVED'
            if rec['verdict'] == 'SURVIVED':
                os.makedirs(os.path.join(out, 'survivors'), exist_ok=True)
                open(os.path.join(out, 'survivors', mid + '.diff'), 'w').write(diff)
        finally:
            sh('git -C %s worktree remove --force %s' % (REPO, wt))
            shutil.rmtree(wt, ignore_errors=True)
            res.append(rec)
            with open(os.path.join(out, 'results.jsonl'), 'a') as f:
                f.write(json.dumps(rec) + '\n')
            print(mid, path, line, kind, rec.get('verdict'), rec.get('caught_by', ''), flush=True)
    shutil.rmtree(copy_dir, ignore_errors=True)
    return res


def main():
    argv = sys.argv[1:]
    j, seed, only = 5, 0, []
    if '-j' in argv:
        i = argv.index('-j'); j = int(argv[i + 1]); del argv[i:i + 2]
    if '--seed' in argv:
        i = argv.index('--seed'); seed = int(argv[i + 1]); del argv[i:i + 2]
    if '--only' in argv:
        i = argv.index('--only'); only = argv[i + 1:]; del argv[i:]
    out, n = argv[0], int(argv[1])
    os.makedirs(out, exist_ok=True)
    rnd = random.Random(seed)
    allp = []
    for path in FILES:
        if only and not any(o in path for o in only):
            continue
        src = open(os.path.join(REPO, path)).read()
        for idx, line, kind in points(ast.parse(src)):
            allp.append((path, idx, line, kind))
    rnd.shuffle(allp)
    jobs = [('m%d_%04d' % (seed, i), p, idx, line, kind) for i, (p, idx, line, kind) in enumerate(allp[:n])]
    print('%d mutation points, running %d' % (len(allp), len(jobs)), flush=True)
    buckets = [jobs[i::j] for i in range(j)]
    with ThreadPoolExecutor(j) as ex:
        list(ex.map(worker, [(k, b, out) for k, b in enumerate(buckets) if b]))


if __name__ == '__main__':
    main()
