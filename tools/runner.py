"""./check driver: regenerate -> lake build -> audit -> correspondence -> oracle -> verdict.

Exit 0: property held on everything explored (KNOWN-FINDING lines allowed).
Exit 1: a `VIOLATION property=<id> replay=<path>` line was printed.
Exit 2: the machinery itself failed (never a verdict).
"""
import argparse
import importlib
import json
import os
import sys
import time
import traceback

sys.path.insert(0, os.path.dirname(os.path.abspath(__file__)))
import common as C  # noqa: E402

ALL = ['C%02d' % i for i in range(1, 21)]


def load_prop(pid):
    return importlib.import_module('props.%s' % pid.lower())


def regenerate(names, log):
    """Run extractors against /repo's working tree; rewrite lean/EosGen/*.lean when changed.

    Returns list of (generator, error text) for extractors that could not process the source."""
    broken = []
    for name in names:
        try:
            mod = importlib.import_module('gen.%s' % name)
            files = mod.generate()
        except Exception:
            broken.append((name, traceback.format_exc()[-3000:]))
            continue
        for rel, text in files.items():
            p = C.LEAN / rel
            p.parent.mkdir(parents=True, exist_ok=True)
            if not p.exists() or p.read_text() != text:
                p.write_text(text)
                log('regenerated %s' % rel)
    return broken


def all_generators():
    d = os.path.join(os.path.dirname(os.path.abspath(__file__)), 'gen')
    return sorted(f[:-3] for f in os.listdir(d) if f.endswith('.py') and not f.startswith('_'))


def setup():
    """Regenerate EosGen and build what the claimed checks need (targets of the properties in MANIFEST.json)."""
    t0 = time.time()
    man = json.load(open(C.VERIF / 'MANIFEST.json'))
    gens, targets = [], []
    for chk in man['checks']:
        mod = load_prop(chk['property_id'])
        gens += [g for g in getattr(mod, 'GENERATORS', []) if g not in gens]
        targets += [t for t in list(mod.LEAN_TARGETS) + list(getattr(mod, 'DRIVERS', [])) if t not in targets]
    broken = regenerate(gens, print)
    for name, err in broken:
        print('generator %s failed:\n%s' % (name, err))
    ok, out = C.lake_build(targets)
    print(out[-4000:])
    print('setup: lake build of %d targets %s in %.0fs' % (len(targets), 'ok' if ok else 'FAILED', time.time() - t0))
    return 0 if ok and not broken else 2


def main():
    ap = argparse.ArgumentParser()
    ap.add_argument('pid', nargs='?')
    ap.add_argument('--tier', default=os.environ.get('VERIF_TIER', 'quick'), choices=['quick', 'thorough'])
    ap.add_argument('--replay')
    ap.add_argument('--setup', action='store_true')
    ap.add_argument('--no-lean', action='store_true', help='development only: skip build and audit')
    a = ap.parse_args()
    if a.setup:
        return setup()
    pid = a.pid.upper()
    if pid not in ALL:
        print('unknown property', pid)
        return 2
    seed = int(os.environ.get('VERIF_SEED', '0'))
    mod = load_prop(pid)
    if a.replay:
        return mod.replay(a.replay)
    ctx = C.Ctx(pid, a.tier, seed)
    t0 = time.time()

    def log(s):
        print('[%s %6.1fs] %s' % (pid, time.time() - t0, s), flush=True)

    broken = []       # proof obligations / correspondences that no longer check
    drivers_ok = False
    obligations = 0
    discharged = 0
    thm_axioms = {}
    checker_cmd = 'cd lean && lake build %s && lake env lean <#print axioms of every Props theorem>' % ' '.join(
        mod.LEAN_TARGETS)
    # 1. regenerate EosGen from /repo's working tree
    for name, err in regenerate(getattr(mod, 'GENERATORS', []), log):
        broken.append({'obligation': 'gen:%s (extractor cannot process the current source)' % name, 'detail': err})
    # 2. build: the theorems are re-checked against what the code says now
    if not a.no_lean:
        ok, out = C.lake_build(list(mod.LEAN_TARGETS) + list(getattr(mod, 'DRIVERS', [])))
        if not ok:
            fm = C.failing_modules(out)
            gen_related = any(m.startswith('EosGen') for m in fm) or bool(broken)
            # hand-written files are unchanged by a change to /repo: if nothing generated is
            # involved the machinery itself is broken
            deps_gen = bool(getattr(mod, 'GENERATORS', []))
            if not (gen_related or deps_gen):
                print(out[-6000:])
                print('lake build failed outside generated obligations: infrastructure error')
                return 2
            broken.append({'obligation': 'lean:%s' % ','.join(fm or ['?']), 'detail': out[-6000:]})
            log('lake build FAILED in %s' % fm)
            # the model drivers may still build (they do not depend on the proofs)
            drivers_ok = bool(getattr(mod, 'DRIVERS', [])) and C.lake_build(list(mod.DRIVERS))[0]
        else:
            log('lake build ok')
        # 3. audit
        hits = C.grep_forbidden()
        if hits:
            print('forbidden constructs in Lean sources:', hits)
            return 2
        thms = []
        for m in mod.LEAN_TARGETS:
            if '.Props.' in m:
                thms += C.theorems_of(m)
        obligations = len(thms)
        if ok:
            try:
                thm_axioms = C.audit_axioms(mod.LEAN_TARGETS, thms, pid)
            except C.InfraError as e:
                print(e)
                return 2
            bad = {t: ax for t, ax in thm_axioms.items() if not set(ax) <= C.STD_AXIOMS}
            if bad:
                print('non-standard axioms:', bad)
                return 2
            discharged = len(thm_axioms)
            log('audit ok: %d theorems, axioms within {propext, Classical.choice, Quot.sound}' % discharged)
            if a.tier == 'thorough' and os.environ.get('VERIF_LEANCHECKER', '1') == '1':
                okc, outc = C.leanchecker(mod.LEAN_TARGETS)
                if not okc:
                    print('leanchecker failed:', outc)
                    return 2
                checker_cmd += ' && lake env leanchecker ' + ' '.join(mod.LEAN_TARGETS)
                log('leanchecker ok')
    # 4. correspondence model <-> impl
    def guarded(name, fn):
        """An unexpected exception inside a harness run against the real code means the code left the
        behaviour the harness was written for: it is reported like a correspondence that no longer checks
        (with the traceback in the replay), not as a bare crash."""
        try:
            fn(ctx)
            return True
        except C.InfraError:
            raise
        except Exception:
            tb = traceback.format_exc()
            log('%s raised:\n%s' % (name, tb[-1500:]))
            broken.append({'obligation': 'correspondence:%s-raised-%s' % (name, tb.strip().splitlines()[-1][:80]),
                           'detail': tb[-4000:]})
            return False
    try:
        if not any(b['obligation'].startswith('lean:') for b in broken) or a.no_lean or drivers_ok:
            guarded('correspondence', mod.correspondence)
            log('correspondence: %d evaluations, %d disagreements' % (
                ctx.report.evaluations, len(ctx.report.disagreements)))
        # 5. impl-level oracle of the property itself
        guarded('oracle', mod.oracle)
        log('oracle: %d evaluations total, %d impl-level failures' % (
            ctx.report.evaluations, len(ctx.report.violations)))
    except C.InfraError as e:
        print('infrastructure error:', e)
        return 2
    rep = ctx.report
    for d in rep.disagreements:
        broken.append({'obligation': 'correspondence:%s' % d['where'], 'detail': d})
    # 6. something broke and the oracle saw nothing yet: search harder
    if broken and not rep.violations and hasattr(mod, 'search'):
        log('searching impl and model for a failing input (%d broken obligations)' % len(broken))
        try:
            mod.search(ctx, broken)
        except C.InfraError as e:
            print('infrastructure error during search:', e)
            return 2
        except Exception:
            log('search raised:\n' + traceback.format_exc()[-1500:])
    # 7. verdict
    known = [k for k in C.known_findings() if k['property'] == pid and k['status'] == 'known']
    classify = getattr(mod, 'classify', lambda v: v.get('class'))
    new = []
    seen_known = set()
    for v in rep.violations:
        k = classify(v)
        if k is not None and any(e['id'] == k for e in known):
            seen_known.add(k)
        else:
            new.append(v)
    for e in known:
        # a listed finding is announced on every run (its witness is replayed by the oracle)
        print('KNOWN-FINDING: property=%s %s %s%s' % (
            pid, e['id'], e['what'], '' if e['id'] in seen_known else ' (witness not re-observed in this run)'))
    status = 0
    if new:
        path = C.write_replay(pid, {'property': pid, 'kind': 'failing-input', 'seed': seed, 'tier': a.tier,
                                    'violation': new[0], 'more': new[1:5],
                                    'broken_obligations': [b['obligation'] for b in broken]})
        print('VIOLATION property=%s replay=%s' % (pid, path))
        status = 1
    elif broken:
        path = C.write_replay(pid, {'property': pid, 'kind': 'broken-obligation', 'seed': seed, 'tier': a.tier,
                                    'broken': broken[:10],
                                    'note': 'the theorem/correspondence named here no longer checks against the '
                                            'current source; the failing-input search found no concrete input'})
        print('VIOLATION property=%s replay=%s no-failing-input-found' % (pid, path))
        status = 1
    # 8. evidence
    cov = {
        'obligations': max(obligations, 1), 'discharged': discharged if not broken else max(
            0, discharged - len([b for b in broken if b['obligation'].startswith(('lean', 'gen'))])),
        'checker_cmd': checker_cmd,
        'trusted_base': C.TRUSTED_BASE + list(getattr(mod, 'TRUSTED', [])),
        'theorems': sorted(thm_axioms),
        'axioms_used': sorted({ax for axs in thm_axioms.values() for ax in axs}),
        'generated_from_source': list(getattr(mod, 'GENERATORS', [])),
        'evaluations': rep.evaluations, 'distinct_nontrivial': len(rep.nontrivial),
        'rule': ' | '.join(str(r) for r in rep.rules) or str(getattr(mod, 'RULE', '')),
        'samples': rep.samples or ['(none)'],
        'input_distribution': dict(rep.dist), 'fragile': rep.fragile,
        'correspondence_disagreements': len(rep.disagreements),
        'clauses': getattr(mod, 'CLAUSES', {}),
        'notes': rep.notes,
    }
    if isinstance(rep.exhaustive, bool):
        cov['exhaustive'] = rep.exhaustive
    elif rep.exhaustive is not None:
        cov['exhaustive_detail'] = rep.exhaustive
    if not a.no_lean:       # development runs without the Lean part never write evidence
        C.write_evidence(pid, a.tier, seed, cov, list(getattr(mod, 'ASSUMPTIONS', [])), time.time() - t0,
                         len(new) + (1 if (broken and not new) else 0))
    log('done, exit %d' % status)
    return status


if __name__ == '__main__':
    try:
        sys.exit(main())
    except C.InfraError as e:
        print('infrastructure error:', e)
        sys.exit(2)
