"""Writes MANIFEST.json from the property modules present in tools/props (keeps it valid at all times)."""
import importlib
import json
import os
import sys

sys.path.insert(0, os.path.dirname(os.path.abspath(__file__)))
import common as C  # noqa

BASE = ('cd /repo && /venv/bin/python -m pytest -ra -q -p no:cacheprovider --timeout=900 '
        '--continue-on-collection-errors --junitxml=/tmp/eos-baseline.junit.xml')

def main():
    props = [json.loads(l) for l in open(C.VERIF / 'properties.jsonl')]
    checks, na = [], []
    for p in props:
        pid = p['id']
        try:
            mod = importlib.import_module('props.%s' % pid.lower())
            for t in mod.LEAN_TARGETS:
                if not (C.LEAN / (t.replace('.', '/') + '.lean')).exists():
                    raise ModuleNotFoundError(t)
            mod.LEVEL_TEXT, mod.LEVEL_NOTE, mod.TECHNIQUE
            if os.environ.get('ONLY') and pid not in os.environ['ONLY'].split(','):
                raise ModuleNotFoundError(pid)
        except (ModuleNotFoundError, AttributeError, ImportError, SyntaxError) as e:
            na.append({'property_id': pid, 'reason': 'not built yet: Lean model, theorems and correspondence for this '
                       'property are planned in DESIGN.md section 7 but not yet part of the committed machinery'})
            continue
        checks.append({
            'property_id': pid,
            'quick_cmd': './check %s --tier quick' % pid,
            'thorough_cmd': './check %s --tier thorough' % pid,
            'evidence_file': 'evidence/%s.json' % pid,
            'replay_cmd_template': './check %s --replay {path}' % pid,
            'engine': 'lean4-proof+correspondence',
            'level_claimed': {'category': 'proof', 'text': mod.LEVEL_TEXT, 'design_ref': 'DESIGN.md section 7, %s' % pid},
            'level_note': mod.LEVEL_NOTE,
            'technique': mod.TECHNIQUE,
        })
    man = {
        'version': 1,
        'setup_cmd': './check --setup',
        'hooks': {
            'guard': 'EOS_VERIF',
            'enable': 'no source hook is needed: the C08 harness installs its delivery-order and hash-salt '
                      'instrumentation from outside (monkeypatching at run time); checks run the unmodified tree',
            'baseline_off_cmd': BASE,
            'source_commits': [],
            'add_only': True,
        },
        'engines': [{
            'name': 'lean4-proof+correspondence', 'path': 'lean/ tools/',
            'serves_properties': [c['property_id'] for c in checks],
            'kind_free_text': 'Lean 4 theorems about a hand-written exact-rational model plus tables/formulas '
                              'regenerated from /repo on every run; differential correspondence model vs impl; '
                              'impl-level oracle for the failing-input search',
        }],
        'checks': checks,
        'not_applicable': na,
        'notes': 'See DESIGN.md. Exit 2 from a check means the machinery failed, never a verdict.',
    }
    (C.VERIF / 'MANIFEST.json').write_text(json.dumps(man, indent=1))
    print('claimed:', [c['property_id'] for c in checks])

main()
