#!/bin/bash
# lake build under the project lock (several checks / developers build concurrently)
cd "$(dirname "$0")/../lean" || exit 2
export PATH="/opt/veriftools/lean/bin:$PATH"
exec flock .build.lock lake build "$@"
