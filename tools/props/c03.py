"""C03 - validation equals the stateless restriction rules and reports only real items."""
import collections
import itertools
import json

import common as C
from harness import restr_world as W

PID = 'C03'
GENERATORS = ['restriction_maps']
LEAN_TARGETS = ['EosProofs.Props.C03']
DRIVERS = ['drv_restr']
RULE = ('correspondence: random histories on a real Fit (rack place/insert/free/equip with holes, set containers, '
        'ship/stance/beacon swap, states, effect mode overrides, charge swaps, skill levels, source switch to the other '
        'source / None and back, wrong-class types, malformed ops) over universes with boundary values; after every '
        'step the six loaded-item messages observed on the fit are fed to the model register layer (each must respect '
        'the protocol), the public snapshot must agree with them, every private restriction register must equal the '
        'model register (L2), and fit.validate(skip) must equal validateSpec and the register-based validate for '
        'skip = {} , one random subset and (every 4th step) all 2^k subsets of k <= 4 sampled types (L1). '
        'Non-trivial = observation whose validation data is non-empty; distinct by (failing types, rack shapes).'
        ' Also: every item on the fit is loaded exactly when the current source knows its type; the malformed stream re-uses a charge that sits in another module.')
ASSUMPTIONS = [
    'modified attribute values are taken from the impl (the calculator is not re-modelled here; C01/C02 cover it)',
    'autocharges are outside the generated universes (no effect of the universe defines one)',
    'slot attributes are non-negative (a negative total makes Python slice from the end; the spec reports every item)',
    'the link message history <-> snapshot (`Agree`) and the protocol of MsgHelper (`WFHist`) are hypotheses of the '
    'theorems; both are checked on every observed step of the correspondence run',
    'float sums of resource use are compared with 1e-9 tolerance; universes use dyadic values so comparisons at the '
    'boundary are exact',
]
CLAUSES = {
    'validate raises exactly when a rule is violated (raises_iff_nonempty)': 'proved',
    'error data = offending items -> violated types -> documented numbers': 'proved for the 15 register-based '
    'restrictions relative to the register layer (validate_eq_spec); the per-restriction checks themselves and the 19 '
    'stateless restrictions are specification = model, tied to the code by correspondence and by the regenerated '
    'constant / handler tables (generated = spec by decide)',
    'all reported keys are items currently on the fit': 'proved (validate_keys_live, impl_keys_live)',
    'skip_checks only omits': 'proved (validate_skip, validate_skip_impl)',
    'verdict depends only on the current configuration': 'proved (verdict_function_of_config) under WFHist and Agree',
    'registers exact after any history': 'proved (registers_eq_derived, by the generic toggle_register lemma)',
}
LEVEL_TEXT = ('Lean theorems over a message-level register model (15 toggle registers, any well-formed history) and '
              'a stateless specification of all 34 restrictions; handler maps, referenced constants, stat/container '
              'wiring and CLASS_VALIDATORS regenerated from the source and proved equal to the specification tables; '
              'differential correspondence (public validate data, private registers, message protocol) on random '
              'histories in a real Fit.')
LEVEL_NOTE = ('The 19 register-free rules and the per-item checks are spec = model (correspondence-only tie); modified '
              'attribute values come from the impl; autocharges and negative slot totals are outside the generator.')
TECHNIQUE = 'Lean 4 proof (induction over message histories, generic toggle-register lemma) + regenerated tables (decide) + differential correspondence'

R = W.Restriction
A = W.A
ALL_TYPES = sorted(int(r) for r in R)
MODULES = ('ModuleHigh', 'ModuleMid', 'ModuleLow')


# ---------------------------------------------------------------- independent stateless evaluator (oracle)
def py_eval(s):
    """The 34 restriction docstrings read statelessly over a snapshot dict: {(item, type): (kind, fields)}."""
    I, out = s['items'], {}

    def put(i, t, kind, *f):
        out[(i, int(t))] = (kind, list(f))
    ship = I.get(s['ship'])
    ship_attrs = ship['attrs'] if ship and ship['loaded'] else {}
    loaded = [r for r in I.values() if r['loaded']]
    mods = [r for r in loaded if r['cls'] in MODULES]

    def ship_total(a):
        v = ship['mattrs'].get(int(a)) if ship else None
        return int(v) if v is not None else 0

    def vals(rec_attrs, ids):
        return sorted({rec_attrs[int(a)] for a in ids if int(a) in rec_attrs})
    # resources
    for t, users, use, outp, rounded in (
            (R.cpu, [r for r in loaded if 16 in r['running'] and int(A.cpu) in r['attrs']], A.cpu, A.cpu_output, True),
            (R.powergrid, [r for r in loaded if 16 in r['running'] and int(A.power) in r['attrs']], A.power,
             A.power_output, True),
            (R.calibration, [r for r in loaded if 2663 in r['running'] and int(A.upgrade_cost) in r['attrs']],
             A.upgrade_cost, A.upgrade_capacity, False),
            (R.dronebay_volume, [r for r in loaded if r['cls'] == 'Drone' and int(A.volume) in r['attrs']], A.volume,
             A.drone_capacity, False),
            (R.drone_bandwidth, [r for r in loaded if r['cls'] == 'Drone' and r['state'] >= 2 and
                                 int(A.drone_bandwidth_used) in r['attrs']], A.drone_bandwidth_used, A.drone_bandwidth,
             False)):
        used = sum(r['mattrs'][int(use)] for r in users)
        used = round(used, 2) if rounded else used
        output = (ship['mattrs'].get(int(outp)) if ship else None) or 0
        if used > output:
            for r in users:
                if r['mattrs'][int(use)] > 0:
                    put(r['id'], t, 'res', used, output, r['mattrs'][int(use)])
    # slots counted by users
    char = I.get(s['character'])
    char_total = char['mattrs'].get(int(A.max_active_drones)) if char else None
    fighters = [r for r in loaded if r['cls'] == 'FighterSquad']
    for t, users, total in (
            (R.launched_drone, [r['id'] for r in I.values() if r['cls'] == 'Drone' and r['state'] >= 2],
             int(char_total) if char_total is not None else 0),
            (R.turret_slot, [r['id'] for r in loaded if 42 in r['running']], ship_total(A.turret_slots_left)),
            (R.launcher_slot, [r['id'] for r in loaded if 40 in r['running']], ship_total(A.launcher_slots_left)),
            (R.fighter_squad_support, [r['id'] for r in fighters if r['attrs'].get(int(A.fighter_squadron_is_support))],
             ship_total(A.fighter_support_slots)),
            (R.fighter_squad_light, [r['id'] for r in fighters if r['attrs'].get(int(A.fighter_squadron_is_light))],
             ship_total(A.fighter_light_slots)),
            (R.fighter_squad_heavy, [r['id'] for r in fighters if r['attrs'].get(int(A.fighter_squadron_is_heavy))],
             ship_total(A.fighter_heavy_slots)),
            (R.rig_slot, s['rigs'], ship_total(A.rig_slots)),
            (R.subsystem_slot, s['subsystems'], ship_total(A.max_subsystems)),
            (R.fighter_squad, s['fighters'], ship_total(A.fighter_tubes))):
        if len(users) > total:
            for i in users:
                put(i, t, 'slot', len(users), total)
    for t, rack, a in ((R.high_slot, 'high', A.hi_slots), (R.mid_slot, 'mid', A.med_slots), (R.low_slot, 'low', A.low_slots)):
        total = ship_total(a)
        if len(s[rack]) > total:
            for pos, i in enumerate(s[rack]):
                if pos >= total and i is not None:
                    put(i, t, 'slot', len(s[rack]), total)
    # drone group
    allowed = vals(ship_attrs, W.DRONE_GROUP_ATTRS)
    if ship is not None and allowed:
        for r in loaded:
            if r['cls'] == 'Drone' and r['group'] not in allowed:
                put(r['id'], R.drone_group, 'dg', r['group'], allowed)
    # rig size
    if int(A.rig_size) in ship_attrs:
        for r in loaded:
            if 2663 in r['running'] and int(A.rig_size) in r['attrs'] and r['attrs'][int(A.rig_size)] != ship_attrs[int(A.rig_size)]:
                put(r['id'], R.rig_size, 'rig', r['attrs'][int(A.rig_size)], ship_attrs[int(A.rig_size)])
    # slot indices
    for t, cls, a in ((R.subsystem_index, 'Subsystem', A.subsystem_slot), (R.implant_index, 'Implant', A.implantness),
                      (R.booster_index, 'Booster', A.boosterness)):
        by = collections.defaultdict(list)
        for r in loaded:
            if r['cls'] == cls and int(a) in r['attrs']:
                by[r['attrs'][int(a)]].append(r['id'])
        for idx, its in by.items():
            if len(its) > 1:
                for i in its:
                    put(i, t, 'idx', idx)
    # ship type / group
    stype, sgroup = (ship['type'], ship['group']) if ship and ship['loaded'] else (None, None)
    for r in mods:
        ty, gr = vals(r['attrs'], W.SHIP_TYPE_ATTRS), vals(r['attrs'], W.SHIP_GROUP_ATTRS)
        if (ty or gr) and stype not in ty and sgroup not in gr:
            put(r['id'], R.ship_type_group, 'stg', stype, sgroup, ty, gr)
    # capital items
    if not ship_attrs.get(int(A.is_capital_size)):
        for r in mods:
            if r['attrs'].get(int(A.volume), 0) > 3500:
                put(r['id'], R.capital_item, 'cap', r['attrs'][int(A.volume)], 3500)
    # max group
    for t, a, min_state in ((R.max_group_fitted, A.max_group_fitted, 1), (R.max_group_online, A.max_group_online, 2),
                            (R.max_group_active, A.max_group_active, 3)):
        pool = [r for r in mods if r['group'] is not None and r['state'] >= min_state]
        for r in pool:
            q = sum(1 for o in pool if o['group'] == r['group'])
            if int(a) in r['attrs'] and q > r['mattrs'][int(a)]:
                put(r['id'], t, 'mg', r['group'], q, r['mattrs'][int(a)])
    # skill requirements
    levels = {I[i]['type']: (I[i]['level'] if I[i]['loaded'] else None) for i in s['skills']}
    for r in loaded:
        if r['cls'] != 'Rig':
            errs = sorted((t, levels.get(t), l) for t, l in r['rq'].items() if levels.get(t) is None or levels[t] < l)
            if errs:
                put(r['id'], R.skill_requirement, 'sk', errs)
    # item class / loaded item
    cat, grp = W.TypeCategoryId, W.TypeGroupId
    ok = {
        'Booster': lambda r: r['category'] == cat.implant and int(A.boosterness) in r['attrs'],
        'Character': lambda r: r['group'] == grp.character,
        'Charge': lambda r: r['category'] == cat.charge,
        'Drone': lambda r: r['category'] == cat.drone,
        'EffectBeacon': lambda r: r['group'] == grp.effect_beacon,
        'FighterSquad': lambda r: r['category'] == cat.fighter and any(
            int(a) in r['attrs'] for a in (A.fighter_squadron_is_heavy, A.fighter_squadron_is_light,
                                           A.fighter_squadron_is_support)),
        'Implant': lambda r: r['category'] == cat.implant and int(A.implantness) in r['attrs'],
        'ModuleHigh': lambda r: r['category'] == cat.module and 12 in r['effects'],
        'ModuleMid': lambda r: r['category'] == cat.module and 13 in r['effects'],
        'ModuleLow': lambda r: r['category'] == cat.module and 11 in r['effects'],
        'Rig': lambda r: r['category'] == cat.module and 2663 in r['effects'],
        'Ship': lambda r: r['category'] == cat.ship,
        'Skill': lambda r: r['category'] == cat.skill,
        'Stance': lambda r: r['group'] == grp.ship_modifier,
        'Subsystem': lambda r: r['category'] == cat.subsystem and 3772 in r['effects']}
    for r in I.values():
        if not r['loaded']:
            put(r['id'], R.loaded_item, 'li')
        elif not ok[r['cls']](r):
            put(r['id'], R.item_class, 'ic', r['cls'], sorted(c for c, f in ok.items() if f(r)))
    # states
    for r in loaded:
        mx = max([1] + list(r['effects'].values()))
        if r['cls'] != 'Charge' and r['state'] >= 2 and r['state'] > mx:
            put(r['id'], R.state, 'st', r['state'], [x for x in (1, 2, 3, 4) if x <= mx])
    # charges
    for r in mods:
        ch = I.get(r['charge'])
        if ch is None:
            continue
        allowed = vals(r['attrs'], W.CHARGE_GROUP_ATTRS)
        if allowed and ch['loaded'] and ch['group'] not in allowed:
            put(ch['id'], R.charge_group, 'cg', ch['group'], allowed)
        if int(A.charge_size) in r['attrs'] and ch['loaded'] and \
                ch['attrs'].get(int(A.charge_size)) != r['attrs'][int(A.charge_size)]:
            put(ch['id'], R.charge_size, 'cs', ch['attrs'].get(int(A.charge_size)), r['attrs'][int(A.charge_size)])
        vol = ch['attrs'].get(int(A.volume), 0) if ch['loaded'] else 0
        if vol > r['attrs'].get(int(A.capacity), 0):
            put(ch['id'], R.charge_volume, 'cv', vol, r['attrs'].get(int(A.capacity), 0))
    return out


def minus(data, skip):
    return data if isinstance(data, str) else {k: v for k, v in data.items() if k[1] not in skip}


def as_outcome(data):
    return 'pass' if data == {} else data


# ---------------------------------------------------------------- histories
def run_history(useed, hseed, steps, dist=None, ops=None):
    """Generator over the steps of one history: yields (world, ops so far, ops of this step, op errors)."""
    dist = collections.Counter() if dist is None else dist
    u = W.Universe(useed)
    rnd = C.random.Random('C03-history/%s/%s' % (useed, hseed))
    w = W.World(u, source=rnd.choice(('A', 'A', 'B')))
    done = []
    groups = ops if ops is not None else None
    for n in range(steps if groups is None else len(groups)):
        step_ops = W.gen_ops(rnd, w, dist) if groups is None else groups[n]
        errs = []
        for op in step_ops:
            e = w.apply(op)
            dist['op:' + op[0] + (':' + str(op[2]) if op[0] == 'rack' else '')] += 1
            if e:
                errs.append(e)
                dist['op-error:' + e] += 1
        done.append([list(o) for o in step_ops])
        yield w, done, step_ops, errs


def skip_sets(rnd, step, failing):
    """skip = {} always, one random subset, and every 4th step all subsets of k <= 4 sampled types."""
    sets = [(), tuple(sorted(rnd.sample(ALL_TYPES, rnd.randint(1, 6))))]
    if step % 4 == 3:
        pool = sorted(failing) or ALL_TYPES
        k = rnd.sample(pool, min(len(pool), rnd.randint(1, 3))) + [rnd.choice(ALL_TYPES)]
        k = sorted(set(k))[:4]
        for n in range(1, len(k) + 1):
            sets += [tuple(c) for c in itertools.combinations(k, n)]
    return list(dict.fromkeys(sets))


def _sig(data, snap):
    if isinstance(data, str):
        return None
    return (tuple(sorted({k[1] for k in data})), tuple(len(snap[r]) for r in ('high', 'mid', 'low')),
            tuple(sum(1 for i in snap[r] if i is None) for r in ('high', 'mid', 'low')))


def correspondence(ctx):
    rep = ctx.report
    rep.rules.append(RULE)
    n_hist, n_steps = ctx.n(160, 1500), ctx.n(30, 40)
    lines, expect = [], []          # expect: per driver line, None (must be ok) or a check record
    for h in range(n_hist):
        useed = '%s-%d' % (ctx.seed, h % ctx.n(40, 300))
        rnd = ctx.sub_rnd('corr-skip', h)
        lines.append('reset')
        expect.append(None)
        for step, (w, done, step_ops, errs) in enumerate(run_history(useed, '%s-%d' % (ctx.seed, h), n_steps, rep.dist)):
            case = {'useed': useed, 'hseed': '%s-%d' % (ctx.seed, h), 'step': step, 'ops': done}
            msgs = w.drain()
            snap = w.snapshot()
            sl = W.World.snapshot_lines(snap)
            lines += msgs + sl + ['regs']
            expect += [('msg', case, m) for m in msgs] + [None] * len(sl) + [('regs', case, w.registers())]
            full = w.validate()
            failing = set() if isinstance(full, str) else {k[1] for k in full}
            for t in failing:
                rep.dist['fails:%s' % R(t).name] += 1
            if any(i is None for r in ('high', 'mid', 'low') for i in snap[r]):
                rep.dist['obs-with-rack-holes'] += 1
            if any(not r['loaded'] for r in snap['items'].values()):
                rep.dist['obs-with-unloaded-items'] += 1
            for sk in skip_sets(rnd, step, failing):
                impl = full if not sk else w.validate(sk)
                lines.append('validate %s' % (','.join(map(str, sk)) or '-'))
                expect.append(('validate', dict(case, skip=list(sk)), impl))
                rep.case(sig=_sig(impl, snap), sample=dict(case, ops=done[-3:], skip=list(sk)) if step > 6 else None,
                         kind='skip-size-%d' % min(len(sk), 5))
            rep.dist['msgs'] += len(msgs)
    outs = C.run_driver('drv_restr', '\n'.join(lines) + '\n')
    if len(outs) != len(lines):
        raise C.InfraError('driver returned %d lines for %d commands' % (len(outs), len(lines)))
    for line, out, exp in zip(lines, outs, expect):
        if out == 'bad-op':
            raise C.InfraError('driver rejected %r' % line)
        if exp is None:
            continue
        kind, case, impl = exp
        if kind == 'msg':
            if out != 'ok':
                rep.disagree('protocol: message observed on the fit violates WFHist', 'wf-violation', impl, case)
        elif kind == 'regs':
            flags, _, body = out[2:].partition(' derived=')
            der, _, body = body.partition(' ')
            if flags != 'wf=1 agree=1 snapwf=1':
                rep.disagree('L2: message history vs public snapshot (%s)' % flags, flags, 'wf=1 agree=1 snapwf=1', case)
            elif der != '1':
                rep.disagree('model self-check: registers != derived', der, '1', case)
            model = dict(x.split('=', 1) for x in body.split(';'))
            for t, reg in impl.items():
                if model.get(str(t)) != reg:
                    rep.disagree('L2: register of %s' % R(t).name, model.get(str(t)), reg, case)
        else:
            spec, regb = out[2:].split(' ')
            imp = impl if not (isinstance(impl, str) and impl.startswith('internal')) else 'internal'
            if not W.same_outcome(W.parse_model_outcome(spec), imp):
                rep.disagree('L1: validate(skip=%s) vs validateSpec' % case['skip'], spec, impl, case)
            elif not W.same_outcome(W.parse_model_outcome(regb), imp):
                rep.disagree('L1: validate(skip=%s) vs register-based model' % case['skip'], regb, impl, case)


# ---------------------------------------------------------------- impl-level oracle
def rebuild(w, snap):
    """The same configuration built from scratch in a fresh fit; returns (world, old ident -> new ident)."""
    w2 = W.World(w.u, source=w.src)
    ren = {snap['character']: 1} if snap['character'] is not None else {}

    def make(i):
        r = snap['items'][i]
        it = w2.new_item(r['cls'], r['type'], r['state'] or None, r['level'])
        ren[i] = w2.ident(it)
        for e, m in sorted(w.modes.get(i, {}).items()):
            it.set_effect_mode(e, W.EffectMode(m))
        if r['charge'] is not None:
            it.charge = make(r['charge'])
        return it
    for e, m in sorted(w.modes.get(snap['character'], {}).items()):
        w2.fit.character.set_effect_mode(e, W.EffectMode(m))
    for attr, key in (('ship', 'ship'), ('stance', 'stance'), ('effect_beacon', 'beacon')):
        if snap[key] is not None:
            setattr(w2.fit, attr, make(snap[key]))
    for name in W.SETS:
        for i in snap[name]:
            getattr(w2.fit, name).add(make(i))
    for rack in W.RACKS:
        for pos, i in enumerate(snap[rack]):
            if i is not None:
                getattr(w2.fit.modules, rack).place(pos, make(i))
    return w2, ren


def check_step(rep, w, case, rnd, deep):
    """The property itself on the real code at one observation point."""
    snap = w.snapshot()
    # an item on the fit is loaded exactly when the current source knows its type (what the restrictions see)
    src = w.ss.source
    for it in w.placed():
        known = False
        if src is not None:
            try:
                src.cache_handler.get_type(it._type_id)
                known = True
            except Exception:
                known = False
        if it._is_loaded != known:
            rep.violate('item %s is %sloaded although the source %s its type' % (
                w.ident(it), '' if it._is_loaded else 'not ', 'knows' if known else 'does not know'), case)
            break
    live = set(snap['items'])
    full = w.validate()
    if isinstance(full, str) and full != 'pass':
        rep.violate('fit.validate() raised %s instead of passing or raising ValidationError' % full, case)
        return
    data = {} if full == 'pass' else full
    for (i, t) in data:
        if i not in live:
            rep.violate('validate() reports a key which is not an item currently on the fit: %r under %s' % (
                i, R(t).name), case)
    want = py_eval(snap)
    if not W.same_outcome(want, data):
        diff = sorted(k for k in set(want) | set(data)
                      if k not in want or k not in data or not W.same(list(want[k]), list(data[k])))[:4]
        rep.violate('validate() data differs from the stateless rules at %s' % [
            (i, R(t).name, want.get((i, t)), data.get((i, t))) for i, t in diff], case)
    failing = {k[1] for k in data}
    for sk in skip_sets(rnd, 3 if deep else 0, failing)[1:]:
        part = w.validate(sk)
        part = {} if part == 'pass' else part
        if isinstance(part, str) or not W.same_outcome(minus(data, sk), part):
            rep.violate('skip_checks=%s does not simply omit the skipped restrictions' % [R(t).name for t in sk],
                        dict(case, skip=list(sk)))
    if deep:
        w2, ren = rebuild(w, snap)
        fresh = w2.validate()
        moved = data if not isinstance(data, dict) else {(ren.get(i, i), t): v for (i, t), v in data.items()}
        fresh = {} if fresh == 'pass' else fresh
        if isinstance(fresh, str) or not W.same_outcome(moved, fresh):
            rep.violate('verdict differs between this history and the same configuration built in a fresh fit', case)
    rep.case(sig=('oracle',) + _sig(data, snap) if data else None, kind='oracle-step')


def oracle(ctx, n_hist=None):
    rep = ctx.report
    n_hist, n_steps = n_hist or ctx.n(110, 1000), ctx.n(30, 40)
    for h in range(n_hist):
        useed = '%s-o%d' % (ctx.seed, h % ctx.n(30, 250))
        hseed = '%s-o%d' % (ctx.seed, h)
        rnd = ctx.sub_rnd('oracle-skip', h)
        for step, (w, done, step_ops, errs) in enumerate(run_history(useed, hseed, n_steps, rep.dist)):
            w.drain()
            before = len(rep.violations)
            check_step(rep, w, {'useed': useed, 'hseed': hseed, 'step': step, 'ops': done}, rnd, deep=step % 3 == 2)
            if len(rep.violations) > before:
                break                      # one failing history is enough; later steps repeat the same finding
    _designed_boundaries(rep)


def _designed_boundaries(rep):
    """Resource restrictions at the boundary: fractional uses whose decimal sum equals the ship's output exactly
    (the float sum of the parts lands a hair above it) must pass, one hundredth less output must fail with exactly
    the over-users reported."""
    from eos import Fit, ModuleHigh, Restriction, Ship, SolarSystem, State
    from eos.const.eve import AttrId, EffectCategoryId, EffectId
    from eos.restriction.exception import ValidationError
    from harness import mem
    for use_attr, out_attr, rtype, uses, output in (
            (AttrId.cpu, AttrId.cpu_output, Restriction.cpu, (33.27, 18.1, 5.63), 57.0),
            (AttrId.power, AttrId.power_output, Restriction.powergrid, (10.3, 10.4), 20.7),
            (AttrId.cpu, AttrId.cpu_output, Restriction.cpu, (30.3, 20.9, 6.2), 57.4)):
        for slack in (0, -0.01):
            ch = mem.MemCache()
            ch.mkattr(attr_id=use_attr, stackable=True)
            ch.mkattr(attr_id=out_attr, stackable=True)
            online = ch.mkeffect(effect_id=EffectId.online, category_id=EffectCategoryId.online)
            ship_t = ch.mktype(attrs={out_attr: round(output + slack, 2)})
            fit = Fit(solar_system=SolarSystem(source=mem.source(ch)))
            fit.ship = Ship(ship_t.id)
            for v in uses:
                fit.modules.high.append(ModuleHigh(ch.mktype(attrs={use_attr: v}, effects=[online]).id, state=State.online))
            case = {'designed': 'resource-boundary', 'uses': list(uses), 'output': round(output + slack, 2)}
            try:
                fit.validate()
                failed = []
            except ValidationError as e:
                failed = sorted(int(r) for d in e.data.values() for r in d if int(r) == int(rtype))   # this restriction only
            rep.case(kind='oracle-designed-boundary', sig=('boundary', int(use_attr), uses, slack))
            want = [] if slack == 0 else [int(rtype)] * len(uses)
            if failed != want:
                rep.violate('resource use %r against output %r: validate() reports restrictions %r, expected %r'
                            % (uses, round(output + slack, 2), failed, want), case)


def search(ctx, broken):
    ctx.tier = 'thorough'
    oracle(ctx, n_hist=120)


def replay(path):
    data = json.load(open(C.VERIF / path if not str(path).startswith('/') else path))
    v = data.get('violation')
    if not v:
        print(json.dumps(data, indent=1)[:3000])
        print('replay names a broken obligation; re-run ./check C03 to re-check it')
        return 0
    case = v['case']
    if 'designed' in case:
        rep = C.Report()
        _designed_boundaries(rep)
        for x in rep.violations[:3]:
            print('REPRODUCED:', x['what'])
        return 1 if rep.violations else 0
    print('replaying %d steps of history %s (universe %s): %s' % (len(case['ops']), case['hseed'], case['useed'], v['what'][:300]))
    rep = C.Report()
    rnd = C.random.Random('replay')
    ops = [[tuple(o) for o in g] for g in case['ops']]
    for step, (w, done, step_ops, errs) in enumerate(run_history(case['useed'], case['hseed'], 0, ops=ops)):
        w.drain()
        check_step(rep, w, dict(case, step=step), rnd, deep=True)
        if rep.violations:
            break
    for x in rep.violations[:3]:
        print('REPRODUCED at step %d: %s' % (x['case']['step'], x['what'][:600]))
    return 1 if rep.violations else 0
