"""C05 - which effects run is a fixed function of state, run mode and effect category."""
import json
import re

import common as C
from harness import mem
from gen import effect_status_table as gen_table

PID = 'C05'
GENERATORS = ['effect_status_table']
LEAN_TARGETS = ['EosProofs.Props.C05', 'EosProofs.Props.C05World']
DRIVERS = ['drv_effstatus']
RULE = ('table: every row of the complete product (19600 = 4 states x 5 modes x 8 categories x default x 7 online '
        'situations x chance x 5 overrides, incl. the effect being "online" itself) is run on the real resolver and '
        'compared with the specification evaluated by the compiled model. histories: random worlds (2-3 sources with '
        'differing/missing types, every item class, charges, boosters with side effects, fighter squads with '
        'abilities) and mostly-valid op sequences + ~8% malformed ops; after EVERY op the public observation of every '
        'item (loaded flag, {effect: mode, status}, EffectsStarted/Stopped notifications, side effects, abilities) is '
        'compared with the model. Non-trivial = op on a world where some loaded item has an effect; distinct by '
        '(op, item kind, state, (category state, mode, status) per effect).')
ASSUMPTIONS = [
    'effect categories are the six documented ones (passive, active, target, online, overload, system); area/dungeon/None raise KeyError at load (D14, outside the quantifier) and are kept out of generated universes',
    'item states and states passed to setters are State members; run modes may be any int (non-members never run)',
    'side-effect chances are unmodified attribute values (generated effects carry no modifiers); random() is replaced by a supplied draw sequence on both sides',
    'autocharges (effect-defined charges) are generated but not modelled: the impl-level oracle checks them like charges',
]
CLAUSES = {
    'running set = function of state, run mode, category, default, online, chance (four documented run modes)':
        'proved: table_total + keys_nodup + keys_complete + table_matches_spec (complete regenerated table = spec, kernel-evaluated) and '
        'running_eq_spec (all histories, induction); force_modes / state_compliance_iff / full_compliance_iff restate the documented rules',
    'unloaded or outside a sourced solar system: nothing runs': 'proved: loaded_iff_reachable, unloaded_runs_nothing',
    'charges follow their container state': 'proved: charge_follows_container',
    'no effect started twice / stopped without running': 'proved: update_diff_exact, unload_stops_running; notifications compared in the correspondence',
    'booster side effects report and produce the status set, randomisation': 'proved: side_effect_roundtrip, randomize_spec (any draw sequence)',
    'fighter abilities report and produce the status set': 'proved: ability_roundtrip',
    'model = code': 'regenerated table/constants (decide +kernel) + differential correspondence on histories',
    'autocharges follow their container': 'explored on impl only (oracle), not modelled',
}
LEVEL_TEXT = ('Lean theorems: the complete 19600-row decision table extracted by running EffectStatusResolver equals the '
              'hand-written reading of the EffectMode documentation (kernel evaluation), and for ALL histories of a '
              'model of the item bookkeeping the running set equals that decision; differential correspondence of '
              'the model with real items of every class after every step.')
LEVEL_NOTE = ('Trusted: Lean kernel + 3 standard axioms; the table extractor (stub item with real Effect objects); the '
              'harness; that the state machine mirrors base.py/state.py/helper.py/booster.py/fighter_squad.py only as '
              'far as the correspondence observed; calculator-modified chances and autocharges are outside the model.')
TECHNIQUE = 'Lean 4 proof: exhaustive regenerated decision table = spec (decide +kernel) + invariant by induction over histories + differential correspondence'

KINDS = ['moduleHigh', 'moduleMid', 'moduleLow', 'drone', 'fighter', 'booster', 'implant', 'rig', 'ship',
         'subsystem', 'skill', 'character', 'stance', 'beacon']          # order of Kind.all in the model
MUTABLE = {0, 1, 2, 3, 4}
HOLDS_CHARGE = {0, 1, 2}
SINGLE = {8: 'ship', 11: 'character', 12: 'stance', 13: 'effect_beacon'}
DOC_STATE = {0: 1, 1: 3, 2: 3, 4: 2, 5: 4, 7: 1}       # documented effect category -> state
ONLINE = 16
TARGET_ATTACK, AMMO_LOADED = 10, 127                    # effect / attribute that define an autocharge on modules
LAUNCH_BOMB, BOMB_TYPE = 6485, 2324                     # ... and on fighter squads
CHANCE_ATTRS = (5001, 5002, 5003)                       # 5003 has no metadata in any source
CHANCES = [0.0, 0.25, 0.35, 0.5, 1.0]
DRAWS = [0.0, 0.2, 0.25, 0.3499999, 0.35, 0.4, 0.5, 0.75, 0.9999999]
MODES = [1, 2, 3, 4]
BAD_MODES = [0, 5, 9]


# ---------------------------------------------------------------- universe
def make_universe(rnd):
    """Description (plain data) of 2-3 sources: effects pool, types per item kind, charge types."""
    from eos.const.eve import fighter_ability_map
    amap = {int(a): int(e) for a, e in fighter_ability_map.items()}
    abil_ids = sorted(amap)
    desc = {'sources': [], 'kinds': {}, 'charges': [], 'amap': sorted(amap.items())}
    tid = 100
    kinds = {}
    for k in range(len(KINDS)):
        kinds[k] = [tid + j for j in range(2 if k in (8, 11, 12, 13) else 3)]
        tid += 10
    charges = [tid + j for j in range(3)]
    desc['kinds'] = kinds
    desc['charges'] = charges
    for s in range(rnd.choice([2, 2, 3])):
        attrs = {5001: None, 5002: rnd.choice([None, 0.35, 0.5])}
        pool = {ONLINE: (rnd.choice([1, 4]), None)}
        for eid in range(2001, 2015):
            cat = rnd.choice(sorted(DOC_STATE))
            ch = rnd.choice(CHANCE_ATTRS) if rnd.random() < (0.6 if DOC_STATE[cat] == 1 else 0.15) else None
            pool[eid] = (cat, ch)
        for eid in sorted(set(amap.values())):
            pool[eid] = (rnd.choice([1, 1, 2, 2, 0, 5]), None)
        pool[TARGET_ATTACK] = (2, None)
        types = {}
        for k, tids in list(kinds.items()) + [(-1, charges)]:
            for t in tids:
                if rnd.random() < 0.12:
                    continue                      # this source does not serve the type
                generic = [e for e in pool if 2001 <= e < 2015]
                effs = rnd.sample(generic, rnd.randint(0, 6))
                if k == 5:                        # boosters: make side effects likely
                    effs += [e for e in generic if pool[e][1] and DOC_STATE[pool[e][0]] == 1 and e not in effs][:3]
                if rnd.random() < 0.6:
                    effs.append(ONLINE)
                abilities = []
                if k == 4:
                    abilities = rnd.sample(abil_ids, rnd.randint(0, 5))
                    for a in abilities:
                        if amap[a] not in effs and rnd.random() < 0.85:
                            effs.append(amap[a])
                rnd.shuffle(effs)
                default = rnd.choice(effs) if effs and rnd.random() < 0.7 else None
                tattrs = {a: rnd.choice(CHANCES) for a in CHANCE_ATTRS[:2] if rnd.random() < 0.6}
                if k in HOLDS_CHARGE and rnd.random() < 0.3:      # autocharge (impl-level exploration only)
                    effs.append(TARGET_ATTACK)
                    tattrs[AMMO_LOADED] = rnd.choice(charges)
                if k == 4 and LAUNCH_BOMB in effs and rnd.random() < 0.7:
                    tattrs[BOMB_TYPE] = rnd.choice(charges)
                types[t] = {'effects': effs, 'default': default, 'abilities': abilities, 'attrs': tattrs}
        desc['sources'].append({'attrs': attrs, 'pool': {str(e): list(v) for e, v in pool.items()},
                                'types': {str(t): v for t, v in types.items()}})
    return desc


def build_sources(desc):
    """Real cache handlers / sources for a description; plus what the model is told (read back from the caches)."""
    out = []
    for s in desc['sources']:
        ch = mem.MemCache()
        for a, dflt in s['attrs'].items():
            ch.mkattr(attr_id=int(a), default_value=dflt)
        effs = {}
        for e, (cat, chance) in s['pool'].items():
            effs[int(e)] = ch.mkeffect(effect_id=int(e), category_id=cat, fitting_usage_chance_attr_id=chance)
        for t, td in s['types'].items():
            ch.mktype(type_id=int(t), attrs={int(a): v for a, v in td['attrs'].items()},
                      effects=[effs[e] for e in td['effects']],
                      default_effect=effs[td['default']] if td['default'] is not None else None,
                      abilities_data={a: (0, 0) for a in td['abilities']})
        out.append((ch, mem.source(ch, alias='c05')))
    return out


def read_back(ch):
    """{type id: (default effect id, [ability ids], [(effect id, category, has chance attr, chance value)])}."""
    res = {}
    for t, ty in ch.types.items():
        effs = []
        for eid, e in ty.effects.items():
            aid = e.fitting_usage_chance_attr_id
            val = None
            if aid is not None and aid in ch.attrs:
                val = ty.attrs.get(aid, ch.attrs[aid].default_value)
            effs.append((eid, e.category_id, aid is not None, val))
        res[t] = (ty.default_effect.id if ty.default_effect is not None else None, list(ty.abilities_data), effs)
    return res


def universe_lines(desc, views):
    lines = ['sources %d' % len(views)] + ['ability %d %d' % (a, e) for a, e in desc['amap']]
    for k, view in enumerate(views):
        for t, (dflt, abil, effs) in view.items():
            es = ';'.join('%d:%d:%d:%s' % (e, cat, h, '-' if val is None else C.q(val)) for e, cat, h, val in effs)
            lines.append('type %d %d %s %s %s' % (k, t, '-' if dflt is None else dflt,
                                                  ','.join(map(str, abil)) or '-', es or '-'))
    return lines


def op_line(op):
    o = op['op']
    pairs = lambda ms: ','.join('%d:%d' % (e, m) for e, m in ms) or '-'  # noqa: E731
    if o == 'new':
        return 'new %d %d %d %d' % (op['id'], op['kind'], op['type'], op['state'])
    if o in ('add', 'remove'):
        return '%s %d' % (o, op['id'])
    if o == 'state':
        return 'state %d %d' % (op['id'], op['s'])
    if o == 'modes':
        return 'modes %d %d %s' % (op['id'], op['who'], pairs(op['ms']))
    if o == 'charge':
        return 'charge %d %s %s' % (op['id'], '-' if op['type'] is None else op['type'], pairs(op['ms']))
    if o == 'source':
        return 'source %s' % ('-' if op['k'] is None else op['k'])
    if o in ('attach', 'detach'):
        return o
    if o == 'setside':
        return 'setside %d %d %d' % (op['id'], op['e'], op['on'])
    if o == 'randomize':
        return 'randomize %d %s' % (op['id'], ','.join(C.q(d) for d in op['draws']) or '-')
    if o == 'setability':
        return 'setability %d %d %d' % (op['id'], op['a'], op['on'])
    raise C.InfraError('unknown op %r' % (op,))


# ---------------------------------------------------------------- history generator
def gen_ops(rnd, desc, n):
    """Mostly-valid op sequence chosen from a light shadow of the world, plus a malformed stream."""
    ops = []
    items = {}          # id -> dict(kind, onfit, charge)
    attached, source = True, None
    nsrc = len(desc['sources'])
    all_effects = sorted({e for s in desc['sources'] for t in s['types'].values() for e in t['effects']}) or [2001]
    abil_ids = [a for a, _ in desc['amap']]
    next_id = 1
    singles = set()

    def new_item():
        nonlocal next_id
        k = rnd.choice([0, 0, 1, 2, 3, 4, 4, 5, 5, 6, 7, 8, 9, 10, 11, 12, 13])
        if k in SINGLE and k in singles:
            k = rnd.choice([0, 3, 4, 5])
        singles.add(k)
        used = {it['type'] for it in items.values() if it['kind'] == 10}
        tids = [t for t in desc['kinds'][k] if not (k == 10 and t in used)]
        if not tids:
            k, tids = 0, desc['kinds'][0]
        it = {'kind': k, 'type': rnd.choice(tids), 'onfit': False, 'charge': False}
        items[next_id] = it
        op = {'op': 'new', 'id': next_id, 'kind': k, 'type': it['type'],
              'state': rnd.randint(1, 4) if k in MUTABLE else 1}
        next_id += 1
        return op

    def modes(bulk):
        ms = {}
        for _ in range(rnd.randint(2, 4) if bulk else 1):
            e = rnd.choice(all_effects) if rnd.random() < 0.93 else rnd.choice([3999, ONLINE])
            ms[e] = rnd.choice(MODES) if rnd.random() < 0.9 else rnd.choice(BAD_MODES)
        return [[e, m] for e, m in ms.items()]

    def served(type_id):
        """The generator's own idea of what the current source serves for a type (to aim ops, nothing more)."""
        if source is None:
            return None
        return desc['sources'][source]['types'].get(str(type_id))

    def is_side(e, td):
        cat, attr = desc['sources'][source]['pool'][str(e)]
        return DOC_STATE[cat] == 1 and attr is not None and (
            attr in td['attrs'] or desc['sources'][source]['attrs'].get(attr) is not None)

    if rnd.random() < 0.8:
        source = rnd.randrange(nsrc)
        ops.append({'op': 'source', 'k': source})
    while len(ops) < n:
        r = rnd.random()
        ids = sorted(items)
        if not ids or (r < 0.08 and len(ids) < 9):
            ops.append(new_item())
            continue
        i = rnd.choice(ids)
        it = items[i]
        off = [j for j in ids if not items[j]['onfit']]
        # keep the world mostly loaded: repair absences quickly, cause them rarely
        if off and rnd.random() < 0.3:
            items[off[0]]['onfit'] = True
            ops.append({'op': 'add', 'id': off[0]})
        elif not attached and rnd.random() < 0.35:
            attached = True
            ops.append({'op': 'attach'})
        elif source is None and rnd.random() < 0.35:
            source = rnd.randrange(nsrc)
            ops.append({'op': 'source', 'k': source})
        elif r < 0.14:
            if it['onfit'] and rnd.random() < 0.7:
                it['onfit'] = False
                ops.append({'op': 'remove', 'id': i})
            elif it['onfit'] and it['kind'] not in SINGLE:
                ops.append({'op': 'add', 'id': i})                 # malformed: already on the fit
        elif r < 0.20:
            if rnd.random() < 0.7:
                ks = [k for k in list(range(nsrc)) + [None] if k != source] if rnd.random() < 0.9 else [source]
                source = rnd.choice(ks)
                ops.append({'op': 'source', 'k': source})
            elif attached:
                attached = False
                ops.append({'op': 'detach'})
        elif r < 0.40:
            cand = [j for j in ids if items[j]['kind'] in MUTABLE] if rnd.random() < 0.92 else ids
            if cand:
                ops.append({'op': 'state', 'id': rnd.choice(cand), 's': rnd.randint(1, 4)})
        elif r < 0.60:
            who = 1 if it['charge'] and rnd.random() < 0.5 else 0
            bulk = rnd.random() < 0.35
            ops.append({'op': 'modes', 'id': i, 'who': who, 'ms': modes(bulk), 'bulk': bulk})
        elif r < 0.70:
            cand = [j for j in ids if items[j]['kind'] in HOLDS_CHARGE]
            if cand:
                j = rnd.choice(cand)
                t = rnd.choice(desc['charges']) if rnd.random() < 0.8 else None
                items[j]['charge'] = t is not None
                ops.append({'op': 'charge', 'id': j, 'type': t, 'ms': modes(True) if rnd.random() < 0.4 else []})
        elif r < 0.86:
            cand = [j for j in ids if items[j]['kind'] == 5 and (items[j]['onfit'] or rnd.random() < 0.1)]
            if cand:
                j = rnd.choice(cand)
                td = served(items[j]['type'])
                side = [e for e in (td['effects'] if td else []) if is_side(e, td)]
                if rnd.random() < 0.6:
                    e = rnd.choice(side) if side and rnd.random() < 0.85 else rnd.choice(all_effects)
                    ops.append({'op': 'setside', 'id': j, 'e': e, 'on': rnd.randint(0, 1)})
                else:
                    ops.append({'op': 'randomize', 'id': j, 'draws': [rnd.choice(DRAWS) for _ in range(16)]})
        else:
            cand = [j for j in ids if items[j]['kind'] == 4 and (items[j]['onfit'] or rnd.random() < 0.1)]
            if cand:
                j = rnd.choice(cand)
                td = served(items[j]['type'])
                own = td['abilities'] if td else []
                a = rnd.choice(own) if own and rnd.random() < 0.85 else rnd.choice(abil_ids)
                ops.append({'op': 'setability', 'id': j, 'a': a, 'on': rnd.randint(0, 1)})
    return ops


# ---------------------------------------------------------------- the real code
class Spy:
    """Records EffectsStarted / EffectsStopped published by the fit."""

    def __init__(self):
        self.events = []

    def _notify(self, msg):
        self.events.append((msg.item, '+' if type(msg).__name__ == 'EffectsStarted' else '-',
                            sorted(int(e) for e in msg.effect_ids)))


def spec_decide(st, mode, es, is_default, has_chance, is_online, online_runs):
    """The documented decision, written independently of eos/effect_status.py (oracle side)."""
    if mode == 3:
        return True
    if mode == 2:
        return st >= es
    if mode == 1:
        if st < es:
            return False
        return {1: not has_chance, 2: is_online or online_runs, 3: is_default, 4: True}[es]
    return False


class Invalid(Exception):
    """The op sequence itself is ill-formed (only the shrinker produces such sequences)."""


class ImplWorld:
    """One fit in one solar system, driven op by op; keeps its own record of what was requested (shadow)
    so the oracle can recompute the expected running sets without asking the resolver."""

    def __init__(self, desc):
        from eos import Fit, SolarSystem
        from eos.pubsub.message import EffectsStarted, EffectsStopped
        self.desc = desc
        self.srcs = build_sources(desc)
        self.views = [read_back(ch) for ch, _ in self.srcs]
        self.ss = SolarSystem(source=None)
        self.fit = Fit(solar_system=self.ss)
        self.spy = Spy()
        self.fit._subscribe(self.spy, [EffectsStarted, EffectsStopped])
        self.items = {}       # id -> real item
        self.sh = {}          # id -> shadow: kind, state, onfit, modes{e:m}, ctype, cmodes
        self.attached, self.source = True, None
        self.live = {}        # id(obj) -> set of ids the notifications say are running
        self.keep = []        # objects seen in notifications (kept so ids are not reused)
        self.gone = []        # charges that were taken out of their module, autocharges seen so far
        self.draws_used = 0

    # -- executing ops
    def _cls(self, kind):
        import eos
        return {'moduleHigh': eos.ModuleHigh, 'moduleMid': eos.ModuleMid, 'moduleLow': eos.ModuleLow,
                'drone': eos.Drone, 'fighter': eos.FighterSquad, 'booster': eos.Booster, 'implant': eos.Implant,
                'rig': eos.Rig, 'ship': eos.Ship, 'subsystem': eos.Subsystem, 'skill': eos.Skill,
                'character': eos.Character, 'stance': eos.Stance, 'beacon': eos.EffectBeacon}[KINDS[kind]]

    def _container(self, kind):
        f = self.fit
        return {0: f.modules.high, 1: f.modules.mid, 2: f.modules.low, 3: f.drones, 4: f.fighters, 5: f.boosters,
                6: f.implants, 7: f.rigs, 9: f.subsystems, 10: f.skills}[kind]

    @staticmethod
    def _set_modes(obj, ms, bulk):
        from eos.const.eos import EffectMode
        conv = {e: (EffectMode(m) if m in (1, 2, 3, 4) else m) for e, m in ms}
        if bulk or len(conv) != 1:
            obj._set_effects_modes(conv)
        else:
            (e, m), = conv.items()
            obj.set_effect_mode(e, m)

    def apply(self, op):
        """Run one op on eos; returns 'ok' or the exception class name."""
        from eos.const.eos import State
        import eos.item.booster as booster_mod
        o = op['op']
        self.spy.events = []
        try:
            if o == 'new':
                cls = self._cls(op['kind'])
                it = cls(op['type'], state=State(op['state'])) if op['kind'] in MUTABLE else cls(op['type'])
                self.items[op['id']] = it
                self.sh[op['id']] = {'kind': op['kind'], 'state': op['state'] if op['kind'] in MUTABLE else 1,
                                     'onfit': False, 'type': op['type'], 'modes': {}, 'ctype': None, 'cmodes': {}}
                return 'ok'
            if o in ('attach', 'detach'):
                if self.attached == (o == 'attach'):
                    raise Invalid(o)
                (self.ss.fits.add if o == 'attach' else self.ss.fits.remove)(self.fit)
                self.attached = o == 'attach'
                return 'ok'
            if o == 'source':
                self.ss.source = None if op['k'] is None else self.srcs[op['k']][1]
                self.source = op['k']
                return 'ok'
            if op['id'] not in self.items:
                raise Invalid(o)
            it, sh = self.items[op['id']], self.sh[op['id']]
            if (o == 'remove' and not sh['onfit']) or (o == 'modes' and op['who'] and sh['ctype'] is None) or (
                    o == 'add' and sh['onfit'] and sh['kind'] in SINGLE):
                raise Invalid(o)
            if o == 'add':
                if sh['kind'] in SINGLE:
                    setattr(self.fit, SINGLE[sh['kind']], it)
                elif sh['kind'] <= 2:
                    self._container(sh['kind']).append(it)
                else:
                    self._container(sh['kind']).add(it)
                sh['onfit'] = True
            elif o == 'remove':
                if sh['kind'] in SINGLE:
                    setattr(self.fit, SINGLE[sh['kind']], None)
                else:
                    self._container(sh['kind']).remove(it)
                sh['onfit'] = False
            elif o == 'state':
                it.state = State(op['s'])
                sh['state'] = op['s']
            elif o == 'modes':
                obj = it.charge if op['who'] else it
                self._set_modes(obj, op['ms'], op.get('bulk', False))
                tgt = sh['cmodes'] if op['who'] else sh['modes']
                for e, m in op['ms']:
                    tgt[e] = m
            elif o == 'charge':
                import eos
                new = None
                if op['type'] is not None:
                    new = eos.Charge(op['type'])
                    if op['ms']:
                        self._set_modes(new, op['ms'], True)
                if it.charge is not None:
                    self.gone.append(it.charge)
                it.charge = new
                sh['ctype'], sh['cmodes'] = op['type'], {e: m for e, m in op['ms']}
            elif o == 'setside':
                it.set_side_effect_status(op['e'], bool(op['on']))
                sh['modes'][op['e']] = int(it.get_effect_mode(op['e']))     # which mode realises it is eos' choice
            elif o == 'randomize':
                seq = list(op['draws'])
                orig = booster_mod.random
                booster_mod.random = lambda: seq.pop(0)
                try:
                    before = [(e, d.chance) for e, d in it.side_effects.items()]
                    it.randomize_side_effects()
                finally:
                    booster_mod.random = orig
                self.draws_used = len(op['draws']) - len(seq)
                for e, _ in before:
                    sh['modes'][e] = int(it.get_effect_mode(e))
            elif o == 'setability':
                from eos.const.eve import fighter_ability_map
                it.set_ability_status(op['a'], bool(op['on']))
                e = int(fighter_ability_map[op['a']])
                sh['modes'][e] = int(it.get_effect_mode(e))
            return 'ok'
        except Invalid:
            raise
        except Exception as e:  # the class name is the observation; unexpected classes disagree with the model
            return type(e).__name__

    # -- observing
    def view(self, type_id):
        """What the reachable source serves for a type id (None = item cannot be loaded)."""
        if not self.attached or self.source is None:
            return None
        return self.views[self.source].get(type_id)

    def _core_obs(self, obj):
        effs = ','.join('%d=%d:%d' % (e, int(d.mode), d.status) for e, d in obj.effects.items()) or '-'
        evs = ','.join(s + '.'.join(map(str, ids)) for o, s, ids in self.spy.events if o is obj) or '-'
        return '%s %s %s' % ('L' if obj._is_loaded else 'U', effs, evs)

    def observe(self):
        out = []
        for i, it in self.items.items():
            try:
                s = '%d %s' % (i, self._core_obs(it))
                if getattr(it, 'charge', None) is not None:
                    s += ' c ' + self._core_obs(it.charge)
                if self.sh[i]['kind'] == 5:
                    s += ' side ' + (','.join('%d=%s:%d' % (e, C.q(d.chance), d.status)
                                              for e, d in it.side_effects.items()) or '-')
                if self.sh[i]['kind'] == 4:
                    try:
                        s += ' abil ' + (','.join('%d=%d' % (a, st) for a, st in it.abilities.items()) or '-')
                    except KeyError:
                        s += ' abil KeyError'
            except Exception as e:      # a getter that raises is an observation too
                s = '%d observation raises %s' % (i, type(e).__name__)
            out.append(s)
        return out

    # -- the property, checked directly on eos
    def expected(self, sh, charge, autocharge_type=None):
        """(loaded?, {effect id: should run}) recomputed from the shadow and the universe description."""
        tid = autocharge_type if autocharge_type is not None else sh['ctype'] if charge else sh['type']
        view = self.view(tid) if sh['onfit'] else None
        if view is None:
            return False, {}
        dflt, _, effs = view
        modes = {} if autocharge_type is not None else sh['cmodes'] if charge else sh['modes']
        st = sh['state']
        onl = [x for x in effs if x[0] == ONLINE]
        online_runs = bool(onl) and spec_decide(st, modes.get(ONLINE, 1), DOC_STATE[onl[0][1]], dflt == ONLINE,
                                                onl[0][2], True, False)
        return True, {e: spec_decide(st, modes.get(e, 1), DOC_STATE[cat], dflt == e, h, e == ONLINE, online_runs)
                      for e, cat, h, _ in effs}

    def expected_status(self, op):
        """Documented rejection an op must meet in the current world (decided before it runs), else 'ok'."""
        o = op['op']
        if 'id' not in op or o == 'new':
            return 'ok'
        sh = self.sh.get(op['id'])
        if sh is None:
            return None                      # ill-formed sequence (shrinker): apply() raises Invalid
        view = self.view(sh['type']) if sh['onfit'] else None
        if o == 'add' and sh['onfit']:
            return 'ValueError'
        if o == 'state' and sh['kind'] not in MUTABLE:
            return 'AttributeError'
        if o == 'setside' and not (view and any(
                e == op['e'] and DOC_STATE[cat] == 1 and val is not None for e, cat, _, val in view[2])):
            return 'NoSuchSideEffectError'
        if o == 'setability' and not (view and op['a'] in view[1]):
            return 'NoSuchAbilityError'
        return 'ok'

    def check(self, op, status, violate):
        """Property clauses on the real objects after one op."""
        for obj, sign, ids in self.spy.events:
            if id(obj) not in self.live:
                self.keep.append(obj)
            live = self.live.setdefault(id(obj), set())
            if sign == '+':
                if live & set(ids):
                    violate('effects %s started while already running' % sorted(live & set(ids)))
                live |= set(ids)
            else:
                if set(ids) - live:
                    violate('effects %s stopped without running' % sorted(set(ids) - live))
                live -= set(ids)
        for i, it in self.items.items():
            sh = self.sh[i]
            cores = [(it, False, None), (getattr(it, 'charge', None), True, None)]
            cores += [(ac, True, ac._type_id) for ac in it.autocharges.values()]
            for obj, charge, actype in cores:
                if obj is None:
                    continue
                if actype is not None and not any(obj is g for g in self.gone):
                    self.gone.append(obj)
                who = 'item %d%s' % (i, (' autocharge' if actype is not None else ' charge') if charge else '')
                loaded, exp = self.expected(sh, charge, actype)
                if obj._is_loaded != loaded:
                    violate('%s loaded=%s, reachable type=%s' % (who, obj._is_loaded, loaded))
                    continue
                got = {e: bool(d.status) for e, d in obj.effects.items()}
                if got != exp:
                    bad = sorted(e for e in set(got) | set(exp) if got.get(e) != exp.get(e))
                    violate('%s (state %d): running status of effects %s differs from the documented decision: '
                            'got %s expected %s' % (who, sh['state'], bad, {e: got.get(e) for e in bad},
                                                    {e: exp.get(e) for e in bad}))
                if set(obj._running_effect_ids) != {e for e, r in exp.items() if r}:
                    violate('%s running set %s, decision %s' % (who, sorted(obj._running_effect_ids),
                                                                sorted(e for e, r in exp.items() if r)))
                if self.live.get(id(obj), set()) != set(obj._running_effect_ids):
                    violate('%s: start/stop notifications add up to %s, running %s' % (
                        who, sorted(self.live.get(id(obj), set())), sorted(obj._running_effect_ids)))
                modes = {} if actype is not None else sh['cmodes'] if charge else sh['modes']
                for e, d in obj.effects.items():
                    if int(d.mode) != modes.get(e, 1):
                        violate('%s effect %d reports mode %s, was set to %s' % (who, e, int(d.mode), modes.get(e, 1)))
        current = [ac for it in self.items.values() for ac in it.autocharges.values()]
        for obj in self.gone:
            if not any(obj is c for c in current) and (obj._is_loaded or obj._running_effect_ids):
                violate('a charge taken out of its item is still loaded / runs %s' % sorted(obj._running_effect_ids))
        if status != 'ok':
            return
        o = op['op']
        if o in ('setside', 'randomize'):
            it = self.items[op['id']]
            side = it.side_effects
            want = {op['e']: bool(op['on'])} if o == 'setside' else {
                e: d < c.chance for (e, c), d in zip(side.items(), op['draws'])}
            for e, on in want.items():
                if side[e].status != on or (e in it._running_effect_ids) != on:
                    violate('side effect %d after %s: reports %s, running %s, expected %s' % (
                        e, o, side[e].status, e in it._running_effect_ids, on))
            if o == 'randomize' and self.draws_used != len(side):
                violate('randomize_side_effects consumed %d draws for %d side effects' % (self.draws_used, len(side)))
        if o == 'setability':
            it = self.items[op['id']]
            from eos.const.eve import fighter_ability_map
            ab = it.abilities
            e = int(fighter_ability_map[op['a']])
            if op['a'] in ab:
                runs = bool(op['on']) and self.sh[op['id']]['state'] >= 3
                if ab[op['a']] != bool(op['on']) or (e in it._running_effect_ids) != runs:
                    violate('ability %d after set_ability_status(%s): reports %s, effect running %s (state %d)' % (
                        op['a'], bool(op['on']), ab[op['a']], e in it._running_effect_ids,
                        self.sh[op['id']]['state']))


def run_history(desc, ops, rep=None, compare=True, oracle=True):
    """Run one history on eos (and on the model when `compare`); returns the first problem or None."""
    w = ImplWorld(desc)
    lines = universe_lines(desc, w.views) + [op_line(op) for op in ops]
    model = C.run_driver('drv_effstatus', '\n'.join(lines) + '\n') if compare else None
    if compare and len(model) != len(lines):
        raise C.InfraError('driver returned %d lines for %d' % (len(model), len(lines)))
    if compare and any(m != 'ok' for m in model[:len(lines) - len(ops)]):
        raise C.InfraError('driver refused the universe: %r' % [m for m in model if m != 'ok'][:3])
    found = []
    for k, op in enumerate(ops):
        want = w.expected_status(op) if oracle else None
        status = w.apply(op)
        case = {'universe': desc, 'ops': ops[:k + 1], 'step': k, 'op': op}
        if oracle:
            try:
                w.check(op, status, lambda what: found.append(('violate', what, case)))
            except Exception as e:
                found.append(('violate', 'reading effects / side effects / abilities after %s raised %s' % (
                    op['op'], type(e).__name__), case))
            if want is not None and status != want:
                found.append(('violate', 'op %s: outcome %s, expected %s' % (op['op'], status, want), case))
        if compare:
            impl_line = '|'.join([status] + w.observe())
            mline = model[len(lines) - len(ops) + k]
            if mline != impl_line:
                found.append(('disagree', (mline, impl_line), case))
        if rep is not None:
            rep.dist['op-' + op['op']] += 1
            rep.dist['status-' + status] += 1
            rep.dist['autocharges-present'] += sum(len(it.autocharges) for it in w.items.values())
            rep.dist['charges-present'] += sum(1 for it in w.items.values() if getattr(it, 'charge', None) is not None)
            rep.dist['side-effects-enabled'] += sum(
                1 for i, it in w.items.items() if w.sh[i]['kind'] == 5 for d in it.side_effects.values() if d.status)
            sig = None
            nontrivial = [(i, it) for i, it in w.items.items() if it._is_loaded and it._type_effects]
            if nontrivial:
                i, it = nontrivial[(k * 7) % len(nontrivial)]
                if 'id' in op and op['id'] in w.items and w.items[op['id']]._is_loaded:
                    i, it = op['id'], w.items[op['id']]
                sig = (op['op'], w.sh[i]['kind'], w.sh[i]['state'],
                       tuple(sorted((DOC_STATE.get(d.effect.category_id, 0), int(d.mode), d.status)
                                    for d in it.effects.values())))
                rep.dist['loaded-items-with-effects'] += len(nontrivial)
            rep.case(sig=sig, sample={'op': op} if k == 5 else None, kind=None)
        if found:
            break
    w.ss.fits.clear()
    return found[0] if found else None


def shrink(desc, ops, kind):
    """Delete-one-op to a fixpoint while the same kind of problem is still found."""
    def cls(f):
        return re.sub(r'[0-9]+', '#', f[1] if kind == 'violate' else f[1][0].split('|')[0])[:40]

    def bad(cand):
        try:
            f = run_history(desc, cand, compare=(kind == 'disagree'), oracle=(kind == 'violate'))
        except (Invalid, C.InfraError):
            return None
        return f if f and f[0] == kind and (want is None or cls(f) == want) else None
    want = None
    best = bad(ops)
    if not best:
        return None
    want = cls(best)
    ops = best[2]['ops']
    changed = True
    while changed and len(ops) > 1:
        changed = False
        for width in (1, 2):
            for i in range(len(ops) - width, -1, -1):
                f = bad(ops[:i] + ops[i + width:])
                if f:
                    best, ops, changed = f, f[2]['ops'], True
                    break
            if changed:
                break
    return best


def histories(ctx, rep, n_worlds, n_ops, key, compare, oracle):
    rnd = ctx.sub_rnd(key)
    for _ in range(n_worlds):
        desc = make_universe(rnd)
        ops = gen_ops(rnd, desc, n_ops)
        f = run_history(desc, ops, rep, compare=compare, oracle=oracle)
        if f:
            f = shrink(desc, f[2]['ops'], f[0]) or f
            if f[0] == 'violate':
                rep.violate(f[1], f[2])
            else:
                rep.disagree('history', f[1][0], f[1][1], f[2])
            if len(rep.violations) + len(rep.disagreements) >= 3:
                return


def table_rows(rep, violate):
    """Every row of the product on the real resolver vs the specification (compiled model) and vs the
    independent Python reading; gives the concrete failing row behind a broken table theorem."""
    rows = gen_table.table()
    outs = C.run_driver('drv_effstatus', '\n'.join('row %d %d %d %d %d %d %d' % r[:7] for r in rows) + '\n')
    if len(outs) != len(rows):
        raise C.InfraError('driver returned %d lines for %d rows' % (len(outs), len(rows)))
    names = {0: 'stop', 1: 'run', 2: 'raises', 3: 'inconsistent'}
    for r, m in zip(rows, outs):
        s, mo, c, d, o, h, v, out = r
        case = {'row': dict(zip(('item_state', 'mode', 'category', 'is_default', 'online', 'has_chance',
                                 'state_override', 'outcome'), r))}
        rep.dist['table-' + names[out]] += 1
        if m == 'undocumented':
            rep.dist['table-undocumented-category'] += 1
            continue
        if m not in ('run', 'stop'):
            raise C.InfraError('driver said %r for row %r' % (m, r))
        st = v or s
        online_runs = 1 <= o <= 5 and spec_decide(st, o, 2, False, False, True, False)
        py = spec_decide(st, mo, DOC_STATE[c], bool(d), bool(h), o == 6, online_runs)
        if names[out] != m:
            if violate and py == (m == 'run'):
                if rep.dist['table-violations'] < 5:
                    rep.dist['table-violations'] += 1
                    violate('resolve_effects_status gives %s where the documented decision is %s' % (names[out], m),
                            case)
            else:
                rep.disagree('table.row', m, names[out], case)
        rep.case(sig=('row',) + r[:7], kind=None)
    return len(rows)


def correspondence(ctx):
    rep = ctx.report
    rep.rules.append(RULE)
    n = table_rows(rep, None)
    rep.exhaustive = {'decision_table_rows': n, 'complete': True}
    rep.notes.append('D14 (observation, outside the property): %d table rows of categories without a state raise '
                     'KeyError' % rep.dist['table-raises'])
    histories(ctx, rep, ctx.n(60, 2500), ctx.n(70, 100), 'corr', compare=True, oracle=False)


def oracle(ctx):
    """The property checked directly on eos: running sets recomputed from the documented rules."""
    rep = ctx.report
    table_rows(Quiet(rep), rep.violate)
    histories(ctx, rep, ctx.n(60, 2500), ctx.n(70, 100), 'oracle', compare=False, oracle=True)


class Quiet:
    """Report view that keeps violations but does not count the table rows a second time."""

    def __init__(self, rep):
        self.dist = type(rep.dist)()

    def case(self, **kw):
        pass

    def disagree(self, *a):
        pass


def search(ctx, broken):
    ctx.tier = 'thorough'
    histories(ctx, ctx.report, 400, 90, 'search', compare=False, oracle=True)


def replay(path):
    data = json.load(open(C.VERIF / path if not str(path).startswith('/') else path))
    v = data.get('violation')
    if not v:
        print(json.dumps(data, indent=1)[:3000])
        print('replay names a broken obligation; re-run ./check C05 to re-check it')
        return 0
    case = v['case']
    print('replaying:', v['what'])
    if 'row' in case:
        r = case['row']
        key = (r['item_state'], r['mode'], r['category'], r['is_default'], r['online'], r['has_chance'],
               r['state_override'])
        C.load_repo()
        out = gen_table.run_row(key)
        print('row %r -> resolver outcome %s (recorded %s)' % (key, out, r['outcome']))
        rep = C.Report()
        table_rows(Quiet(rep), rep.violate)
        return 1 if rep.violations else 0
    f = run_history(case['universe'], case['ops'], compare=True, oracle=True)
    if f:
        print('REPRODUCED:', f[0], f[1])
        return 1
    print('not reproduced')
    return 0
