"""C09 - reading values is pure."""
import random

import common as C
from harness import world as W
from harness import worldcorr as WC
from props import _worldfam as F

PID = 'C09'
GENERATORS = ['consts']
LEAN_TARGETS = ['EosProofs.Props.C09', 'EosProofs.Props.C09World']
DRIVERS = ['drv_world']
TRUSTED = F.WORLD_TRUSTED
RULE = ('each generated mutation history is executed three times on the real code: (a) with no reads at all, (b) with '
        'the generated sparse reads and random full observations, (c) with every attribute, statistic and validate() '
        'read in a fresh random order before every mutation; the final full observations (attributes, running sets, '
        'stats, validation data) must coincide, and (b) is also compared with the Lean spec at both depths. '
        'Non-trivial: history with >= 10 mutations; distinct by (parameter set, seed).'
        ' Simulator-backed values: hardener histories with no reads vs everything read before every mutation, and the read-order oracle shared with C12.')
ASSUMPTIONS = ['key enumeration of the attribute map is excluded (documented to grow with reads)',
               'RAH simulator reads: the read-order oracle shared with C12 (attrs[x] vs attrs.get(x), order, repetition, failing simulations)']
CLAUSES = {
    'a read never changes what a later read returns; reads commute; repetition is harmless': 'proved for the lazy-cache machine (read_value_independent_of_earlier_reads, read_commute) and at message level (C09World.read_stable_world, reads_stable_world, read_commute_world)',
    'reading more or fewer quantities before a mutation does not change any value after it': 'proved (reads_do_not_affect_future) and at message level: erasing every read from a legal history, or inserting / reordering / repeating reads, leaves configuration, registers and every observation unchanged (C09World.reads_erasable_world, reads_reorder_world)',
    'stats / validate reads': 'impl-level oracle (three read schedules) only',
}
LEVEL_TEXT = ('Lean theorems on the lazy-cache machine: reads only add coherent entries and never touch the '
              'configuration, so values are independent of read order, repetition and omission; tied to the code by '
              'running every history under three read schedules and against the Lean spec.')
LEVEL_NOTE = 'Same trusted base as C01; the machine abstracts the attribute cache + cap map; stats and validate reads are covered by the differential run only.'
TECHNIQUE = 'Lean 4 proof (reads are cache-filling steps of the coherent-cache machine) + differential read-schedule runs'


def _final(seed, p, ops, mode, rnd):
    _, w = WC.make_world(seed, p)
    for op in ops:
        if op[0] in ('read', 'read_all') and mode != 'sparse':
            continue
        if mode == 'dense' and op[0] not in ('read', 'read_all'):
            its = w.all_items()
            ids = w.query_attr_ids()
            pairs = [(i, a) for i in its for a in ids]
            rnd.shuffle(pairs)
            for i, a in pairs[:rnd.randint(0, len(pairs))]:
                try:
                    i.attrs.get(a)
                except ZeroDivisionError:
                    pass
            if rnd.random() < 0.5:
                W.observe_stats(w)
        w.apply(op)
    vals, run = w.observe()
    return vals, run, W.observe_stats(w)


def _schedules(ctx, rep, n):
    for pname in ('basic', 'projheavy', 'fleet', 'pymods'):
        p = F.PARAM_SETS[pname]
        base = ctx.sub_rnd('sched', pname).randrange(10 ** 9)
        for k in range(n):
            seed = base + k
            h = WC.run_history(seed, p, observe_prob=0.3)
            if h['crash']:
                continue
            ops = h['ops']
            rnd = random.Random(seed)
            try:
                res = {m: _final(seed, p, ops, m, rnd) for m in ('none', 'sparse', 'dense')}
            except Exception as e:
                rep.violate('read schedule run raised %s' % type(e).__name__, F.case_of(seed, pname, ops))
                continue
            muts = [o for o in ops if o[0] not in ('read', 'read_all')]
            rep.case(sig=('sched', pname, seed) if len(muts) >= 10 else None, kind='schedules-' + pname,
                     sample=F.case_of(seed, pname, ops[:10]) if k == 0 else None)
            a = res['none']
            for m in ('sparse', 'dense'):
                b = res[m]
                diff = F.equal_obs(a[0], b[0])
                sdiff = [k2 for k2 in a[2] if not W.flat_equal(a[2][k2], b[2].get(k2))]
                if diff or a[1] != b[1] or sdiff:
                    rep.violate('values after the history depend on what was read on the way (%s reads vs none): %r %r'
                                % (m, diff[:2], sdiff[:2]), dict(F.case_of(seed, pname, ops), schedule=m))
                    break


def correspondence(ctx):
    rep = ctx.report
    rep.rules.append(RULE)
    F.histories(ctx, rep, ['basic', 'projheavy'], ctx.n(40, 600), 'corr')


def _rah_schedules(rep, hists):
    """Hardener histories under two read schedules: no reads at all / everything read before every mutation."""
    from props import c12

    def read_all(im):
        out = {}
        for i in range(len(im.mods)):
            for t in c12.T:
                try:
                    out[('rah', i, t)] = im.mods[i].attrs[im.u.res[t]]
                except KeyError:
                    out[('rah', i, t)] = 'KeyError'
        sh = im.fit.ship
        if sh is not None:
            for t in c12.T:
                try:
                    out[('ship', t)] = sh.attrs[im.u.res[t]]
                except KeyError:
                    out[('ship', t)] = 'KeyError'
            # an attribute of the ship the simulator has nothing to do with (it travels in the same change messages)
            out[('ship', 'misc')] = sh.attrs.get(im.u.misc, 'KeyError')
        return out
    for h in hists:
        ops = [op for op in h['ops'] if op['op'] != 'obs']
        finals = []
        try:
            for dense in (False, True):
                im = c12.Impl(h['pen'])
                with c12.rah_log():
                    for op in ops:
                        if dense:
                            read_all(im)
                        im.apply(op)
                    finals.append(read_all(im))
        except Exception as e:
            rep.violate('hardener history raised %s' % type(e).__name__, {'history': dict(h, ops=ops)})
            continue
        rep.case(kind='oracle-rah-schedules', sig=('rah-sched', repr(ops)) if len(ops) >= 4 else None)
        bad = [k for k in finals[0] if not c12.W_same(finals[0][k], finals[1].get(k))]
        if bad:
            rep.violate('hardener values after the history depend on what was read on the way (none vs dense): %r'
                        % ([(k, finals[0][k], finals[1].get(k)) for k in bad[:3]],), {'history': dict(h, ops=ops)})


def oracle(ctx):
    _schedules(ctx, ctx.report, ctx.n(25, 500))
    from props import c12 as _c12
    _r = ctx.sub_rnd('rah-schedules')
    hists = [_c12.gen_history(_r) for _ in range(ctx.n(60, 800))]
    # ... and histories that end with one change touching two inputs of the simulation at once (one message batch)
    for _ in range(ctx.n(70, 600)):
        h = _c12.gen_history(_r, length=_r.randint(2, 5))
        for kind in _r.sample(['rahres+cyc', 'misc+shift', 'rahres', 'cyc'], 2):
            h['ops'].append({'op': 'imp', 'k': kind, 'v': _r.choice(_c12.MULT[kind.split(':')[0]])})
        hists.append(h)
    # designed: default (uniform) damage profile, where the adaptation depends on the shift amount
    ok = {'op': 'add', 'v': [0.85, 0.85, 0.85, 0.85], 'shift': 6, 'cyc': 10000, 'state': 3}
    for extra in ([], [dict(ok, cyc=7000)]):
        for kind, val in (('misc+shift', 2.0), ('rahres+cyc', 0.9375), ('shift', 1.5)):
            hists.append({'pen': False, 'dyadic': True, 'ops': [{'op': 'ship', 'v': [0.5, 0.65, 0.75, 0.9]}, dict(ok)] + extra +
                          [{'op': 'imp', 'k': kind, 'v': val}]})
    _rah_schedules(ctx.report, hists)
    # simulator-backed values (reactive armor hardener): the read-order oracle of C12 on its histories
    from props import c12
    rnd = ctx.sub_rnd('rah-read-orders')
    c12.read_orders(ctx.report, rnd, c12.malformed_histories() + [c12.gen_history(rnd) for _ in range(ctx.n(40, 500))])


def search(ctx, broken):
    _schedules(ctx, ctx.report, 200)


def replay(path):
    return F.generic_replay(PID, path)
