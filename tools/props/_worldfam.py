"""Shared correspondence / oracle routines of the world-model properties
(C01, C02, C08, C09, C10, C11, C13, C14)."""
import json
import random

import common as C
from harness import world as W
from harness import worldcorr as WC

WORLD_TRUSTED = [
    'world spec model (lean/EosModel/World.lean) covers: all item kinds, states, effect modes, the five affectee '
    'filters x domains, charges (domain other), caps, two-digit rounding, skill-level override, projected modifiers '
    'with resistance, fleet boosts from buff templates, source switching; NOT modelled: python modifiers '
    '(propulsion / RAH / AAR / missile-damage customisations), autocharges — those effect ids are kept out of the '
    'generated universes',
]

PARAM_SETS = {
    'basic': dict(nsteps=30, nfits=2, nuni=2),
    'three-fits-decimal': dict(nsteps=40, nfits=3, nuni=2, dyadic=False),
    'fleet': dict(nsteps=35, nfits=3, nuni=1, fleet=True, switch=False),
    'fleetheavy': dict(nsteps=40, nfits=3, nuni=1, fleet=True, switch=False, prefill=True, fleet_bias=True,
                       level_weight=8, fleet_weight=8),
    'long': dict(nsteps=70, nfits=2, nuni=2, malformed=0.15),
    'noswitch-projected': dict(nsteps=40, nfits=3, nuni=1, switch=False, neff=11),
    'pymods': dict(nsteps=45, nfits=2, nuni=2, pymods=True, nattr=8, prefill=True),      # impl-level oracles only
    'projheavy': dict(nsteps=45, nfits=3, nuni=1, switch=False, neff=12, proj_bias=True, prefill=True, nattr=7),
}


def case_of(seed, pname, ops):
    return {'world_seed': seed, 'params': pname, 'ops': [list(o) for o in ops]}


def ops_of(case):
    def tup(x):
        return tuple(tup(y) for y in x) if isinstance(x, list) else x
    return [tup(o) for o in case['ops']]


def histories(ctx, rep, pnames, n, label, want=('L1', 'L2'), on_history=None, promote_l1=False):
    """Run n generated histories per parameter set against the Lean spec."""
    for pname in pnames:
        p = PARAM_SETS[pname]
        base = ctx.sub_rnd(label, pname).randrange(10 ** 9)
        for k in range(n[pname] if isinstance(n, dict) else n):
            seed = base + k
            h, dis = WC.check_history(seed, p)
            sig = None
            if h['steps']:
                last = h['steps'][-1]
                sig = (pname, seed) if len(last['cache']) > 3 else None
            rep.case(sig=sig, sample=case_of(seed, pname, h['ops'][:12]) if k == 0 else None, kind='hist-' + pname)
            rep.dist['steps'] += len(h['steps'])
            rep.fragile += len(h.get('fragile_steps', []))
            for s in h['steps']:
                rep.dist['op_' + s['op'][0]] += 1
                if s['outcome'] != 'ok':
                    rep.dist['outcome_' + s['outcome']] += 1
            if h['crash'] is None:
                try:
                    W.coverage(h['world'], rep.dist)
                except Exception:
                    pass
            if on_history is not None:
                on_history(seed, pname, p, h)
            dis = [d for d in dis if d['where'].split(':')[0] in want]
            if dis:
                d = dis[0]

                def fails(ops, where=d['where']):
                    h2, d2 = WC.check_history(seed, p, ops)
                    return any(x['where'] == where for x in d2)
                ops = WC.shrink(seed, p, h['ops'], fails)
                h2, d2 = WC.check_history(seed, p, ops)
                d2 = [x for x in d2 if x['where'] == d['where']] or [d]
                case = dict(case_of(seed, pname, ops), key=d2[0]['key'], step=d2[0]['step'])
                rep.disagree(d['where'], d2[0]['model'], d2[0]['impl'], case)
                # is the disagreeing (shrunk) history a failure of the property on the real code alone?
                try:
                    why = replay_mirror(seed, p, ops)
                except Exception as e:
                    why = 'mirror replay raised %s' % type(e).__name__
                if why:
                    rep.violate('history on which the Lean spec and the real code disagree also fails the '
                                'from-scratch oracle: ' + why, dict(case, oracle='mirror', model=str(d2[0]['model']),
                                                                     impl=str(d2[0]['impl'])))
                elif promote_l1 and d['where'].startswith('L1:'):
                    # properties that are stated against the rules themselves (C02, C13): a public value that
                    # differs from the specified one on a concrete history is a failing input
                    rep.violate('public observation %s of %r is %r, the specified value is %r'
                                % (d['where'], d2[0]['key'], d2[0]['impl'], str(d2[0]['model'])),
                                dict(case, oracle='lean-spec'))


def final_obs(h):
    """(values, running) of the last step that carries a full observation."""
    for s in reversed(h['steps']):
        if 'obs' in s:
            return s['obs']
    return None


def equal_obs(a, b):
    """Compare two impl observations {key: value}; returns list of differing keys."""
    bad = []
    for k in set(a) | set(b):
        x, y = a.get(k, 'missing'), b.get(k, 'missing')
        if isinstance(x, str) or isinstance(y, str):
            if x != y:
                bad.append((k, x, y))
        elif not C.close(x, y):
            bad.append((k, x, y))
    return bad


def mirror_oracle(ctx, rep, pnames, n, label, every=7):
    """Impl-level from-scratch oracle: at sampled points of a history rebuild the public configuration in a
    fresh solar system and compare every attribute value and running set (no Lean involved)."""
    for pname in pnames:
        p = PARAM_SETS[pname]
        base = ctx.sub_rnd(label, pname).randrange(10 ** 9)
        for k in range(n):
            seed = base + k
            rnd, w = WC.make_world(seed, p)
            gen = W.OpGen(rnd, p)
            done = []
            bad = None
            while len(done) < p['nsteps'] and bad is None:
                for op in gen.next(w):
                    try:
                        w.apply(op)
                    except Exception as e:
                        bad = ('undocumented exception %s: %s' % (type(e).__name__, str(e)[:100]), None)
                        done.append(op)
                        break
                    done.append(op)
                    if len(done) % every == 0 or len(done) >= p['nsteps']:
                        try:
                            n2, _ = W.rebuild(w)
                            va, ra = w.observe()
                            vb, rb = n2.observe()
                        except ZeroDivisionError:
                            continue
                        diff = equal_obs(va, vb)
                        if diff or ra != rb:
                            bad = ('incremental world differs from from-scratch rebuild', (diff[:3], ))
                            break
            rep.case(kind='mirror-' + pname, sig=('mirror', pname, seed) if len(done) > 5 else None)
            if bad:
                def fails(ops):
                    return replay_mirror(seed, p, ops) is not None
                try:
                    ops = WC.shrink(seed, p, done, fails)
                except Exception:
                    ops = done
                rep.violate(bad[0], dict(case_of(seed, pname, ops), detail=bad[1], oracle='mirror'))


def replay_mirror(seed, p, ops):
    rnd, w = WC.make_world(seed, p)
    for op in ops:
        try:
            w.apply(op)
        except Exception as e:
            return 'undocumented exception %s' % type(e).__name__
    try:
        n2, _ = W.rebuild(w)
        va, ra = w.observe()
        vb, rb = n2.observe()
    except ZeroDivisionError:
        return None
    diff = equal_obs(va, vb)
    if diff or ra != rb:
        return 'incremental world differs from rebuild: %r' % (diff[:3],)
    return None


# ------------------------------------------------------------------ K1 witnesses (known finding)
def k1_witnesses():
    """Replay the two minimal K1 witnesses on the real code. Returns list of (name, observed, expected)."""
    from eos import Fit, ModuleHigh, Ship, SolarSystem, State, Fleet
    from eos.const.eos import ModAffecteeFilter, ModAggregateMode, ModDomain, ModOperator
    from eos.const.eve import AttrId, EffectCategoryId, EffectId
    from eos.eve_obj.buff_template import WarfareBuffTemplate
    from eos.eve_obj.modifier import DogmaModifier
    from harness import mem
    out = []
    # target-then-ship
    ch = mem.MemCache()
    a = ch.mkattr()
    mod = DogmaModifier(affectee_filter=ModAffecteeFilter.item, affectee_domain=ModDomain.target,
                        affectee_attr_id=a.id, operator=ModOperator.post_percent,
                        aggregate_mode=ModAggregateMode.stack, affector_attr_id=a.id)
    e = ch.mkeffect(category_id=EffectCategoryId.target, modifiers=(mod,))
    modt = ch.mktype(attrs={a.id: 10}, effects=[e], default_effect=e)
    shipt = ch.mktype(attrs={a.id: 100})
    vals = []
    for order in ('ship-then-target', 'target-then-ship'):
        ss = SolarSystem(source=mem.source(ch))
        f, g = Fit(solar_system=ss), Fit(solar_system=ss)
        m = ModuleHigh(modt.id, state=State.active)
        f.modules.high.append(m)
        s = Ship(shipt.id)
        if order == 'ship-then-target':
            g.ship = s
            m.target = s
        else:
            m.target = s
            g.ship = s
        vals.append(s.attrs[a.id])
    out.append(('target-then-ship', vals[1], vals[0]))
    # boost-then-ship
    vals = []
    for order in ('ship-then-boost', 'boost-then-ship'):
        ch = mem.MemCache()
        a = ch.mkattr()
        ch.mkattr(attr_id=AttrId.warfare_buff_1_id)
        ch.mkattr(attr_id=AttrId.warfare_buff_1_value)
        ch.buffs[7] = {WarfareBuffTemplate(buff_id=7, affectee_filter=ModAffecteeFilter.item,
                                           affectee_attr_id=a.id, operator=ModOperator.post_percent,
                                           aggregate_mode=ModAggregateMode.maximum)}
        e = ch.mkeffect(effect_id=EffectId.module_bonus_warfare_link_armor, category_id=EffectCategoryId.active)
        modt = ch.mktype(attrs={AttrId.warfare_buff_1_id: 7, AttrId.warfare_buff_1_value: 50}, effects=[e],
                         default_effect=e)
        shipt = ch.mktype(attrs={a.id: 100})
        ss = SolarSystem(source=mem.source(ch))
        f, g = Fit(solar_system=ss), Fit(solar_system=ss)
        fl = Fleet()
        fl.fits.add(f)
        fl.fits.add(g)
        m = ModuleHigh(modt.id, state=State.active)
        s = Ship(shipt.id)
        if order == 'ship-then-boost':
            g.ship = s
            f.modules.high.append(m)
        else:
            f.modules.high.append(m)
            g.ship = s
        vals.append(s.attrs[a.id])
    out.append(('boost-then-ship', vals[1], vals[0]))
    return out


def report_k1(rep):
    for name, got, want in k1_witnesses():
        if not C.close(got, want):
            rep.violate('K1 witness %s: %r instead of %r' % (name, got, want), {'witness': name}, cls='K1')
        rep.case(kind='k1-witness')


def generic_replay(pid, path, extra=None):
    p = C.VERIF / path if not str(path).startswith('/') else path
    data = json.load(open(p))
    v = data.get('violation') or (data.get('broken') or [{}])[0].get('detail')
    print(json.dumps(data, indent=1)[:3000])
    case = (v or {}).get('case') if isinstance(v, dict) else None
    if not isinstance(case, dict) or 'ops' not in case:
        print('nothing replayable in this file (broken obligation without input); re-run ./check %s' % pid)
        return 0
    pr = PARAM_SETS[case['params']]
    ops = ops_of(case)
    h, dis = WC.check_history(case['world_seed'], pr, ops)
    m = replay_mirror(case['world_seed'], pr, ops)
    for d in dis[:5]:
        print('MODEL-vs-IMPL:', d)
    print('crash:', h['crash'])
    print('mirror oracle:', m)
    return 1 if (dis or h['crash'] or m) else 0
