"""C08 - results do not depend on notification order or hash iteration order."""
import itertools
import random

import common as C
from harness import schedule as S
from harness import world as W
from harness import worldcorr as WC
from props import _worldfam as F

PID = 'C08'
GENERATORS = ['consts']
LEAN_TARGETS = ['EosProofs.Props.C08', 'EosProofs.Props.C08World']
DRIVERS = ['drv_world']
TRUSTED = F.WORLD_TRUSTED + [
    'harness-side instrumentation (tools/harness/schedule.py): the subscriber table of each fit is wrapped so that '
    'the publish loops receive the subscribers in a harness-chosen order; items, fits, effects and modifiers get a '
    'salted serial hash so set iteration order is a replayable function of the salt (no change to /repo)']
RULE = ('each generated history is executed on the real code under: the unmodified interpreter order (baseline); all 24 '
        'orders of the subscriber groups {calculator, simulator, stat registers, restriction registers}; N random '
        'per-message delivery permutations; M hash salts (with random delivery). After every history the full '
        'observation (all attribute values, running sets, statistics, validation data, exception classes of every op) '
        'must equal the baseline up to float noise; the baseline itself is compared with the Lean spec (order-free by '
        'construction). Non-trivial: (history, schedule) pairs where the history has >= 10 ops; distinct by '
        '(seed, schedule).'
        ' Also: the same delivery-order / hash-salt schedules on reactive-armor-hardener histories, restriction worlds and statistics worlds (recorded operations replayed under every schedule), a designed two-group hardener world (one change message naming a relevant and an irrelevant hardener) and designed resource worlds (cpu users summing exactly to the output; a module whose cpu use comes from its own modifier started together with `online`) under all 24 group orders and 12 salts.')
ASSUMPTIONS = ['float summation order noise tolerated (1e-9 relative)',
               'the RAH simulator subscribes like the other services and is permuted with them; universes with running '
               'reactive armor hardeners are exercised in C12']
CLAUSES = {
    'independent of the order in which a fit notifies its services': 'machine level: obs_schedule_independent (any two legal removal-set choices along the same configuration trace observe the same); impl: all 24 group orders + random per-message permutations',
    'independent of memory-address-dependent iteration order of internal sets': 'gather_order_irrelevant (= C02.calculate_perm: any permutation of the gathered modifications gives the same value) + machine level as above; message level / specification (C08World): the from-scratch table does not depend on the order of the item list, of a type\'s effect list or of an effect\'s modifier list (iteration_order_irrelevant_world), observations of legal histories agree under permuted item lists (obs_item_order_irrelevant_world, obs_item_order_any_state_world), the cache after a cascade depends only on the members of the direct invalidation list and of the reverse-dependency lists (cascade_order_irrelevant_world); impl: salted hashes',
    'running the same program twice gives the same values': 'follows; checked (baseline run twice)',
}
LEVEL_TEXT = ('Lean: order of removals/reads is irrelevant at machine level (same configuration trace => same observations) '
              'and the calculation is permutation-invariant; tie: the real code is run under imposed delivery orders and '
              'hash salts and must reproduce the baseline observation, which is itself checked against the Lean spec.')
LEVEL_NOTE = 'Instrumentation is installed from outside at run time; a change to the broker that defeats it makes the check exit 2 (infrastructure), never a verdict.'
TECHNIQUE = 'Lean 4 proof (schedule-independent observations, permutation-invariant calculation) + schedule/hash-salt differential runs'


def _run(seed, p, ops, policy=None, salt=None):
    """Execute ops under a delivery policy / hash salt. Returns (outcomes, vals, run, stats)."""
    def body():
        _, w = WC.make_world(seed, p)
        outs = []
        for op in ops:
            if policy is not None:
                for f in w.fits.values():
                    if not isinstance(getattr(f, '_FitMsgBroker__subscribers'), S.PermDict):
                        S.install(f, policy)
            try:
                outs.append(w.apply(op))
            except Exception as e:
                outs.append('raises:' + type(e).__name__)
            if policy is not None:
                for f in w.fits.values():
                    if not isinstance(getattr(f, '_FitMsgBroker__subscribers'), S.PermDict):
                        S.install(f, policy)
        vals, run = w.observe()
        return outs, vals, run, W.observe_stats(w)
    if salt is None:
        return body()
    with S.salted_hashes(salt):
        return body()


def _same(a, b):
    if a[0] != b[0]:
        return 'exception classes differ: %r vs %r' % ([x for x in zip(a[0], b[0]) if x[0] != x[1]][:2],)
    d = F.equal_obs(a[1], b[1])
    if d:
        return 'attribute values differ: %r' % (d[:2],)
    if a[2] != b[2]:
        return 'running sets differ'
    sd = [k for k in a[3] if not W.flat_equal(a[3][k], b[3].get(k))]
    if sd:
        return 'stats/validation differ: %r' % [(k, a[3][k], b[3].get(k)) for k in sd[:2]]
    return None


def _schedules(ctx, rep, n, nperm, nsalt, pnames=('basic', 'projheavy', 'fleet', 'pymods')):
    for pname in pnames:
        p = dict(F.PARAM_SETS[pname], nsteps=25)
        base = ctx.sub_rnd('sched', pname).randrange(10 ** 9)
        for k in range(n):
            seed = base + k
            h = WC.run_history(seed, p, observe_prob=0.2)
            ops = h['ops']
            try:
                ref = _run(seed, p, ops)
                again = _run(seed, p, ops)
            except Exception as e:
                raise C.InfraError('baseline run failed: %s %s' % (type(e).__name__, e))
            why = _same(ref, again)
            if why:
                rep.violate('running the same program twice differs: ' + why, F.case_of(seed, pname, ops))
                continue
            variants = [('groups:' + '>'.join(o), S.group_policy(o), None) for o in itertools.permutations(S.GROUPS)]
            variants += [('random:%d' % i, S.random_policy('%d/%d' % (seed, i)), None) for i in range(nperm)]
            variants += [('salt:%d' % i, S.random_policy('%d/s%d' % (seed, i)), i + 1) for i in range(nsalt)]
            for name, pol, salt in variants:
                try:
                    got = _run(seed, p, ops, pol, salt)
                except C.InfraError:
                    raise
                why = _same(ref, got)
                rep.case(sig=(seed, pname, name) if len(ops) >= 10 else None, kind='schedule-' + name.split(':')[0],
                         sample=dict(F.case_of(seed, pname, ops[:8]), schedule=name) if k == 0 and name.endswith(':0') else None)
                if why:
                    rep.violate('observation depends on delivery/hash order (%s): %s' % (name, why),
                                dict(F.case_of(seed, pname, ops), schedule=name))
                    break


def _variants(tag, nperm, nsalt):
    v = [('groups:' + '>'.join(o), S.group_policy(o), None) for o in list(itertools.permutations(S.GROUPS))[::5]]
    v += [('random:%d' % i, S.random_policy('%s/%d' % (tag, i)), None) for i in range(nperm)]
    v += [('salt:%d' % i, S.random_policy('%s/s%d' % (tag, i)), i + 1) for i in range(nsalt)]
    return v


def _under(pol, salt, body):
    if salt is None:
        return body(pol)
    with S.salted_hashes(salt):
        return body(pol)


def _schedules_other(ctx, rep, n, nperm, nsalt):
    """The same delivery-order / hash-salt schedules on the worlds of the other services: reactive armor hardener
    histories (simulator output), restriction worlds (validation data) and statistics worlds (statistics)."""
    from harness import stats_world as SW
    from props import c03, c04, c12
    rnd = ctx.sub_rnd('sched-other')

    def rah_body(h):
        ops = [op for op in h['ops'] if op['op'] != 'obs']

        def body(pol):
            im = c12.Impl(h['pen'])
            if pol is not None:
                S.install(im.fit, pol)
            out = {}
            with c12.rah_log():
                for k, op in enumerate(ops):
                    im.apply(op)
                    if k % 2:
                        for i in range(len(im.mods)):
                            out[('mid', k, i)] = [im.mods[i].attrs.get(im.u.res[t]) for t in c12.T] + [
                                im.mods[i].attrs.get(im.u.misc)]
                sh = im.fit.ship
                # the ship first (before any hardener attribute is read), then the hardeners, then the ship again
                out['ship-first'] = None if sh is None else [sh.attrs.get(im.u.res[t]) for t in c12.T]
                for i in range(len(im.mods)):
                    out[('rah', i)] = [im.mods[i].attrs.get(im.u.res[t]) for t in c12.T]
                out['ship'] = None if sh is None else [sh.attrs.get(im.u.res[t]) for t in c12.T]
                out['ehp'] = SW._guard(lambda: list(im.fit.stats.get_ehp(None))[:3])
            return out
        return body

    def restr_body(useed, hseed):
        groups = []
        for _w, _done, step_ops, _errs in c03.run_history(useed, hseed, 16):
            groups.append(step_ops)

        def body(pol):
            w = None
            for w, _done, _ops, _errs in c03.run_history(useed, hseed, 16, ops=groups):
                if pol is not None and not isinstance(getattr(w.fit, '_FitMsgBroker__subscribers'), S.PermDict):
                    S.install(w.fit, pol)
            st = w.fit.stats
            return {'validate': w.validate(),
                    'use': [SW._guard(lambda r=r: (r.used, r.output)) for r in (st.cpu, st.powergrid, st.calibration,
                                                                                 st.dronebay, st.drone_bandwidth)]}
        return body

    def stats_body(seed):
        rec = []
        c04.run_history(seed, C.random.Random('C08-stats/%s' % (seed,)), 22, lambda w, s, ops, op, out: rec.append(op))

        def body(pol):
            w = SW.World(seed)
            for op in rec:
                if pol is not None:
                    for f in (w.fit, w.fit2):
                        if not isinstance(getattr(f, '_FitMsgBroker__subscribers'), S.PermDict):
                            S.install(f, pol)
                w.apply(op)
            out = {q: SW.observe(w, q) for q in (('use',), ('slots',), ('hp',), ('resists',), ('wc',), ('ehp', None))}
            out['validate'] = SW._guard(lambda: _flat_validate(w))
            return out
        return body
    jobs = []
    # designed: two hardeners of different groups, results stored, then one implant whose single change message names
    # both - a relevant change (shift amount) for one and an irrelevant one for the other
    ok = {'v': [0.85, 0.85, 0.85, 0.85], 'shift': 6, 'cyc': 10000, 'state': 3}
    for first in (901, 902):
        designed = {'pen': False, 'ops': [
            {'op': 'ship', 'v': [0.5, 0.65, 0.75, 0.9]}, dict(ok, op='add', g=first),
            dict(ok, op='add', g=901 + 902 - first), {'op': 'defp', 'p': [25, 25, 25, 25]},
            {'op': 'imp', 'k': 'ship:em', 'v': 0.875}, {'op': 'imp', 'k': 'ship:em', 'v': None},
            {'op': 'imp', 'k': 'g1shift+g2misc', 'v': 2.0}]}
        jobs.append(('rah-designed', first, rah_body(designed)))
    # designed: the hardeners are fitted before the ship arrives (the ship's load message reaches simulator and calculator)
    jobs.append(('rah-designed', 'ship-last', rah_body({'pen': False, 'ops': [dict(ok, op='add'), dict(ok, op='add', cyc=7000),
                                                                          {'op': 'ship', 'v': [0.5, 0.65, 0.75, 0.9]}]})))
    for k in range(n):
        jobs.append(('rah', k, rah_body(c12.gen_history(rnd))))
        jobs.append(('restr', k, restr_body(rnd.randrange(10 ** 9), k)))
        jobs.append(('stats', k, stats_body('sched/%d' % rnd.randrange(10 ** 9))))
    for kind, k, body in jobs:
        try:
            ref = body(None)
            again = body(None)
        except Exception as e:
            raise C.InfraError('baseline %s run failed: %s %s' % (kind, type(e).__name__, e))
        if not W.flat_equal(_flat(ref), _flat(again)):
            rep.violate('running the same %s program twice differs' % kind, {'world': kind, 'k': k})
            continue
        for name, pol, salt in _variants('%s/%s' % (kind, k), nperm, nsalt):
            got = _under(pol, salt, body)
            rep.case(sig=(kind, k, name), kind='schedule-%s-%s' % (kind, name.split(':')[0]))
            bad = [key for key in ref if not W.flat_equal(_flat(ref[key]), _flat(got.get(key)))]
            if bad:
                rep.violate('%s world: observation depends on delivery/hash order (%s): %r' % (
                    kind, name, [(key, ref[key], got.get(key)) for key in bad[:2]]),
                    {'world': kind, 'k': k, 'schedule': name, 'seed': ctx.seed})
                break


def _designed_resources(rep):
    """Designed resource worlds under every order of the subscriber groups and several hash salts: (a) three cpu users
    whose decimal sum equals the ship's output exactly (summation order must not flip the verdict); (b) a module whose
    type has cpu 0 and gets its use from its own modifier that starts in the same message as `online` (a register must
    not look at calculated values while the message is being delivered)."""
    from eos import Fit, ModuleHigh, Ship, SolarSystem, State
    from eos.const.eos import ModAffecteeFilter, ModAggregateMode, ModDomain, ModOperator
    from eos.const.eve import AttrId, EffectCategoryId, EffectId
    from eos.eve_obj.modifier import DogmaModifier
    from eos.restriction.exception import ValidationError
    from harness import mem
    ch = mem.MemCache()
    for a in (AttrId.cpu, AttrId.cpu_output):
        ch.mkattr(attr_id=a, stackable=True)
    b = ch.mkattr(stackable=True)
    online = ch.mkeffect(effect_id=EffectId.online, category_id=EffectCategoryId.online)
    own = ch.mkeffect(category_id=EffectCategoryId.online, modifiers=(DogmaModifier(
        affectee_filter=ModAffecteeFilter.item, affectee_domain=ModDomain.self, affectee_attr_id=AttrId.cpu,
        operator=ModOperator.mod_add, aggregate_mode=ModAggregateMode.stack, affector_attr_id=b.id),))
    ship_t = ch.mktype(attrs={AttrId.cpu_output: 57.4})
    users = [ch.mktype(attrs={AttrId.cpu: v}, effects=[online]) for v in (30.3, 20.9, 6.2)]
    zero_t = ch.mktype(attrs={AttrId.cpu: 0, b.id: 15}, effects=[online, own])
    small_ship = ch.mktype(attrs={AttrId.cpu_output: 10})

    def world(kind):
        def body(pol):
            fit = Fit(solar_system=SolarSystem(source=mem.source(ch)))
            if pol is not None:
                S.install(fit, pol)
            fit.ship = Ship((ship_t if kind == 'sum' else small_ship).id)
            mods = [ModuleHigh(t.id, state=State.offline) for t in (users if kind == 'sum' else [zero_t])]
            for m in mods:
                fit.modules.high.append(m)
            for m in mods:
                m.state = State.online
            try:
                fit.validate()
                verdict = 'pass'
            except ValidationError as e:
                verdict = sorted(sorted(int(r) for r in d) for d in e.data.values())
            return {'used': fit.stats.cpu.used, 'output': fit.stats.cpu.output, 'validate': verdict}
        return body
    for kind in ('sum', 'own-modifier'):
        body = world(kind)
        ref = body(None)
        variants = [('groups:' + '>'.join(o), S.group_policy(o), None) for o in itertools.permutations(S.GROUPS)]
        variants += [('salt:%d' % i, S.random_policy('res/%s/%d' % (kind, i)), i + 1) for i in range(12)]
        for name, pol, salt in variants:
            got = _under(pol, salt, body)
            rep.case(sig=('designed-resource', kind, name), kind='schedule-designed-resource')
            if not W.flat_equal(_flat(ref), _flat(got)):
                rep.violate('designed resource world (%s): observation depends on delivery/hash order (%s): %r vs %r'
                            % (kind, name, ref, got), {'designed': kind, 'schedule': name})
                break


def _flat_validate(w):
    from eos.restriction.exception import ValidationError
    try:
        w.fit.validate()
        return 'pass'
    except ValidationError as e:
        return sorted((w.any_id(i), sorted(int(r) for r in d)) for i, d in e.data.items())


def _flat(x):
    if isinstance(x, dict):
        return tuple((repr(k), _flat(v)) for k, v in sorted(x.items(), key=lambda kv: repr(kv[0])))
    if isinstance(x, (list, tuple, set, frozenset)):
        seq = sorted(x, key=repr) if isinstance(x, (set, frozenset)) else x
        return tuple(_flat(v) for v in seq)
    return x


def correspondence(ctx):
    rep = ctx.report
    rep.rules.append(RULE)
    F.histories(ctx, rep, ['basic', 'fleet'], ctx.n(20, 300), 'corr')


def _gather_orders(ctx, rep, n):
    """Set iteration order decides the order in which `get_modifications` yields the gathered modifications:
    feed the real calculation the same multiset in several orders (ties inside aggregate groups, penalised and
    immune sources mixed)."""
    from harness import calcdirect as CD
    rnd = ctx.sub_rnd('gather-order')
    # corpus: minimised past failures run first (D22: an exact two-digit rounding tie, -11.475)
    corpus = [{'base': 10, 'cap': None, 'hig': 1, 'limited': 1, 'stackable': 0,
               'mods': [(9, 50, 1, 1, None, False), (5, 0.1, 1, 1, None, False), (1, 100, 0.3, 2, 1, True),
                        (4, 50, 0.3, 1, None, True), (5, 50, 1, 1, None, False), (9, 50, 1, 1, None, True)]}]
    for k in range(n + len(corpus)):
        case = corpus[k] if k < len(corpus) else CD.gen_case(rnd, rnd.random() < 0.5)
        ref = CD.run_case(case)
        rep.case(kind='gather-order', sig=('gather', repr(case)) if len(case['mods']) >= 2 else None)
        for _k in range(12 if k < len(corpus) else 3):
            c2 = dict(case, mods=list(case['mods']))
            rnd.shuffle(c2['mods'])
            got = CD.run_case(c2)
            same = (ref == got) if isinstance(ref, str) or isinstance(got, str) else C.close(ref, got)
            if not same:
                rep.violate('calculated value depends on the order in which modifications are gathered: %r vs %r'
                            % (ref, got), {'a': case, 'b': c2})
                break


def oracle(ctx):
    _schedules(ctx, ctx.report, ctx.n(6, 120), ctx.n(6, 20), ctx.n(6, 32))
    _gather_orders(ctx, ctx.report, ctx.n(1500, 30000))
    _schedules_other(ctx, ctx.report, ctx.n(6, 80), ctx.n(2, 6), ctx.n(3, 10))
    _designed_resources(ctx.report)
    ctx.report.dist['deliveries_with_imposed_order'] = S.CALLS['get']
    ctx.report.dist['salted_hash_calls'] = S.CALLS['hash']
    if S.CALLS['get'] == 0 or S.CALLS['hash'] == 0:
        raise C.InfraError('instrumentation never fired (broker / hash hooks defeated)')


def search(ctx, broken):
    _schedules(ctx, ctx.report, 40, 10, 10)


def replay(path):
    import json
    data = json.load(open(C.VERIF / path if not str(path).startswith('/') else path))
    case = (data.get('violation') or {}).get('case') or {}
    if 'ops' in case and 'world_seed' in case:
        return F.generic_replay(PID, path)
    # designed worlds and the hardener / restriction / statistics schedules are functions of the run's seed
    ctx = C.Ctx(PID, data.get('tier', 'quick'), data.get('seed', 0))
    if 'designed' in case:
        _designed_resources(ctx.report)
    elif 'a' in case and 'b' in case:
        _gather_orders(ctx, ctx.report, ctx.n(1500, 30000))
    else:
        _schedules_other(ctx, ctx.report, ctx.n(6, 80), ctx.n(2, 6), ctx.n(3, 10))
    for x in ctx.report.violations[:3]:
        print('REPRODUCED:', x['what'][:400])
    return 1 if ctx.report.violations else 0
