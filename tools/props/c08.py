"""C08 - results do not depend on notification order or hash iteration order."""
import itertools
import random

import common as C
from harness import schedule as S
from harness import world as W
from harness import worldcorr as WC
from props import _worldfam as F

PID = 'C08'
GENERATORS = ['consts']
LEAN_TARGETS = ['EosProofs.Props.C08']
DRIVERS = ['drv_world']
TRUSTED = F.WORLD_TRUSTED + [
    'harness-side instrumentation (tools/harness/schedule.py): the subscriber table of each fit is wrapped so that '
    'the publish loops receive the subscribers in a harness-chosen order; items, fits, effects and modifiers get a '
    'salted serial hash so set iteration order is a replayable function of the salt (no change to /repo)']
RULE = ('each generated history is executed on the real code under: the unmodified interpreter order (baseline); all 24 '
        'orders of the subscriber groups {calculator, simulator, stat registers, restriction registers}; N random '
        'per-message delivery permutations; M hash salts (with random delivery). After every history the full '
        'observation (all attribute values, running sets, statistics, validation data, exception classes of every op) '
        'must equal the baseline up to float noise; the baseline itself is compared with the Lean spec (order-free by '
        'construction). Non-trivial: (history, schedule) pairs where the history has >= 10 ops; distinct by '
        '(seed, schedule).')
ASSUMPTIONS = ['float summation order noise tolerated (1e-9 relative)',
               'the RAH simulator subscribes like the other services and is permuted with them; universes with running '
               'reactive armor hardeners are exercised in C12']
CLAUSES = {
    'independent of the order in which a fit notifies its services': 'machine level: obs_schedule_independent (any two legal removal-set choices along the same configuration trace observe the same); impl: all 24 group orders + random per-message permutations',
    'independent of memory-address-dependent iteration order of internal sets': 'gather_order_irrelevant (= C02.calculate_perm: any permutation of the gathered modifications gives the same value) + machine level as above; impl: salted hashes',
    'running the same program twice gives the same values': 'follows; checked (baseline run twice)',
}
LEVEL_TEXT = ('Lean: order of removals/reads is irrelevant at machine level (same configuration trace => same observations) '
              'and the calculation is permutation-invariant; tie: the real code is run under imposed delivery orders and '
              'hash salts and must reproduce the baseline observation, which is itself checked against the Lean spec.')
LEVEL_NOTE = 'Instrumentation is installed from outside at run time; a change to the broker that defeats it makes the check exit 2 (infrastructure), never a verdict.'
TECHNIQUE = 'Lean 4 proof (schedule-independent observations, permutation-invariant calculation) + schedule/hash-salt differential runs'


def _run(seed, p, ops, policy=None, salt=None):
    """Execute ops under a delivery policy / hash salt. Returns (outcomes, vals, run, stats)."""
    def body():
        _, w = WC.make_world(seed, p)
        outs = []
        for op in ops:
            if policy is not None:
                for f in w.fits.values():
                    if not isinstance(getattr(f, '_FitMsgBroker__subscribers'), S.PermDict):
                        S.install(f, policy)
            try:
                outs.append(w.apply(op))
            except Exception as e:
                outs.append('raises:' + type(e).__name__)
            if policy is not None:
                for f in w.fits.values():
                    if not isinstance(getattr(f, '_FitMsgBroker__subscribers'), S.PermDict):
                        S.install(f, policy)
        vals, run = w.observe()
        return outs, vals, run, W.observe_stats(w)
    if salt is None:
        return body()
    with S.salted_hashes(salt):
        return body()


def _same(a, b):
    if a[0] != b[0]:
        return 'exception classes differ: %r vs %r' % ([x for x in zip(a[0], b[0]) if x[0] != x[1]][:2],)
    d = F.equal_obs(a[1], b[1])
    if d:
        return 'attribute values differ: %r' % (d[:2],)
    if a[2] != b[2]:
        return 'running sets differ'
    sd = [k for k in a[3] if not W.flat_equal(a[3][k], b[3].get(k))]
    if sd:
        return 'stats/validation differ: %r' % [(k, a[3][k], b[3].get(k)) for k in sd[:2]]
    return None


def _schedules(ctx, rep, n, nperm, nsalt, pnames=('basic', 'projheavy', 'fleet', 'pymods')):
    for pname in pnames:
        p = dict(F.PARAM_SETS[pname], nsteps=25)
        base = ctx.sub_rnd('sched', pname).randrange(10 ** 9)
        for k in range(n):
            seed = base + k
            h = WC.run_history(seed, p, observe_prob=0.2)
            ops = h['ops']
            try:
                ref = _run(seed, p, ops)
                again = _run(seed, p, ops)
            except Exception as e:
                raise C.InfraError('baseline run failed: %s %s' % (type(e).__name__, e))
            why = _same(ref, again)
            if why:
                rep.violate('running the same program twice differs: ' + why, F.case_of(seed, pname, ops))
                continue
            variants = [('groups:' + '>'.join(o), S.group_policy(o), None) for o in itertools.permutations(S.GROUPS)]
            variants += [('random:%d' % i, S.random_policy('%d/%d' % (seed, i)), None) for i in range(nperm)]
            variants += [('salt:%d' % i, S.random_policy('%d/s%d' % (seed, i)), i + 1) for i in range(nsalt)]
            for name, pol, salt in variants:
                try:
                    got = _run(seed, p, ops, pol, salt)
                except C.InfraError:
                    raise
                why = _same(ref, got)
                rep.case(sig=(seed, pname, name) if len(ops) >= 10 else None, kind='schedule-' + name.split(':')[0],
                         sample=dict(F.case_of(seed, pname, ops[:8]), schedule=name) if k == 0 and name.endswith(':0') else None)
                if why:
                    rep.violate('observation depends on delivery/hash order (%s): %s' % (name, why),
                                dict(F.case_of(seed, pname, ops), schedule=name))
                    break


def correspondence(ctx):
    rep = ctx.report
    rep.rules.append(RULE)
    F.histories(ctx, rep, ['basic', 'fleet'], ctx.n(20, 300), 'corr')


def _gather_orders(ctx, rep, n):
    """Set iteration order decides the order in which `get_modifications` yields the gathered modifications:
    feed the real calculation the same multiset in several orders (ties inside aggregate groups, penalised and
    immune sources mixed)."""
    from harness import calcdirect as CD
    rnd = ctx.sub_rnd('gather-order')
    # corpus: minimised past failures run first (D22: an exact two-digit rounding tie, -11.475)
    corpus = [{'base': 10, 'cap': None, 'hig': 1, 'limited': 1, 'stackable': 0,
               'mods': [(9, 50, 1, 1, None, False), (5, 0.1, 1, 1, None, False), (1, 100, 0.3, 2, 1, True),
                        (4, 50, 0.3, 1, None, True), (5, 50, 1, 1, None, False), (9, 50, 1, 1, None, True)]}]
    for k in range(n + len(corpus)):
        case = corpus[k] if k < len(corpus) else CD.gen_case(rnd, rnd.random() < 0.5)
        ref = CD.run_case(case)
        rep.case(kind='gather-order', sig=('gather', repr(case)) if len(case['mods']) >= 2 else None)
        for _k in range(12 if k < len(corpus) else 3):
            c2 = dict(case, mods=list(case['mods']))
            rnd.shuffle(c2['mods'])
            got = CD.run_case(c2)
            same = (ref == got) if isinstance(ref, str) or isinstance(got, str) else C.close(ref, got)
            if not same:
                rep.violate('calculated value depends on the order in which modifications are gathered: %r vs %r'
                            % (ref, got), {'a': case, 'b': c2})
                break


def oracle(ctx):
    _schedules(ctx, ctx.report, ctx.n(6, 120), ctx.n(6, 20), ctx.n(6, 32))
    _gather_orders(ctx, ctx.report, ctx.n(1500, 30000))
    ctx.report.dist['deliveries_with_imposed_order'] = S.CALLS['get']
    ctx.report.dist['salted_hash_calls'] = S.CALLS['hash']
    if S.CALLS['get'] == 0 or S.CALLS['hash'] == 0:
        raise C.InfraError('instrumentation never fired (broker / hash hooks defeated)')


def search(ctx, broken):
    _schedules(ctx, ctx.report, 40, 10, 10)


def replay(path):
    return F.generic_replay(PID, path)
