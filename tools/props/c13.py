"""C13 - projected effects and fleet boosts reach exactly their current targets."""
import itertools

import common as C
from harness import mem
from harness import world as W
from harness import worldcorr as WC
from props import _worldfam as F

PID = 'C13'
GENERATORS = ['consts', 'fleet_table']
LEAN_TARGETS = ['EosProofs.Props.C13', 'EosProofs.Props.C13World', 'EosProofs.Lemmas.FleetTable', 'EosProofs.Props.C11Proj']
DRIVERS = ['drv_world', 'drv_keyed']
TRUSTED = F.WORLD_TRUSTED
RULE = ('(1) exhaustive: all 24 orders of {put target ship on its fit, add projecting module, activate it, set target} and '
        'all 120 orders of {ship A, ship B, A joins fleet, B joins fleet, add active booster on A}, each followed by all '
        'orders of the tear-down steps {re-target / stop / leave / rejoin}; every order is compared with the from-scratch '
        'value; orders that load a targeted item / a boosted ship (class K1) are expected to fail and are reported as '
        'KNOWN-FINDING, every other order must agree. (2) random histories over 2-3 fits with projected effects '
        '(item and location filters, resist attributes) and fleets, re-target / stop / leave / rejoin / replace ops, vs '
        'the Lean spec at both depths. Non-trivial: orders outside K1 and histories whose final state has a running '
        'applied projection or boost; distinct by order / seed.'
        ' Also enumerated: all orders with the targeted ship on a fit that enters the solar system at any position (location-filter modifiers must reach the rig aboard it in every order), and a non-default projectable effect run through an effect mode with all orders of {mode, target} followed by all orders of {re-target to nothing / back / another ship / mode off}.')
ASSUMPTIONS = ['K1 class (known finding): a target / member ship loaded, unloaded or replaced while targeted / boosted']
CLAUSES = {
    'a running projectable effect modifies exactly its current target (item filter) / the items aboard a targeted ship (location filters)': 'spec lemmas affectsProjected_item_iff, affectsProjected_location_iff, projectionTargets_eq + correspondence',
    'a running fleet boost reaches exactly the ships of the boosting fit and of fits in the same fleet': (
        'spec lemma mem_boostTargets + correspondence; boostTargets, buffModifiers and the fleet-boost branch of gather are '
        'additionally tied by the regenerated complete table EosGen.FleetTable (real code run on every world of 1-3 fits x '
        'fleet A / B / none x ship / no ship, booster on fit 1 started last (outside K1), one template per filter kind, every '
        'item): fleet_table_matches_spec, fleet_table_buff_modifier, fleet_table_gather_matches, fleet_table_complete'),
    're-targeting / stopping / joining / leaving update immediately': 'register level: the projector->targets / target->projectors maps of projection.py are, after every history of apply/unapply calls, exactly the abstract relation and converse to each other (C11Proj.proj_run_refines, conv_run; per-call differential on the real ProjectionRegister); the spec is a function of the current configuration; impl tied by histories; machine-level: C01',
    'outcome independent of set-up order': 'proved at message level: C13World.setup_order_irrelevant_world (two legal message histories ending in settled states of the same configuration observe the same values, both the from-scratch table), retarget_immediate_world; exhaustive order enumeration on impl; K1 orders are a known finding',
}
LEVEL_TEXT = ('Lean: exact characterisation of the affected set of projected modifiers and fleet boosts in the spec, and '
              'order-independence at machine level; tie: exhaustive enumeration of set-up/tear-down orders on the real '
              'code against from-scratch values plus random multi-fit histories against the spec; boostTargets and the '
              'fleet-boost branch of gather are tied by a complete table regenerated on every run (258 fleet worlds, 17 004 '
              'cases) and checked equal to the spec by kernel evaluation.')
LEVEL_NOTE = 'K1 orders are excluded by hypothesis and listed as known finding; same trusted base as C01.'
TECHNIQUE = 'Lean 4 spec characterisation + machine-level order independence + exhaustive order enumeration'


def _proj_universe():
    from eos.const.eos import ModAffecteeFilter, ModAggregateMode, ModDomain, ModOperator
    from eos.const.eve import EffectCategoryId
    from eos.eve_obj.modifier import DogmaModifier
    ch = mem.MemCache()
    a = ch.mkattr()
    b = ch.mkattr()
    mods = (DogmaModifier(affectee_filter=ModAffecteeFilter.item, affectee_domain=ModDomain.target,
                          affectee_attr_id=a.id, operator=ModOperator.post_percent,
                          aggregate_mode=ModAggregateMode.stack, affector_attr_id=b.id),
            DogmaModifier(affectee_filter=ModAffecteeFilter.domain, affectee_domain=ModDomain.target,
                          affectee_attr_id=a.id, operator=ModOperator.mod_add,
                          aggregate_mode=ModAggregateMode.stack, affector_attr_id=b.id))
    e = ch.mkeffect(category_id=EffectCategoryId.target, modifiers=mods)
    modt = ch.mktype(attrs={b.id: 10}, effects=[e], default_effect=e)
    shipt = ch.mktype(attrs={a.id: 100})
    rigt = ch.mktype(attrs={a.id: 7})
    return ch, a.id, modt.id, shipt.id, rigt.id


def _projection_orders(rep):
    from eos import Fit, ModuleHigh, Ship, SolarSystem, State, Rig
    ch, a, modt, shipt, rigt = _proj_universe()
    steps = ['ship', 'module', 'activate', 'target']
    for order in itertools.permutations(steps):
        if order.index('activate') < order.index('module'):
            continue            # cannot activate a module that is not on the fit... it can: state set before adding
        ss = SolarSystem(source=mem.source(ch))
        f, g = Fit(solar_system=ss), Fit(solar_system=ss)
        m = ModuleHigh(modt)
        s = Ship(shipt)
        r = Rig(rigt)
        g.rigs.add(r)
        for st in order:
            if st == 'ship':
                g.ship = s
            elif st == 'module':
                f.modules.high.append(m)
            elif st == 'activate':
                m.state = State.active
            else:
                m.target = s
        got = (s.attrs[a], r.attrs[a])
        want = (110.00000000000001, 17)
        k1 = order.index('target') < order.index('ship')
        rep.case(sig=('proj-order', order) if not k1 else None, kind='order-projection' + ('-K1' if k1 else ''))
        if not (C.close(got[0], want[0]) and C.close(got[1], want[1])):
            rep.violate('set-up order %s gives %r instead of %r' % ('>'.join(order), got, want),
                        {'scenario': 'projection', 'order': list(order)}, cls='K1' if k1 else None)
            continue
        # tear-down / change steps from the fully set-up state, all orders
        for tail in itertools.permutations(['retarget-none', 'stop', 'restart', 'retarget-back']):
            ss2 = SolarSystem(source=mem.source(ch))
            f2, g2 = Fit(solar_system=ss2), Fit(solar_system=ss2)
            m2 = ModuleHigh(modt, state=State.active)
            s2 = Ship(shipt)
            r2 = Rig(rigt)
            g2.ship = s2
            g2.rigs.add(r2)
            f2.modules.high.append(m2)
            m2.target = s2
            tgt, run = True, True
            for st in tail:
                if st == 'retarget-none':
                    m2.target = None
                    tgt = False
                elif st == 'retarget-back':
                    m2.target = s2
                    tgt = True
                elif st == 'stop':
                    m2.state = State.online
                    run = False
                else:
                    m2.state = State.active
                    run = True
                exp = (110.00000000000001, 17) if (tgt and run) else (100, 7)
                got = (s2.attrs[a], r2.attrs[a])
                rep.case(kind='order-projection-tail')
                if not (C.close(got[0], exp[0]) and C.close(got[1], exp[1])):
                    rep.violate('after %s (then %s) target sees %r instead of %r' % ('>'.join(order), '>'.join(tail), got, exp),
                                {'scenario': 'projection-tail', 'order': list(tail)})
                    break


def _detached_target_orders(rep):
    """The targeted ship sits on a fit that enters the solar system in any position of the set-up order: the
    item-filter modifier is K1 when the ship loads after the application, the location-filter modifier is registered
    for the not yet loaded target and must reach the rig aboard it in every order."""
    from eos import Fit, ModuleHigh, Ship, SolarSystem, State, Rig
    ch, a, modt, shipt, rigt = _proj_universe()
    for order in itertools.permutations(['enter', 'module', 'activate', 'target']):
        ss = SolarSystem(source=mem.source(ch))
        f, g = Fit(solar_system=ss), Fit(solar_system=None)
        m, s, r = ModuleHigh(modt), Ship(shipt), Rig(rigt)
        g.ship = s
        g.rigs.add(r)
        for st in order:
            if st == 'enter':
                ss.fits.add(g)
            elif st == 'module':
                f.modules.high.append(m)
            elif st == 'activate':
                m.state = State.active
            else:
                m.target = s
        got = (s.attrs[a], r.attrs[a])
        k1 = order.index('target') < order.index('enter')
        rep.case(sig=('detached-order', order), kind='order-detached-target' + ('-K1' if k1 else ''))
        if not C.close(got[1], 17):
            rep.violate('set-up order %s: the rig aboard the target sees %r instead of 17 (location filter)'
                        % ('>'.join(order), got[1]), {'scenario': 'detached-target', 'order': list(order)})
        elif not C.close(got[0], 110.00000000000001):
            rep.violate('set-up order %s: the target sees %r instead of 110' % ('>'.join(order), got[0]),
                        {'scenario': 'detached-target', 'order': list(order)}, cls='K1' if k1 else None)


def _nondefault_effect_orders(rep):
    """A projectable effect that is not the type's default effect (it runs through an effect mode) follows the target
    like the default one: all orders of {set the mode, set the target} after the fit is set up, then re-target to
    nothing, back, to another ship, and switch the mode off."""
    from eos import EffectMode, Fit, ModuleHigh, Ship, SolarSystem, State
    from eos.const.eos import ModAffecteeFilter, ModAggregateMode, ModDomain, ModOperator
    from eos.const.eve import EffectCategoryId
    from eos.eve_obj.modifier import DogmaModifier
    ch = mem.MemCache()
    a, b, c = ch.mkattr(stackable=True), ch.mkattr(stackable=True), ch.mkattr(stackable=True)

    def eff(tgt, op):
        return ch.mkeffect(category_id=EffectCategoryId.target, modifiers=(DogmaModifier(
            affectee_filter=ModAffecteeFilter.item, affectee_domain=ModDomain.target, affectee_attr_id=tgt,
            operator=op, aggregate_mode=ModAggregateMode.stack, affector_attr_id=c.id),))
    e1, e2 = eff(a.id, ModOperator.post_percent), eff(b.id, ModOperator.mod_add)
    modt = ch.mktype(attrs={c.id: 10}, effects=[e1, e2], default_effect=e1)
    shipt = ch.mktype(attrs={a.id: 100, b.id: 1})
    for order in itertools.permutations(['mode', 'target']):
        for tail in itertools.permutations(['none', 'back', 'other', 'mode-off']):
            ss = SolarSystem(source=mem.source(ch))
            f, g, h = Fit(solar_system=ss), Fit(solar_system=ss), Fit(solar_system=ss)
            s1, s2 = Ship(shipt.id), Ship(shipt.id)
            g.ship, h.ship = s1, s2
            m = ModuleHigh(modt.id, state=State.active)
            f.modules.high.append(m)
            tgt, on = None, False
            steps = list(order) + list(tail)
            for st in steps:
                if st == 'mode':
                    m.set_effect_mode(e2.id, EffectMode.state_compliance)
                    on = True
                elif st == 'mode-off':
                    m.set_effect_mode(e2.id, EffectMode.full_compliance)
                    on = False
                elif st in ('target', 'back'):
                    m.target = tgt = s1
                elif st == 'none':
                    m.target = tgt = None
                else:
                    m.target = tgt = s2
                for sh in (s1, s2):
                    want = (110.00000000000001 if tgt is sh else 100, 11 if (tgt is sh and on) else 1)
                    got = (sh.attrs[a.id], sh.attrs[b.id])
                    rep.case(kind='order-nondefault-effect')
                    if not (C.close(got[0], want[0]) and C.close(got[1], want[1])):
                        rep.violate('after %s the %s ship sees %r instead of %r (second value: the non-default effect)'
                                    % ('>'.join(steps[:steps.index(st) + 1]), 'first' if sh is s1 else 'second', got, want),
                                    {'scenario': 'nondefault-effect', 'order': steps})
                        break
                else:
                    continue
                break


def _rebuff_orders(rep):
    """A running boost follows its buff id: a skill level decides whether the module's buff id names a known buff.  All
    orders of {activate the booster, train the skill} and then un-train / re-train: both ships of the fleet are boosted
    exactly while the booster runs and the id is known."""
    from eos import Fit, Fleet, ModuleHigh, Ship, Skill, SolarSystem, State
    from eos.const.eos import ModAffecteeFilter, ModAggregateMode, ModDomain, ModOperator
    from eos.const.eve import AttrId, EffectCategoryId, EffectId
    from eos.eve_obj.buff_template import WarfareBuffTemplate
    from eos.eve_obj.modifier import DogmaModifier
    ch = mem.MemCache()
    a = ch.mkattr(stackable=True)
    for aid in (AttrId.warfare_buff_1_id, AttrId.warfare_buff_1_value, AttrId.skill_level):
        ch.mkattr(attr_id=aid)
    burst = ch.mkeffect(effect_id=EffectId.module_bonus_warfare_link_armor, category_id=EffectCategoryId.active)
    ch.buffs[10] = {WarfareBuffTemplate(buff_id=10, affectee_filter=ModAffecteeFilter.item, affectee_attr_id=a.id,
                                        operator=ModOperator.post_percent, aggregate_mode=ModAggregateMode.maximum)}
    tweak = ch.mkeffect(category_id=EffectCategoryId.passive, modifiers=(DogmaModifier(
        affectee_filter=ModAffecteeFilter.domain, affectee_domain=ModDomain.ship,
        affectee_attr_id=AttrId.warfare_buff_1_id, operator=ModOperator.mod_add,
        aggregate_mode=ModAggregateMode.stack, affector_attr_id=AttrId.skill_level),))
    shipt = ch.mktype(attrs={a.id: 100})
    modt = ch.mktype(attrs={AttrId.warfare_buff_1_id: 9, AttrId.warfare_buff_1_value: 50}, effects=[burst], default_effect=burst)
    skillt = ch.mktype(effects=[tweak])
    for order in itertools.permutations(['activate', 'train']):
        for tail in itertools.permutations(['untrain', 'retrain', 'stop', 'restart']):
            ss = SolarSystem(source=mem.source(ch))
            f, g = Fit(solar_system=ss), Fit(solar_system=ss)
            f.ship, g.ship = Ship(shipt.id), Ship(shipt.id)
            fl = Fleet()
            fl.fits.add(f)
            fl.fits.add(g)
            sk = Skill(skillt.id, level=0)
            f.skills.add(sk)
            m = ModuleHigh(modt.id, state=State.online)
            f.modules.high.append(m)
            steps = list(order) + list(tail)
            for k, st in enumerate(steps):
                if st in ('activate', 'restart'):
                    m.state = State.active
                elif st == 'stop':
                    m.state = State.online
                elif st in ('train', 'retrain'):
                    sk.level = 1
                else:
                    sk.level = 0
                want = 150 if (m.state == State.active and sk.level == 1) else 100
                got = (f.ship.attrs[a.id], g.ship.attrs[a.id])
                rep.case(kind='order-rebuff')
                if not (C.close(got[0], want) and C.close(got[1], want)):
                    rep.violate('after %s the fleet ships see %r instead of %r' % ('>'.join(steps[:k + 1]), got, (want, want)),
                                {'scenario': 'rebuff', 'order': steps})
                    break


def _fleet_universe():
    from eos.const.eos import ModAffecteeFilter, ModAggregateMode, ModOperator
    from eos.const.eve import AttrId, EffectCategoryId, EffectId
    from eos.eve_obj.buff_template import WarfareBuffTemplate
    ch = mem.MemCache()
    a = ch.mkattr()
    ch.mkattr(attr_id=AttrId.warfare_buff_1_id)
    ch.mkattr(attr_id=AttrId.warfare_buff_1_value)
    ch.buffs[7] = {WarfareBuffTemplate(buff_id=7, affectee_filter=ModAffecteeFilter.item, affectee_attr_id=a.id,
                                       operator=ModOperator.post_percent, aggregate_mode=ModAggregateMode.maximum),
                   WarfareBuffTemplate(buff_id=7, affectee_filter=ModAffecteeFilter.domain, affectee_attr_id=a.id,
                                       operator=ModOperator.mod_add, aggregate_mode=ModAggregateMode.maximum)}
    e = ch.mkeffect(effect_id=EffectId.module_bonus_warfare_link_armor, category_id=EffectCategoryId.active)
    modt = ch.mktype(attrs={AttrId.warfare_buff_1_id: 7, AttrId.warfare_buff_1_value: 50}, effects=[e], default_effect=e)
    shipt = ch.mktype(attrs={a.id: 100})
    rigt = ch.mktype(attrs={a.id: 7})
    return ch, a.id, modt.id, shipt.id, rigt.id


def _fleet_orders(rep):
    from eos import Fit, Fleet, ModuleHigh, Ship, SolarSystem, State, Rig
    ch, a, modt, shipt, rigt = _fleet_universe()
    steps = ['shipA', 'shipB', 'joinA', 'joinB', 'booster']
    for order in itertools.permutations(steps):
        ss = SolarSystem(source=mem.source(ch))
        fa, fb = Fit(solar_system=ss), Fit(solar_system=ss)
        fl = Fleet()
        sa, sb = Ship(shipt), Ship(shipt)
        rb = Rig(rigt)
        fb.rigs.add(rb)
        m = ModuleHigh(modt, state=State.active)
        for st in order:
            if st == 'shipA':
                fa.ship = sa
            elif st == 'shipB':
                fb.ship = sb
            elif st == 'joinA':
                fl.fits.add(fa)
            elif st == 'joinB':
                fl.fits.add(fb)
            else:
                fa.modules.high.append(m)
        got = (sa.attrs[a], sb.attrs[a], rb.attrs[a])
        want = (150, 150, 57)
        k1 = order.index('booster') < order.index('shipA') or order.index('booster') < order.index('shipB')
        rep.case(sig=('fleet-order', order) if not k1 else None, kind='order-fleet' + ('-K1' if k1 else ''))
        if not all(C.close(x, y) for x, y in zip(got, want)):
            rep.violate('fleet set-up order %s gives %r instead of %r' % ('>'.join(order), got, want),
                        {'scenario': 'fleet', 'order': list(order)}, cls='K1' if k1 else None)
            continue
        if k1:
            continue
        for tail in itertools.permutations(['leaveB', 'stop', 'rejoinB', 'restart', 'leaveA']):
            inB, inA, run = True, True, True
            ok = True
            for st in tail:
                try:
                    if st == 'leaveB':
                        fl.fits.remove(fb)
                        inB = False
                    elif st == 'rejoinB':
                        fl.fits.add(fb)
                        inB = True
                    elif st == 'leaveA':
                        fl.fits.remove(fa)
                        inA = False
                    elif st == 'stop':
                        m.state = State.online
                        run = False
                    else:
                        m.state = State.active
                        run = True
                except (KeyError, ValueError):
                    continue
                both = run and inA and inB
                exp = (150 if run else 100, 150 if both else 100, 57 if both else 7)
                got = (sa.attrs[a], sb.attrs[a], rb.attrs[a])
                rep.case(kind='order-fleet-tail')
                if not all(C.close(x, y) for x, y in zip(got, exp)):
                    rep.violate('fleet: after %s then %s (at %s) values %r instead of %r'
                                % ('>'.join(order), '>'.join(tail), st, got, exp),
                                {'scenario': 'fleet-tail', 'order': list(order), 'tail': list(tail)})
                    ok = False
                    break
            # restore for the next tail
            if not ok:
                break
            if fa.fleet is None:
                fl.fits.add(fa)
            if fb.fleet is None:
                fl.fits.add(fb)
            m.state = State.active


def correspondence(ctx):
    rep = ctx.report
    rep.rules.append(RULE)
    # register level: the real ProjectionRegister against the Lean pair model (C11Proj.conv_run, proj_run_refines)
    from props import c11 as _c11
    _c11._projpair(ctx, rep, ctx.n(300, 6000), label='c13-projpair')

    def on_history(seed, pname, p, h):
        if h['crash'] is None:
            d = __import__('collections').Counter()
            W.coverage(h['world'], d)
            if d['running_target_effects_applied'] or d['running_buff_effects']:
                rep.dist['histories_ending_with_applied_projection_or_boost'] += 1
    k = ctx.n(1, 20)
    n = {'projheavy': 90 * k, 'fleet': 25 * k, 'fleetheavy': 30 * k, 'three-fits-decimal': 25 * k}
    F.histories(ctx, rep, list(n), n, 'corr', on_history=on_history, promote_l1=True)


def _fleet_check(states, snap, aid, rows):
    """First (template, item) of one world on which the real code left the Python re-statement of boostTargets +
    affectsProjected: (case, message) or None."""
    from gen import affects_table as AT
    from harness import affects_ref as AR
    for m, scr, inc in rows:
        for x in snap[1]:
            want = AR.boost_expected(snap, aid, m, x)
            for how, got in (('built from scratch', x[0] in scr), ('booster activated after all items were read', x[0] in inc)):
                if got != want:
                    case = {'fleet_table': [list(st) for st in states], 'template_modifier': list(m), 'item': list(x),
                            'observation': how, 'boosted_by_code': got, 'boosted_by_spec': want,
                            'oracle': 'python re-statement of Eos.World.boostTargets / affectsProjected'}
                    return case, ('designed fleet world %r (fleet, ship per fit; booster on fit 1; %s): item %r (kind %s, '
                                  'fit %d) is %s by the template with filter=%d arg=%r, the specification says it is %s'
                                  % (states, how, x[0], AT.KINDS[x[1]], x[3], 'boosted' if got else 'NOT boosted', m[0],
                                     m[2], 'boosted' if want else 'not boosted'))
    return None


def _fleet_table(rep):
    """The regenerated fleet-boost table against the Python re-statement (harness/affects_ref.py).  The proof
    obligation is the Lean theorem over the same table; this names the case."""
    from gen import fleet_table as FT
    for (states, snap, eff, aid, tpls, rows) in (FT.LAST or FT.tables()):
        rep.case(sig=('fleet-table', states), kind='fleet-table-world')
        rep.dist['fleet_table_items'] += len(snap[1]) * len(rows)
        bad = _fleet_check(states, snap, aid, rows)
        if bad:
            rep.violate(bad[1], bad[0])


def oracle(ctx):
    _fleet_table(ctx.report)
    _projection_orders(ctx.report)
    _detached_target_orders(ctx.report)
    _nondefault_effect_orders(ctx.report)
    _rebuff_orders(ctx.report)
    _fleet_orders(ctx.report)
    ctx.report.exhaustive = None


def search(ctx, broken):
    F.mirror_oracle(ctx, ctx.report, ['noswitch-projected', 'fleet'], 300, 'search')


def replay(path):
    import json
    p = C.VERIF / path if not str(path).startswith('/') else path
    data = json.load(open(p))
    v = data.get('violation') or (data.get('broken') or [{}])[0].get('detail') or {}
    case = v.get('case') if isinstance(v, dict) else None
    if isinstance(case, dict) and 'keyed_ops' in case:
        from props import c11 as _c11
        return _c11._replay_keyed(case['keyed_ops'])
    if isinstance(case, dict) and 'fleet_table' in case:
        from gen import fleet_table as FT
        print(json.dumps(v, indent=1)[:3000])
        states = tuple(tuple(st) for st in case['fleet_table'])
        snap, eff, aid, tpls, scr, inc = FT.observe(states)
        bad = _fleet_check(states, snap, aid, [(m, scr[m[3]], inc[m[3]]) for _, m in tpls])
        print('re-executed:', bad[1] if bad else 'the real code agrees with the specification on this world')
        return 1 if bad else 0
    return F.generic_replay(PID, path)
