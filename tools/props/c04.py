"""C04 - fit statistics equal aggregation over current items and obey algebraic laws."""
import json
import math
import random

import common as C
from harness import stats_world as W

PID = 'C04'
GENERATORS = ['stat_formulas', 'stat_handlers']
LEAN_TARGETS = ['EosProofs.Props.C04']
DRIVERS = ['drv_stats']
RULE = ('correspondence: random histories over a real Fit (prefilled with ship, weapons with charges, repairers, drones, '
        'fighters, rig; then add/remove/place/free items, state and effect-mode changes, charge swaps, ability toggles, '
        'ship swaps, source switches A/B/None, damage profile changes, a second fit whose remote repairers target the '
        'ship, ~8 % malformed ops); after EVERY step the public configuration (classes, states, running effect ids, '
        "eos' own attribute values, rack lengths) goes to the Lean model, which recomputes every fit.stats observation "
        'statelessly; compared: resource use/output, 12 slot stats, hp, resists, ehp (default / random / D15-seeking '
        'profile), worst-case ehp, volley and dps (reload on/off) under item filters from a predicate language and target '
        'resists, armor/shield rps; white box: the message stream the fit really publishes (recorded by a spy subscriber) is '
        'fed to the Lean toggle-register model, whose member sets are compared with the 14 private register containers '
        'and whose alternation hypothesis is checked on that stream. Non-trivial = non-zero value, raised error or non-empty '
        'register; distinct by (observation, result). Plus get_cycle_parameters on random/boundary numbers. Oracle: laws, '
        'rebuild-from-scratch and independent recomputation on impl.')
ASSUMPTIONS = [
    'attribute values and running-effect sets are taken from eos as inputs of the recomputation (their correctness is C01/C02/C05)',
    'exact rational arithmetic on the model side; impl floats compared with 1e-9 relative tolerance; round(x,2) of cpu/powergrid '
    'use accepts the neighbouring value when the exact sum is within 1e-6 of a rounding boundary (counted as fragile)',
    'valid ranges as in the quantifier: divisors non-zero (100 % resist on every dealt type, zero cycle time => ZeroDivisionError, '
    'design observation D15: the model mirrors the error, the harness checks impl raises exactly there)',
    'the projection register (remote repairs applied to the ship) is read through item.target of items with running projectable '
    'effects; its own upkeep is property C01 (known finding K1 does not touch it)',
]
CLAUSES = {
    'stats always equal the value recomputed from current items, whatever the history':
        'registers: proved for all message histories with alternating switch-on messages (stat_register_tracks, '
        'strict_remove_present, stats_eq_spec) + handler maps regenerated and proved equal to the needed message pairs '
        '(gen_handlerMaps_eq_spec); alternatesB_sound links the executable alternation check to the hypothesis. That the real '
        'message stream alternates, that each handler is the toggle the model says, and that the stateless recomputation is '
        'the code: correspondence only (random histories, black box and white box, every step)',
    'DPS and volley additive over any partition of items by filter': 'proved (genSum_partition, volley_additive, dps_additive)',
    'taking reload into account never increases DPS': 'proved (reload_avg_ge, avg_pos, reload_dps_le) over the model of '
        'get_cycle_parameters, which is tied by the regenerated decision table (gen_cycle_table) and correspondence',
    'target resist profile scales each damage type by (1 - resist)': 'proved about the generated _combine (combine_resist_scales, gen_combine_eq)',
    'EHP never below raw HP nor below worst-case EHP': 'proved about the generated formulas (ehp_ge_hp, ehp_ge_worstCase) under the explicit D15 guard',
    'EHP unchanged by scaling the damage profile': 'proved for every k > 0 incl. the error outcome (ehp_scale_invariant)',
    'totality of the cycle case analysis': 'proved (cycle_cases_total)',
    'floating-point rounding; applied (range/tracking) damage': 'not modelled (get_applied_* raise NotImplementedError in the code)',
}
LEVEL_TEXT = ('Lean theorems about formulas re-translated from tanking.py / dmg_types.py / cycle.py / effect.py and about every stat '
              "register's regenerated handler map (generic toggle-register lemma, all histories); stateless Lean recomputation of "
              'all fit.stats observations compared with the real Fit after every step of random histories.')
LEVEL_NOTE = ('Trusted: Lean kernel + 3 standard axioms; AST translator and handler-map extractor; harness snapshot and effect-class '
              'mapping; float rounding not modelled; attribute values / running effects are inputs (C01/C05).')
TECHNIQUE = 'Lean 4 proof over regenerated formulas and handler maps + differential correspondence on random histories'
TRUSTED = ['C04: eos attribute values and running-effect sets are inputs of the stateless recomputation']


# ------------------------------------------------------------------ histories
def run_history(seed, rnd, steps, visit):
    """Build a world, apply prefill + random ops; call visit(world, step, ops_so_far) after every op."""
    w = W.World(seed)
    pre = w.prefill(rnd)
    n_fill = len(pre)
    ops = []
    for s in range(steps):
        if s == n_fill:
            pre += w.aim_all()
        op = pre[s] if s < len(pre) else w.gen_op(rnd)
        ops.append(op)
        out = w.apply(op)
        visit(w, s, ops, op, out)
    return w


def d15_profile(w, rnd):
    """A damage profile aimed at the resist holes / walls of the current ship's armor (boundary seeking for D15)."""
    sh = w.fit.ship
    if sh is None or not sh._is_loaded:
        return None
    res = [sh.attrs.get(a) for a in W.RES[4:8]]
    walls = [i for i, r in enumerate(res) if r == 0]
    if not walls:
        return None
    p = [0, 0, 0, 0]
    for i in walls:
        p[i] = rnd.choice([25, 1, 0.5])
    if rnd.random() < .3:          # one step off the boundary
        p[rnd.randrange(4)] += rnd.choice([0.01, 1])
    return p


def queries_for(w, rnd):
    qs = W.gen_queries(rnd)
    p = d15_profile(w, rnd)
    if p is not None:
        qs.append(('ehp', p))
        qs.append(('rps', 'armor', p, False))
    return qs


def kind_of(q, impl):
    if isinstance(impl, str):
        return '%s:%s' % (q[0], impl)
    if any(isinstance(x, str) for x in impl):
        return '%s:partial-error' % q[0]
    return '%s:%s' % (q[0], 'nonzero' if any(impl) else 'zero')


def correspondence(ctx):
    rep = ctx.report
    rep.rules.append(RULE)
    lines, recs = [], []
    nh, steps = ctx.n(40, 320), ctx.n(40, 50)
    for h in range(nh):
        seed = '%s/%d' % (ctx.seed, h)
        rnd = ctx.sub_rnd('hist', h)

        def visit(w, s, ops, op, out):
            rep.dist['op:%s%s' % (op['op'], '' if out is None else '!' + out)] += 1
            lines.extend(w.spy.take())
            for (name, e), ids in W.register_contents(w).items():
                lines.append(('q reg %s %s' % (name, e)).rstrip())
                recs.append((seed, s, ('reg', name, e), ids, ops))
            lines.extend(w.snapshot())
            for q in queries_for(w, rnd):
                lines.append(W.query_line(w, q))
                recs.append((seed, s, q, W.observe(w, q), ops))
        run_history(seed, rnd, steps, visit)
    outs = C.run_driver('drv_stats', '\n'.join(lines) + '\n')
    if len(outs) != len(recs):
        raise C.InfraError('drv_stats answered %d lines for %d queries' % (len(outs), len(recs)))
    for rec, m in zip(recs, outs):
        seed, s, q, impl, ops = rec
        if m == 'bad-op':
            raise C.InfraError('driver rejected query %r' % (q,))
        if q[0] == 'reg':
            t = m.split()
            if t[1] != '1':
                rep.disagree('registers.alternation', m, 'the message stream switched a point on twice (or off while off)',
                             {'world': seed, 'ops': ops[:s + 1], 'register': q[1:]})
            elif [int(x) for x in t[2:]] != impl:
                rep.disagree('registers.%s' % q[1], m, impl, {'world': seed, 'ops': ops[:s + 1], 'register': q[1:]})
            rep.case(sig=('reg', q[1], q[2], tuple(impl)) if impl else None, kind='register:%s' % ('held' if impl else 'empty'))
            continue
        k = kind_of(q, impl)
        if '~' in m:
            rep.fragile += 1
        if q[0] == 'ehp' and impl == 'E:ZeroDivisionError':
            rep.dist['D15:ehp-raises-ZeroDivisionError-as-model-predicts'] += 1
        if not W.agree(m, impl):
            rep.disagree('stats.%s' % q[0], m, impl, {'world': seed, 'ops': ops[:s + 1], 'query': q})
        trivial = k.endswith(':zero')
        rep.case(sig=None if trivial else (q[0], m), sample={'world': seed, 'step': s, 'query': q, 'impl': impl, 'model': m},
                 kind=k)
    _cycle_correspondence(ctx)


# ------------------------------------------------------------------ get_cycle_parameters on numbers
def _stub_effect(c, d, i, r):
    from eos.eve_obj.effect import Effect

    class Stub(Effect):
        def get_cycles_until_reload(self, item):
            return c

        def get_duration(self, item):
            return d

        def get_forced_inactive_time(self, item):
            return i

        def get_reload_time(self, item):
            return r
    return Stub(1)


def _show_cycle(cp):
    from eos.eve_obj.effect.cycle import CycleInfo
    if cp is None:
        return None

    def info(x):
        return [x.active_time, x.inactive_time, x.quantity]
    try:
        avg = cp.average_time
    except ZeroDivisionError:
        avg = 'E:ZeroDivisionError'
    if isinstance(cp, CycleInfo):
        return ['info', [info(cp)], None, avg]
    return ['seq', [info(x) for x in cp.sequence], cp.quantity, avg]


def _parse_cycle(m):
    t = m.split()
    if t[0] == 'none':
        return None

    def num(x):
        return math.inf if x == 'inf' else float(C.unq(x))
    avg = t[-1] if t[-1].startswith('E:') else num(t[-1])
    if t[0] == 'info':
        return ['info', [[num(x) for x in t[1:4]]], None, avg]
    body = t[1:t.index('x')]
    return ['seq', [[num(x) for x in body[i:i + 3]] for i in range(0, len(body), 3)], num(t[t.index('x') + 1]), avg]


def _same_cycle(a, b):
    if a is None or b is None:
        return a is None and b is None

    def eq(x, y):
        if isinstance(x, str) or isinstance(y, str):
            return x == y
        if x in (math.inf,) or y in (math.inf,):
            return x == y
        return C.close(x, y)
    return (a[0] == b[0] and len(a[1]) == len(b[1]) and all(eq(x, y) for r, s in zip(a[1], b[1]) for x, y in zip(r, s))
            and (a[2] is None) == (b[2] is None) and (a[2] is None or eq(a[2], b[2])) and eq(a[3], b[3]))


def _cycle_correspondence(ctx):
    rep = ctx.report
    rnd = ctx.sub_rnd('cycle')
    cases = []
    CY = [None, 0, -1, 1, 2, 3, 7, 0.5, 2.5, math.inf]
    NUM = [None, 0, 0.5, 1, 2, 2.5, 4, 5, 7, 10, 0.001]
    for _ in range(ctx.n(1500, 20000)):
        c = rnd.choice(CY) if rnd.random() < .8 else rnd.randint(1, 40)
        d, i, r = (rnd.choice(NUM) if rnd.random() < .8 else round(rnd.uniform(0, 30), 3) for _ in range(3))
        if rnd.random() < .2 and i is not None:
            r = i                                  # boundary of `forced_inactive_time >= reload_time`
        cases.append((c, d, i, r, rnd.random() < .5))

    def tok(v, none='-'):
        return none if v is None else ('inf' if v == math.inf else C.q(v))
    lines = ['q cyc %s %s %s %s %d' % (tok(c, 'none'), tok(d), tok(i), tok(r), int(f)) for c, d, i, r, f in cases]
    outs = C.run_driver('drv_stats', '\n'.join(lines) + '\n')
    for case, m in zip(cases, outs):
        c, d, i, r, f = case
        impl = _show_cycle(_stub_effect(c, d, i, r).get_cycle_parameters(None, f))
        if not _same_cycle(_parse_cycle(m), impl):
            rep.disagree('cycle.params', m, impl, {'cycle_case': [tok(c, 'none'), d, i, r, f]})
        k = 'cycle:' + ('none' if impl is None else impl[0])
        rep.case(sig=None if impl is None else ('cyc',) + tuple(map(str, case)), kind=k)


# ------------------------------------------------------------------ impl-level oracle
def _vals(x):
    return None if isinstance(x, str) else x


def _close_list(a, b, tol=1e-9):
    return len(a) == len(b) and all(C.close(x, y, rel=tol, abs_=1e-9) for x, y in zip(a, b))


def _both(f1, f2):
    return lambda it: f1(it) and f2(it)


def check_laws(w, rnd, rep, case):
    """The algebraic laws of the property evaluated on the real fit at its current state."""
    from eos import ResistProfile
    st = w.fit.stats
    w.index()
    # --- EHP laws
    prof = d15_profile(w, rnd) if rnd.random() < .3 else None
    prof = prof or W.rnd_profile(rnd)
    hp = _vals(W.observe(w, ('hp',)))
    ehp = W.observe(w, ('ehp', prof))
    wc = _vals(W.observe(w, ('wc',)))
    res = _vals(W.observe(w, ('resists',)))
    if hp is not None and res is not None:
        layers = [res[0:4], res[4:8], res[8:12]]
        recv = [sum(p * (1 - r) for p, r in zip(prof, lay)) for lay in layers]
        must_raise = any(h != 0 and rc == 0 for h, rc in zip(hp, recv))
        near = any(h != 0 and 0 < abs(rc) < 1e-6 * sum(prof) for h, rc in zip(hp, recv))
        if not near:
            if must_raise and ehp != 'E:ZeroDivisionError':
                rep.violate('D15 boundary: 100 %% resist on every dealt type but get_ehp returned %r' % (ehp,), dict(case, profile=prof))
            if not must_raise and isinstance(ehp, str):
                rep.violate('get_ehp raised %s although every layer receives damage' % ehp, dict(case, profile=prof))
        if must_raise:
            rep.dist['oracle:D15-confirmed'] += 1
    if hp is not None and not isinstance(ehp, str):
        for i, name in enumerate(('hull', 'armor', 'shield')):
            if ehp[i] < hp[i] * (1 - 1e-9) - 1e-9:
                rep.violate('EHP below raw HP on %s: %r < %r' % (name, ehp[i], hp[i]), dict(case, profile=prof))
            if wc is not None and ehp[i] < wc[i] * (1 - 1e-9) - 1e-9:
                rep.violate('EHP below worst-case EHP on %s: %r < %r' % (name, ehp[i], wc[i]), dict(case, profile=prof))
        k = rnd.choice([2, 0.5, 10, 1e-3, 37.5])
        ehp2 = W.observe(w, ('ehp', [x * k for x in prof]))
        if isinstance(ehp2, str) or not _close_list(ehp, ehp2, 1e-7):
            rep.violate('EHP changed by scaling the damage profile by %r: %r vs %r' % (k, ehp, ehp2), dict(case, profile=prof))
        rep.dist['oracle:ehp-laws'] += 1
    # --- volley / dps laws
    f = rnd.choice(W.FILTERS)
    q = rnd.choice(W.FILTERS)
    ff, qf = w.mk_filter(f), w.mk_filter(q)
    tgt = W.rnd_resists(rnd)
    for reload in (None, False, True):     # None = volley
        def get(flt, t):
            tr = None if t is None else ResistProfile(*t)
            try:
                r = st.get_volley(flt, tr) if reload is None else st.get_dps(flt, reload, tr)
            except Exception as e:
                return 'E:' + type(e).__name__
            return list(r)[:4]
        what = 'volley' if reload is None else 'dps(reload=%s)' % reload
        whole, a, b = get(ff, None), get(_both(ff, qf), None), get(_both(ff, lambda it: not qf(it)), None)
        c2 = dict(case, filter=f, split=q)
        if not any(isinstance(x, str) for x in (whole, a, b)):
            if not _close_list(whole, [x + y for x, y in zip(a, b)], 1e-7):
                rep.violate('%s not additive over the partition of filter %s by %s: %r != %r + %r' % (what, f, q, whole, a, b), c2)
            rep.dist['oracle:additivity%s' % ('' if any(whole) else '-zero')] += 1
            res_v = get(ff, tgt)
            if isinstance(res_v, str) or not _close_list(res_v, [x * (1 - r) for x, r in zip(whole, tgt)], 1e-7):
                rep.violate('%s under target resists %r is %r, expected each type x (1 - resist) of %r' % (what, tgt, res_v, whole),
                            dict(c2, tgt=tgt))
    d0, d1 = W.observe(w, ('dps', f, False, None)), W.observe(w, ('dps', f, True, None))
    if not isinstance(d0, str) and not isinstance(d1, str):
        if any(y > x * (1 + 1e-9) + 1e-9 for x, y in zip(d0, d1)):
            rep.violate('taking reload into account increased DPS: %r -> %r (filter %s)' % (d0, d1, f), dict(case, filter=f))
        rep.dist['oracle:reload-%s' % ('lower' if sum(d1) < sum(d0) * (1 - 1e-9) else 'same')] += 1


def check_recompute(w, rnd, rep, case):
    """fit.stats of the incrementally maintained fit == fit.stats of a fit built from scratch with the same
    configuration, and == a direct recomputation of the register-backed numbers from the public API."""
    from eos.const.eve import AttrId as A, EffectId as E
    m = w.rebuild()
    w.index()
    m.index()
    for q in queries_for(w, rnd):
        a, b = W.observe(w, q), W.observe(m, q)
        same = (a == b) if isinstance(a, str) or isinstance(b, str) else all(
            (x == y) if isinstance(x, str) or isinstance(y, str) else C.close(x, y, abs_=1e-9) for x, y in zip(a, b))
        if isinstance(a, str) and isinstance(b, str):
            same = True     # which member of an aggregate raises first depends on set order
        if not same:
            rep.violate('fit.stats %r after this history is %r but a fit rebuilt from the current items gives %r' % (q, a, b),
                        dict(case, query=q))
    fit = w.fit
    items = list(fit._item_iter())
    st = fit.stats

    def users(eff, attr):
        return [i for i in items if eff in i._running_effect_ids and (attr is None or attr in i._type_attrs)]
    drones = [i for i in fit.drones]
    exp = {
        'cpu.used': lambda: round(sum(i.attrs[A.cpu] for i in users(E.online, A.cpu)), 2),
        'powergrid.used': lambda: round(sum(i.attrs[A.power] for i in users(E.online, A.power)), 2),
        'calibration.used': lambda: sum(i.attrs[A.upgrade_cost] for i in users(E.rig_slot, A.upgrade_cost)),
        'dronebay.used': lambda: sum(i.attrs[A.volume] for i in drones if i._is_loaded and A.volume in i._type_attrs),
        'drone_bandwidth.used': lambda: sum(i.attrs[A.drone_bandwidth_used] for i in drones if i._is_loaded and i.state >= 2
                                            and A.drone_bandwidth_used in i._type_attrs),
        'turret_slots.used': lambda: len(users(E.turret_fitted, None)),
        'launcher_slots.used': lambda: len(users(E.launcher_fitted, None)),
        'launched_drones.used': lambda: len([i for i in drones if i.state >= 2]),
        'fighter_squads_light.used': lambda: len([i for i in fit.fighters if i._is_loaded and i._type_attrs.get(A.fighter_squadron_is_light)]),
        'fighter_squads_heavy.used': lambda: len([i for i in fit.fighters if i._is_loaded and i._type_attrs.get(A.fighter_squadron_is_heavy)]),
        'fighter_squads_support.used': lambda: len([i for i in fit.fighters if i._is_loaded and i._type_attrs.get(A.fighter_squadron_is_support)]),
    }
    for name, f in exp.items():
        reg, prop = name.split('.')
        got, want = W._guard(lambda: getattr(getattr(st, reg), prop)), W._guard(f)
        ok = (got == want) if isinstance(got, str) or isinstance(want, str) else C.close(got, want, abs_=0.0100001 if 'cpu' in name or 'power' in name else 1e-9)
        if not ok:
            rep.violate('fit.stats.%s is %r but recomputing it from the current items gives %r' % (name, got, want), case)
    # registers hold exactly the items their predicate selects (white-box view of the same fact)
    regs = {'cpu': users(E.online, A.cpu), 'turret_slots': users(E.turret_fitted, None),
            'launched_drones': [i for i in drones if i.state >= 2]}
    for reg, want in regs.items():
        have = getattr(st, reg)._users
        if set(map(id, have)) != set(map(id, want)):
            rep.violate('register %s holds %d items, predicate selects %d' % (reg, len(have), len(want)), case)
    rep.dist['oracle:recompute'] += 1


def spec_avg(c, d, i, r, reload):
    """Average time between cycle starts, from what the parameters mean (not from the code): `c` activations of
    length `d` separated by `i` of forced inactivity; after the c-th one a reload of `r` (hidden inside the
    inactivity when that is longer) if reload counts, nothing more if the effect cannot reload."""
    c = c or 0
    if c <= 0:
        return None
    a, f = d or 0, i or 0
    if c == math.inf:
        return a + f
    if r is None:
        return (c * a + (c - 1) * f) / c
    if not reload or f >= r:
        return a + f
    return (c * a + (c - 1) * f + r) / c


def indep_params(e, it):
    """(cycles until reload, duration, forced inactive time, reload time) of an effect on an item, read from the
    attributes / type data by their meaning (crystal turrets: see below)."""
    from eos import ModuleHigh, ModuleMid, ModuleLow
    from eos.const.eve import AttrId as A
    from eos.eve_obj.effect.fighter_effect import FighterEffect
    kind = W.eff_kind(e)
    ms = lambda v: None if v is None else v / 1000  # noqa: E731
    dur = ms(it.attrs.get(e.duration_attr_id)) if e.duration_attr_id is not None else None
    is_mod = isinstance(it, (ModuleHigh, ModuleMid, ModuleLow))
    if isinstance(e, FighterEffect):
        ad = it._type.effects_data.get(e.id)
        cyc = 1 if kind == 'ddKamikaze' else (None if ad is None else (ad.charge_quantity or None))
        inact = None if ad is None else max(ad.cooldown_time - dur, 0)     # cooldown runs from the activation start
        return cyc, dur, inact, None
    inact = ms(it.attrs.get(A.module_reactivation_delay)) or 0
    rt = ms(it.attrs.get(A.reload_time)) if is_mod else None
    fueled = kind.startswith('rep:') and kind.split(':')[3] == '1'
    if kind in ('ddMissiles', 'ddTurret', 'ddDisint') or fueled:
        empty = math.inf if fueled else None          # a fueled repairer keeps running without fuel
        ch = it.charge
        cap, vol, rate = it.attrs.get(A.capacity), (None if ch is None else ch.attrs.get(A.volume)), it.attrs.get(A.charge_rate)
        if ch is None or cap is None or vol is None or not rate:
            cyc = empty
        else:
            cyc = int(round(cap / vol, 7)) // int(rate) or empty
    elif kind == 'ddTargetAttack':
        cyc = e.get_cycles_until_reload(it)
        # crystals: every crystal in the magazine survives a whole number of cycles (hit points / damage per hit /
        # chance of a hit, rounded down per crystal); recomputed here whenever all the inputs are plain numbers
        ch = it.charge
        if ch is not None and cyc not in (None, math.inf) and ch.attrs.get(A.crystals_get_damaged):
            hp, chance, dmg = (ch.attrs.get(a) for a in (A.hp, A.crystal_volatility_chance, A.crystal_volatility_dmg))
            cap, vol = it.attrs.get(A.capacity), ch.attrs.get(A.volume)
            if None not in (hp, chance, dmg, cap, vol) and hp > 0 and chance > 0 and dmg > 0 and vol > 0:
                per = hp / dmg / chance
                qty = int(round(cap / vol, 7))
                if abs(per - round(per)) > 1e-6 and qty >= 1:          # away from float_to_int's rounding tie
                    cyc = int(per) * qty or None
    else:
        cyc = math.inf
    return cyc, dur, inact, rt


def indep_volley(e, it):
    """Volley of the simple weapon kinds from the attributes; None = kind not recomputed here."""
    from eos.const.eve import AttrId as A
    kind = W.eff_kind(e)
    if kind == 'ddSimple':
        return [it.attrs.get(a, 0) for a in W.DMG]
    if kind in ('ddTurret', 'ddDisint'):
        if not indep_params(e, it)[0]:
            return [0, 0, 0, 0]
        ch = it.charge
        m = it.attrs.get(A.dmg_mult)
        m = 1 if m is None else m
        spool = it.attrs.get(A.dmg_mult_bonus_max) if kind == 'ddDisint' else None
        return [ch.attrs.get(a, 0) * m * (1 if spool is None else 1 + spool) for a in W.DMG]
    return None


def indep_amount(e, it):
    from eos.const.eve import AttrId as A
    _, layer, _, _, spool = W.eff_kind(e).split(':')
    amount = it.attrs.get(A.armor_dmg_amount if layer == 'armor' else A.shield_bonus, 0)
    bonus = it.attrs.get(A.repair_mult_bonus_max) if spool == '1' else None
    return amount if bonus is None else amount * (1 + bonus)


def check_effects(w, rnd, rep, case):
    """Independent recomputation on the real fit: EHP family from public hp/resists; fit-level volley/dps/rps as sums
    over independently selected items; effect-level dps/rps as amount / spec_avg of independently read parameters."""
    from eos import DmgProfile
    from eos.eve_obj.effect.dmg_dealer.base import DmgDealerEffect
    from eos.eve_obj.effect.repairs import base as RB
    from eos.const.eve import AttrId as A
    fit, st = w.fit, w.fit.stats
    sh = fit.ship
    res = None
    # --- agility: align time from the ship's modified agility and mass
    try:
        agi, mass = (None, None) if sh is None else (sh.attrs.get(A.agility), sh.attrs.get(A.mass))
    except Exception:
        agi = mass = None
    got_af, got_al = W._guard(lambda: st.agility_factor), W._guard(lambda: st.align_time)
    rep.case(kind='effect-agility' if agi is not None and mass is not None else 'effect-agility-absent')
    if agi is None or mass is None:
        if got_af is not None or got_al is not None:
            rep.violate('agility factor / align time %r / %r although the ship has no agility or mass' % (got_af, got_al), case)
    else:
        want = -math.log(0.25) * agi * mass / 1000000
        if isinstance(got_af, str) or not C.close(got_af, want) or got_al != math.ceil(want):
            rep.violate('agility factor %r / align time %r, from agility %r and mass %r: %r / %r' % (
                got_af, got_al, agi, mass, want, math.ceil(want)), case)
    # --- EHP family
    if sh is not None:
        hp = [sh.attrs.get(a, 0) for a in (A.hp, A.armor_hp, A.shield_capacity)]
        res = [1 - sh.attrs.get(a, 1) for a in W.RES]
        ok = all(h >= 0 for h in hp) and all(0 <= r <= 1 for r in res)
        got_hp, got_res = W.observe(w, ('hp',)), W.observe(w, ('resists',))
        if ok and (isinstance(got_hp, str) or isinstance(got_res, str) or not _close_list(got_hp, hp) or not _close_list(got_res, res)):
            rep.violate('hp/resists %r %r differ from the ship attributes %r %r' % (got_hp, got_res, hp, res), case)
        if not ok:
            res = None
        else:
            prof = W.rnd_profile(rnd)
            lay = [res[0:4], res[4:8], res[8:12]]
            recv = [sum(p * (1 - r) for p, r in zip(prof, x)) for x in lay]
            if all(h == 0 or rc > 1e-6 * sum(prof) for h, rc in zip(hp, recv)):
                want = [h * sum(prof) / rc if h else h for h, rc in zip(hp, recv)]
                got = W.observe(w, ('ehp', prof))
                if isinstance(got, str) or not _close_list(got, want, 1e-8):
                    rep.violate('get_ehp(%r) = %r, recomputed hp * dealt / received = %r' % (prof, got, want), dict(case, profile=prof))
            if all(h == 0 or min(x) < 1 - 1e-9 for h, x in zip(hp, lay)):
                want = [h / (1 - min(x)) if h else h for h, x in zip(hp, lay)]
                got = W.observe(w, ('wc',))
                if isinstance(got, str) or not _close_list(got, want, 1e-8):
                    rep.violate('worst_case_ehp = %r, recomputed hp / (1 - min resist) = %r' % (got, want), case)
    # --- damage dealers
    items = list(fit._item_iter())
    for reload in (False, True):
        tot_v, tot_d, bad = [0, 0, 0, 0], [0, 0, 0, 0], False
        for it in items:
            effs = [e for e in it._type_effects.values() if isinstance(e, DmgDealerEffect) and e.id in it._running_effect_ids]
            if not effs:
                continue
            try:
                iv, idps = list(it.get_volley())[:4], list(it.get_dps(reload))[:4]
                for e in ([x for x in effs if x.suppress_dds] or effs):
                    ev, ed = list(e.get_volley(it))[:4], list(e.get_dps(it, reload))[:4]
                    vol = indep_volley(e, it)
                    if vol is not None and all(x >= 0 for x in vol) and not _close_list(ev, vol, 1e-8):
                        rep.violate('effect %s volley %r, recomputed from the attributes %r' % (W.ename(e.id), ev, vol),
                                    dict(case, item=w.any_id(it)))
                    avg = spec_avg(*indep_params(e, it), reload)
                    want = [0, 0, 0, 0] if avg is None or W.eff_kind(e) == 'ddKamikaze' else [x / avg for x in ev]
                    if not _close_list(ed, want, 1e-8):
                        rep.violate('effect %s dps(reload=%s) = %r, volley / average cycle time = %r' % (W.ename(e.id), reload, ed, want),
                                    dict(case, item=w.any_id(it)))
            except Exception:
                bad = True
                continue
            tot_v = [x + y for x, y in zip(tot_v, iv)]
            tot_d = [x + y for x, y in zip(tot_d, idps)]
        if not bad:
            gv, gd = W.observe(w, ('volley', 'all', None)), W.observe(w, ('dps', 'all', reload, None))
            if isinstance(gv, str) or not _close_list(gv, tot_v, 1e-8):
                rep.violate('fit volley %r differs from the sum over items with a running damage dealer %r' % (gv, tot_v), case)
            if isinstance(gd, str) or not _close_list(gd, tot_d, 1e-8):
                rep.violate('fit dps(reload=%s) %r differs from the sum over items with a running damage dealer %r' % (reload, gd, tot_d), case)
            rep.dist['oracle:dd-sum%s' % ('' if any(tot_v) else '-zero')] += 1
    # --- repairs: local repairers carried by the ship + remote ones targeting it, each amount / average cycle time,
    #     times the tanking efficiency of the layer when a damage profile is given
    prof = rnd.choice([None, W.rnd_profile(rnd)])
    for layer, local, remote, fn, off in (('armor', RB.LocalArmorRepairEffect, RB.RemoteArmorRepairEffect, st.get_armor_rps, 4),
                                          ('shield', RB.LocalShieldRepairEffect, RB.RemoteShieldRepairEffect, st.get_shield_rps, 8)):
        for reload in (False, True):
            try:
                want = 0
                pairs = [(it, e) for it in (items if sh is not None else []) for e in it._type_effects.values()
                         if isinstance(e, local) and e.id in it._running_effect_ids and it._solsys_carrier is sh]
                pairs += [(it, e) for it in w.fit2._item_iter() if sh is not None and getattr(it, 'target', None) is sh
                          for e in it._type_effects.values()
                          if isinstance(e, remote) and e.id in it._running_effect_ids and e.is_projectable]
                for it, e in pairs:
                    avg = spec_avg(*indep_params(e, it), reload)
                    want += 0 if avg is None else indep_amount(e, it) / avg
                if prof is not None and sh is not None:
                    if res is None:
                        continue
                    recv = sum(p * (1 - r) for p, r in zip(prof, res[off:off + 4]))
                    if recv <= 1e-6 * sum(prof):
                        continue
                    want *= sum(prof) / recv
                got = fn(dmg_profile=None if prof is None else DmgProfile(*prof), reload=reload)
            except Exception:
                continue
            if not C.close(got, want, rel=1e-8, abs_=1e-9):
                rep.violate('%s rps(profile=%r, reload=%s) = %r, recomputed from current local and projected repairers: %r' % (
                    layer, prof, reload, got, want), case)
            rep.dist['oracle:rps%s' % ('' if want else '-zero')] += 1
    rep.dist['oracle:effects'] += 1


def check_cycle_numbers(ctx):
    """get_cycle_parameters on plain numbers: totality, average time as the parameters define it, reload law."""
    rep = ctx.report
    rnd = ctx.sub_rnd('oracle-cycle')
    for _ in range(ctx.n(3000, 40000)):
        c = rnd.choice([None, 0, 1, 1, 2, 3, 5, 12, math.inf])
        d = rnd.choice([None, 0, 0.5, 1, 2.5, 4, 10])
        i = rnd.choice([None, 0, 0, 0.5, 2, 5, 7])
        r = rnd.choice([None, 0, 2, 5, 5, 10, 35])
        case = {'cycle_case': [None if c is None else str(c), d, i, r]}
        avg = {}
        for flag in (False, True):
            try:
                cp = _stub_effect(c, d, i, r).get_cycle_parameters(None, flag)
                avg[flag] = None if cp is None else cp.average_time
            except Exception as e:
                rep.violate('get_cycle_parameters / average_time raised %s' % type(e).__name__, dict(case, reload=flag))
                avg = None
                break
            want = spec_avg(c, d, i, r, flag)
            if (avg[flag] is None) != (want is None) or (want is not None and not C.close(avg[flag], want)):
                rep.violate('average cycle time %r, expected %r from the cycle parameters' % (avg[flag], want), dict(case, reload=flag))
        if avg and avg[False] is not None and avg[True] < avg[False] * (1 - 1e-12):
            rep.violate('average cycle time with reload %r is shorter than without %r' % (avg[True], avg[False]), case)
        rep.case(sig=('ocyc', str(c), d, i, r) if avg and avg[False] is not None else None, kind='oracle-cycle')


def oracle(ctx, nh=None):
    rep = ctx.report
    nh = nh or ctx.n(60, 500)
    steps = ctx.n(40, 50)
    for h in range(nh):
        seed = 'o/%s/%d' % (ctx.seed, h)
        rnd = ctx.sub_rnd('oracle', h)

        def visit(w, s, ops, op, out):
            if s < 6 or rnd.random() < .5:
                return
            case = {'world': seed, 'ops': list(ops)}
            check_laws(w, rnd, rep, case)
            check_recompute(w, rnd, rep, case)
            check_effects(w, rnd, rep, case)
            rep.case(sig=('oracle', seed, s), kind='oracle-step')
        run_history(seed, rnd, steps, visit)
    check_cycle_numbers(ctx)


def search(ctx, broken):
    oracle(ctx, nh=ctx.n(120, 400))


def replay(path):
    data = json.load(open(C.VERIF / path if not str(path).startswith('/') else path))
    print(json.dumps(data, indent=1)[:3000])
    v = data.get('violation')
    if not v:
        print('replay names a broken obligation; re-run ./check C04 to re-check it')
        return 0
    case = v['case']
    if 'cycle_case' in case:
        ctx = C.Ctx(PID, 'quick', data.get('seed', 0))
        check_cycle_numbers(ctx)
        for x in ctx.report.violations[:3]:
            print('REPRODUCED:', x['what'], x['case'])
        return 1 if ctx.report.violations else 0
    w = W.World(case['world'])
    for op in case['ops']:
        w.apply(op)
    rep = C.Report()
    rnd = random.Random('replay')
    for _ in range(40):
        check_laws(w, rnd, rep, {'world': case['world'], 'ops': case['ops']})
        check_recompute(w, rnd, rep, {'world': case['world'], 'ops': case['ops']})
        check_effects(w, rnd, rep, {'world': case['world'], 'ops': case['ops']})
    for x in rep.violations[:3]:
        print('REPRODUCED:', x['what'])
    return 1 if rep.violations else 0
