"""C10 - valid use never produces an internal error."""
import random

import common as C
from harness import world as W
from harness import worldcorr as WC
from props import _worldfam as F

PID = 'C10'
GENERATORS = ['consts']
LEAN_TARGETS = ['EosProofs.Props.C10']
DRIVERS = ['drv_world']
TRUSTED = F.WORLD_TRUSTED
# no exception may escape inside the class of known finding K1 either (values are not judged by this property): targets and
# boosted ships are removed, replaced and reloaded while targeted / boosted
for _base in ('projheavy', 'fleetheavy'):
    F.PARAM_SETS[_base + '+k1'] = dict(F.PARAM_SETS[_base], avoid_k1=False, ship_none=0.45)
F.PARAM_SETS['surface'] = dict(nsteps=45, nfits=3, nuni=2, malformed=0.25, disjoint=0.3, switch_weight=4)
RULE = ('generated histories with a 25% malformed stream over all parameter sets (incl. fleets, source switches to '
        'partially disjoint sources and None); after every op a random sample of the remaining public surface is '
        'called on random items/fits: attrs get/[]/keys/items/len/in, effects, effect modes, stats getters, '
        'validate(skip), tanking (hp, resists, get_ehp, worst_case_ehp), damage/repair getters, module charge '
        'properties, booster side effects (get/set/randomize), fighter abilities, range queries, fleet/solar system '
        'membership calls. Every exception class outside {TypeError, ValueError, KeyError, IndexError, SlotTakenError, '
        'ValidationError, NoSuchAbilityError, NoSuchSideEffectError, ItemSolarSystemMismatchError} is a violation '
        '(ZeroDivisionError from zero divisors / 100% resists is outside the well-formedness quantifier: counted, not '
        'reported). Non-trivial: histories with >= 15 ops and >= 30 probe calls; distinct by (parameter set, seed).')
ASSUMPTIONS = ['ZeroDivisionError (zero divisor modifications, 100 % resist EHP, zero cycle time) lies outside "well-formed universes"',
               'effect categories without a state (area, dungeon) are not generated (KeyError at load: outside the quantifier, DESIGN D14)']
CLAUSES = {
    'no internal failure of the attribute calculation (unbounded recursion on dependency cycles is the only internal outcome of the spec)': 'proved: evalAll_no_notWF under rank well-formedness; valueOf never creates notWF (valueOf_notWF_from_reader)',
    'every public call raises only documented exception classes, whatever the history': 'impl-level exploration of the whole public surface over generated histories (exception-class filter); container operations: see C06/C07 theorems (documented error enum)',
}
LEVEL_TEXT = ('Lean: the world spec is total and its only internal-error outcome (cyclic dependency) is unreachable for '
              'rank-well-formed universes; everything else about this property is exploration of the public surface of '
              'the real code under generated histories with an exception-class filter.')
LEVEL_NOTE = 'The exception-class clause is exploration, not a theorem (no Lean model of Python exceptions beyond the explicit error outcomes of the container and world models).'
TECHNIQUE = 'Lean 4 totality/no-internal-outcome proof for the calculation spec + exception-class filter over generated public-API histories'


def _probes(w, rnd, rep):
    """Call a random sample of read-only / switch-like public methods. Returns (what, exception) or None."""
    from eos import (Booster, FighterSquad, Ship, Drone, ModuleHigh, ModuleMid, ModuleLow, DmgProfile, ResistProfile,
                     NoSuchAbilityError, NoSuchSideEffectError, Restriction)
    from eos.const.eve import FighterAbilityId
    ok = W.DOCUMENTED + (NoSuchAbilityError, NoSuchSideEffectError)
    items = w.all_items()
    fits = w.ss_fits()
    calls = []
    ids = w.query_attr_ids()
    boosters = [i for i in items if isinstance(i, Booster)]
    for _ in range(rnd.randint(2, 8)):
        if not items:
            break
        it = rnd.choice(boosters) if boosters and rnd.random() < 0.25 else rnd.choice(items)
        a = rnd.choice(ids) if ids else 1
        k = rnd.choice([9, 10, 10, 11, 11]) if isinstance(it, Booster) and rnd.random() < 0.7 else rnd.randrange(22)
        f = it._fit
        if k == 0:
            calls.append(('attrs[]', lambda it=it, a=a: it.attrs[a]))
        elif k == 1:
            calls.append(('attrs.get', lambda it=it, a=a: it.attrs.get(a)))
        elif k == 2:
            calls.append(('attrs.items', lambda it=it: (it.attrs.items(), len(it.attrs), list(it.attrs), 5 in it.attrs)))
        elif k == 3:
            calls.append(('effects', lambda it=it: it.effects))
        elif k == 4 and f is not None:
            calls.append(('validate', lambda f=f: f.validate(rnd.sample(list(Restriction), rnd.randint(0, 5)))))
        elif k == 5 and f is not None:
            calls.append(('stats', lambda f=f: W.observe_stats(w)))
        elif k == 6 and isinstance(it, (Ship, Drone, FighterSquad)):
            pv = [rnd.choice([0, 1, 25]) for _ in range(4)]
            calls.append(('tanking', lambda it=it, pv=pv: (it.hp, it.resists, it.worst_case_ehp,
                                                            it.get_ehp(DmgProfile(*pv)))
                          if hasattr(it, 'get_ehp') else None))
        elif k == 7 and hasattr(it, 'get_dps'):
            rv = [rnd.choice([0, 0.5, 1]) for _ in range(4)]
            calls.append(('dps', lambda it=it, rv=rv: (it.get_dps(reload=rnd.random() < 0.5,
                                                                  tgt_resists=ResistProfile(*rv)), it.get_volley())))
        elif k == 8 and isinstance(it, (ModuleHigh, ModuleMid, ModuleLow)):
            calls.append(('module props', lambda it=it: (it.charge_quantity, it.cycles_until_reload, it.reload_time,
                                                         it.reactivation_delay, it.cycle_time, it.optimal_range)))
        elif k == 9 and isinstance(it, Booster):
            calls.append(('side effects', lambda it=it: it.side_effects))
        elif k == 10 and isinstance(it, Booster):
            eids = list(it._type_effects) or [1]
            calls.append(('set side effect', lambda it=it, e=rnd.choice(eids + [424242]): it.set_side_effect_status(e, rnd.random() < 0.6)))
        elif k == 11 and isinstance(it, Booster):
            calls.append(('randomize side effects', lambda it=it: it.randomize_side_effects()))
        elif k == 12 and isinstance(it, FighterSquad):
            calls.append(('abilities', lambda it=it: (it.abilities, it.squad_size)))
        elif k == 13 and isinstance(it, FighterSquad):
            calls.append(('set ability', lambda it=it: it.set_ability_status(rnd.choice(list(FighterAbilityId)), rnd.random() < 0.5)))
        elif k == 14:
            space = [x for x in items if isinstance(x, (Ship, Drone, FighterSquad))]
            if len(space) >= 1:
                x, y = rnd.choice(space), rnd.choice(space)
                calls.append(('range', lambda x=x, y=y: (w.ss.get_ctc_range(x, y), w.ss.get_sts_range(x, y))))
        elif k == 15 and hasattr(it, 'get_armor_rps'):
            calls.append(('rps', lambda it=it: (it.get_armor_rps(), it.get_shield_rps())))
        elif k == 16 and f is not None:
            calls.append(('fit stats rps', lambda f=f: (f.stats.get_armor_rps(), f.stats.get_shield_rps())
                          if hasattr(f.stats, 'get_armor_rps') else None))
        elif k == 17:
            calls.append(('get_effect_mode', lambda it=it: it.get_effect_mode(rnd.choice(list(it._type_effects) or [1]))))
        elif k == 18 and f is not None:
            calls.append(('fit containers', lambda f=f: (len(f.modules.high), list(f.modules.items()), len(f.skills),
                                                         f.ship, f.fleet, f.solar_system, repr(f)[:10])))
        elif k == 19 and hasattr(it, 'get_nps'):
            calls.append(('nps', lambda it=it: (it.get_nps(), it.get_cap_transmit_per_second())))
        elif k == 20 and f is not None:
            calls.append(('stats resists', lambda f=f: (f.stats.resists, f.stats.hp, f.stats.agility_factor if hasattr(f.stats, 'agility_factor') else None)))
        else:
            calls.append(('repr', lambda it=it: repr(it)))
    # documented exception classes per probe; anything else escaping is an internal failure
    allowed = {'attrs[]': (KeyError,), 'validate': (ok[5],), 'tanking': (ValueError, TypeError),
               'dps': (ValueError, TypeError), 'set side effect': (NoSuchSideEffectError,),
               'set ability': (NoSuchAbilityError,), 'range': (ok[6],), 'stats': ()}
    n = 0
    for what, fn in calls:
        n += 1
        try:
            fn()
        except allowed.get(what, ()):
            pass
        except ZeroDivisionError:
            rep.dist['probe_zero_division'] += 1
        except Exception as e:
            return what, e, n
    rep.dist['probe_calls'] += n
    return None


# which documented exception classes make sense for which public call (everything else escaping from it is an
# internal failure, e.g. a KeyError out of the calculator's bookkeeping while a ship is being assigned)
ALLOWED = {
    'add_fit': (), 'remove_fit': ('KeyError',), 'readd_fit': ('ValueError',),
    'set_single': ('TypeError', 'ValueError'), 'set_single_existing': ('TypeError', 'ValueError'),
    'add': ('TypeError', 'ValueError'), 'add_existing': ('TypeError', 'ValueError'), 'remove': ('KeyError',),
    'rack': ('TypeError', 'ValueError', 'SlotTakenError', 'IndexError'),
    'rack_existing': ('TypeError', 'ValueError', 'SlotTakenError', 'IndexError'),
    'rack_remove': ('ValueError', 'IndexError'), 'rack_remove_item': ('ValueError',),
    'state': (), 'mode': (), 'charge': ('TypeError', 'ValueError'), 'charge_existing': ('TypeError', 'ValueError'),
    'target': (), 'level': (), 'source': (),
    'fleet_join': ('ValueError',), 'fleet_leave': ('KeyError',), 'fleet_remove_from': ('KeyError',), 'profile': ('TypeError', 'ValueError'),
    'read': (), 'read_all': (),
}


def _surface(ctx, rep, pnames, n, label):
    for pname in pnames:
        p = F.PARAM_SETS[pname]
        base = ctx.sub_rnd(label, pname).randrange(10 ** 9)
        for k in range(n):
            seed = base + k
            rnd, w = WC.make_world(seed, p)
            gen = W.OpGen(rnd, p)
            prnd = random.Random('probe/%s' % seed)
            done = []
            bad = None
            nprobe = 0
            while len(done) < p['nsteps'] and bad is None:
                for op in gen.next(w):
                    done.append(op)
                    try:
                        out = w.apply(op)
                    except Exception as e:
                        bad = 'op %r raised undocumented %s: %s' % (op[0], type(e).__name__, str(e)[:100])
                        break
                    if out == 'ZeroDivisionError':
                        rep.dist['op_zero_division'] += 1
                    elif out != 'ok' and out not in ALLOWED.get(op[0], ()):
                        bad = 'op %r raised %s, which is not a documented outcome of that call' % (op[0], out)
                        break
                    r = _probes(w, prnd, rep)
                    nprobe += 1
                    if r is not None:
                        bad = 'probe %s raised undocumented %s: %s' % (r[0], type(r[1]).__name__, str(r[1])[:100])
                        break
            rep.case(sig=('surface', pname, seed) if len(done) >= 15 else None, kind='surface-' + pname,
                     sample=F.case_of(seed, pname, done[:8]) if k == 0 else None)
            if bad:
                rep.violate(bad, dict(F.case_of(seed, pname, done), oracle='exception-class filter',
                                      note='probe calls are re-drawn from Random("probe/<world_seed>")'))


def correspondence(ctx):
    rep = ctx.report
    rep.rules.append(RULE)
    F.histories(ctx, rep, ['surface', 'long'], ctx.n(25, 500), 'corr')


def oracle(ctx):
    _surface(ctx, ctx.report, ['surface', 'fleet', 'long', 'projheavy', 'pymods', 'projheavy+k1', 'fleetheavy+k1'],
             ctx.n(30, 800), 'surface')


def search(ctx, broken):
    _surface(ctx, ctx.report, ['surface', 'fleet', 'long', 'noswitch-projected', 'basic'], 300, 'search')


def replay(path):
    return F.generic_replay(PID, path)
