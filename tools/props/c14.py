"""C14 - switching the data source equals rebuilding under the new source."""
import common as C
from harness import world as W
from harness import worldcorr as WC
from props import _worldfam as F

PID = 'C14'
GENERATORS = ['consts']
LEAN_TARGETS = ['EosProofs.Props.C14', 'EosProofs.Props.C14World']
DRIVERS = ['drv_world']
TRUSTED = F.WORLD_TRUSTED
F.PARAM_SETS['switchy'] = dict(nsteps=45, nfits=2, nuni=3, disjoint=0.35, switch_weight=8)
F.PARAM_SETS['switchy-proj'] = dict(nsteps=45, nfits=3, nuni=2, disjoint=0.2, switch_weight=7, proj_bias=True, prefill=True, neff=12)
F.PARAM_SETS['switchy-boost'] = dict(nsteps=40, nfits=2, nuni=2, fleet=True, prefill=True, fleet_bias=True, switch_weight=8,
                                     fleet_weight=0, level_weight=5, disjoint=0.1)   # running boosters, no shared fleets
F.PARAM_SETS['switchy-fleet'] = dict(nsteps=40, nfits=2, nuni=2, fleet=True, switch_weight=5, disjoint=0.1)
RULE = ('pairs/triples of generated sources with overlapping and source-specific type ids (20-35% of the types exist '
        'in one source only), histories with frequent source switches (incl. None) interleaved with all other ops; '
        'after every op cached entries, and at observation points all values/running sets, are compared with the Lean '
        'spec under the CURRENT source. Oracle: (1) mirror world rebuilt under the current source, (2) switch to '
        'another source / None and back must restore every observable value. Non-trivial: history containing >= 2 '
        'effective source switches; distinct by seed.'
        ' Also: running boosters across source switches when no fleet is shared (parameter set switchy-boost); switch away, change states of items while they are unloaded, compare attribute values, running effects, statistics and validation with a rebuild, switch home and compare again (away-work).')
ASSUMPTIONS = ['targets are cleared before a switch (known finding K1 class otherwise)',
               'autocharges and python modifiers not generated']
CLAUSES = {
    'after a switch every item reflects only the new source, as if built from scratch': 'proved at machine level (clear_all_legal, setSource_eq_rebuild) and at message level (C14World.switch_source_world: legal history under the old universe, canonical tear-down, legal history under the new universe ending settled => every observation is the new universe\'s from-scratch table; nothing relates the two universes) + correspondence against the spec under the new source',
    'absent type: unloaded, no attributes, no effects': 'proved on the spec (absent_type_unloaded, unloaded_no_attrs, no_source_unloaded) + correspondence',
    'switching back restores every value': 'proved at machine level (switch_back_restores) and at message level (C14World.switch_back_world) + impl oracle',
    'fit moved to a solar system with another source': 'impl oracle only (remove_fit / readd_fit ops within one solar system; cross-system move explored in the oracle)',
}
LEVEL_TEXT = ('Lean: a source switch is a mutation that clears every cache (always legal), so the machine lands in a '
              'coherent state of the new configuration and switching back restores all values; the spec gives '
              'unloaded items no attributes and no effects. Tie: histories with many switches over partially disjoint '
              'sources vs the Lean spec, plus rebuild and switch-back oracles on the real code.')
LEVEL_NOTE = 'Same trusted base as C01.'
TECHNIQUE = 'Lean 4 proof (source switch = clear-all step of the coherent-cache machine; spec lemmas) + differential histories'


def _count_switches(h):
    return sum(1 for s in h['steps'] if s['op'][0] == 'source' and s['outcome'] == 'ok')


def correspondence(ctx):
    rep = ctx.report
    rep.rules.append(RULE)

    def on_history(seed, pname, p, h):
        rep.dist['switches'] += _count_switches(h)
        if _count_switches(h) >= 2:
            rep.dist['histories_with_2plus_switches'] += 1
    F.histories(ctx, rep, ['switchy', 'switchy-proj', 'switchy-fleet', 'switchy-boost', 'basic'], ctx.n(32, 640), 'corr',
                on_history=on_history)


def _switch_back(ctx, rep, n):
    for k in range(n):
        _switch_back_one(ctx, rep, k, 'switchy-boost' if k % 3 == 2 else 'switchy')


def _switch_back_one(ctx, rep, k, pname):
    p = F.PARAM_SETS[pname]
    base = ctx.sub_rnd('back', pname).randrange(10 ** 9)
    for k in [k]:
        seed = base + k
        rnd, w = WC.make_world(seed, p)
        gen = W.OpGen(rnd, p)
        done = []
        try:
            while len(done) < 25:
                for op in gen.next(w):
                    w.apply(op)
                    done.append(op)
            # leave the K1 class: clear all targets, then observe, switch away and back, observe again
            for op in gen._untarget(w, {id(i) for i in w.all_items()}):
                w.apply(op)
                done.append(op)
            if not gen._switch_ok(w):
                continue
            before = w.observe()
            home = w.src
            others = [i for i in list(range(len(w.unis))) + [None] if i != home]
            away = rnd.choice(others)
            w.apply(('source', away))
            mid = w.observe()
            n2, _ = W.rebuild(w)
            mid2 = n2.observe()
            w.apply(('source', home))
            after = w.observe()
        except ZeroDivisionError:
            continue
        except Exception as e:
            rep.violate('source switching raised %s: %s' % (type(e).__name__, str(e)[:80]),
                        dict(F.case_of(seed, pname, done), oracle='switch-back'))
            continue
        rep.case(sig=('back', seed), kind='switch-back')
        d1 = F.equal_obs(mid[0], mid2[0])
        if d1 or mid[1] != mid2[1]:
            rep.violate('after switching the source the world differs from a rebuild under that source: %r' % (d1[:2],),
                        dict(F.case_of(seed, pname, done + [('source', away)]), oracle='mirror'))
        d2 = F.equal_obs(before[0], after[0])
        if d2 or before[1] != after[1]:
            rep.violate('switching the source away and back does not restore values: %r' % (d2[:2],),
                        dict(F.case_of(seed, pname, done + [('source', away), ('source', home)]),
                             oracle='switch-back'))


def _away_work(ctx, rep, n):
    """State changes made while the items are unloaded (source None / a source lacking their types) count exactly as
    in a world built from scratch: attribute values, running effects, statistics and the validation verdict are
    compared with a rebuild while away and after coming home."""
    p = F.PARAM_SETS['switchy']
    base = ctx.sub_rnd('away').randrange(10 ** 9)
    for k in range(n):
        seed = base + k
        rnd, w = WC.make_world(seed, p)
        gen = W.OpGen(rnd, p)
        done = []
        try:
            while len(done) < 25:
                for op in gen.next(w):
                    w.apply(op)
                    done.append(op)
            for op in gen._untarget(w, {id(i) for i in w.all_items()}):
                w.apply(op)
                done.append(op)
            if not gen._switch_ok(w):
                continue
            home = w.src
            away = rnd.choice([i for i in list(range(len(w.unis))) + [None] if i != home])
            w.apply(('source', away))
            done.append(('source', away))
            stateful = [i for i in w.all_items() if hasattr(type(i), 'state') and type(i).state.fset is not None]
            picks = rnd.sample(stateful, min(len(stateful), rnd.randint(1, 4)))
            # launched drones are recalled while unloaded (state-tracking registers listen to the not-loaded messages)
            picks += [i for i in stateful if type(i).__name__ == 'Drone' and i.state >= 2 and i not in picks
                      and rnd.random() < 0.8]
            for it in picks:
                op = ('state', it._vid, 1 if type(it).__name__ == 'Drone' and rnd.random() < 0.7 else rnd.choice([1, 1, 2, 3]))
                w.apply(op)
                done.append(op)
            stages = []
            for stage in ('away', 'home'):
                if stage == 'home':
                    w.apply(('source', home))
                    done.append(('source', home))
                n2, _ = W.rebuild(w)
                stages.append((stage, w.observe(), W.observe_stats(w), n2.observe(), W.observe_stats(n2), list(done)))
        except ZeroDivisionError:
            continue
        except Exception as e:
            rep.violate('source switching raised %s: %s' % (type(e).__name__, str(e)[:80]),
                        dict(F.case_of(seed, 'switchy', done), oracle='away-work'))
            continue
        rep.case(sig=('away', seed), kind='away-work')
        for stage, got, gst, want, wst, ops in stages:
            d = F.equal_obs(got[0], want[0])
            ds = [key for key in gst if not W.flat_equal(gst[key], wst.get(key))]
            if d or got[1] != want[1] or ds:
                rep.violate('after state changes made while unloaded (%s) the world differs from a rebuild: %r %r' % (
                    stage, d[:2], [(key, gst[key], wst.get(key)) for key in ds[:2]]),
                    dict(F.case_of(seed, 'switchy', ops), oracle='mirror'))
                break


def _move_fit(ctx, rep, n, pname='switchy'):
    """A fit moved to a solar system with another source behaves like a fit built there."""
    from eos import SolarSystem
    from harness import mem
    p = F.PARAM_SETS[pname]
    base = ctx.sub_rnd('move', pname).randrange(10 ** 9)
    for k in range(n):
        seed = base + k
        rnd, w = WC.make_world(seed, dict(p, nfits=1))
        gen = W.OpGen(rnd, dict(p, nfits=1, switch=False))
        done = []
        try:
            while len(done) < 20:
                for op in gen.next(w):
                    w.apply(op)
                    done.append(op)
            for op in gen._untarget(w, {id(i) for i in w.all_items()}):
                w.apply(op)
            fits = w.ss_fits()
            if not fits:
                continue
            f = fits[0]
            other = [i for i in range(len(w.unis)) if i != w.src][0]
            ss2 = SolarSystem(source=mem.source(w.unis[other].ch, 'u%d' % other))
            w.ss.fits.remove(f)
            ss2.fits.add(f)
            w2 = W.World(w.unis, other)
            w2.ss = ss2
            w2.fits, w2.items = w.fits, w.items
            got = w2.observe()
            n2, _ = W.rebuild(w2)
            want = n2.observe()
        except ZeroDivisionError:
            continue
        except Exception as e:
            rep.violate('moving a fit between solar systems raised %s' % type(e).__name__,
                        dict(F.case_of(seed, pname, done), oracle='move-fit'))
            continue
        rep.case(sig=('move', pname, seed), kind='move-fit-' + pname)
        d = F.equal_obs(got[0], want[0])
        if d or got[1] != want[1]:
            rep.violate('fit moved to a solar system with another source differs from a fit built there: %r' % (d[:2],),
                        dict(F.case_of(seed, pname, done), oracle='move-fit'))


def oracle(ctx):
    _switch_back(ctx, ctx.report, ctx.n(40, 800))
    _move_fit(ctx, ctx.report, ctx.n(20, 400))
    _move_fit(ctx, ctx.report, ctx.n(40, 600), 'switchy-fleet')
    _away_work(ctx, ctx.report, ctx.n(45, 600))


def search(ctx, broken):
    _switch_back(ctx, ctx.report, 400)
    F.mirror_oracle(ctx, ctx.report, ['switchy'], 150, 'search')


def replay(path):
    return F.generic_replay(PID, path)
