"""C17 - the source manager rebuilds the cache exactly when it must."""
import json

import common as C
from harness import cachegen as G

PID = 'C17'
GENERATORS = []
LEAN_TARGETS = ['EosProofs.Props.C17']
DRIVERS = ['drv_cache']
RULE = ('correspondence: the real SourceManager (class-level registry reset per case) with 1-3 real JsonCacheHandlers on temp '
        'files prepared as absent / current / stale / damaged (truncated, or well-formed JSON under the current fingerprint whose body does not decode) / written by another engine version, and call-counting data '
        'handlers with version same / changed / None / int, driven through random sequences of add (incl. taken aliases, '
        'shared cache handlers, make_default) / get / remove / list (incl. unknown aliases); after every call the outcome '
        '(rebuilt or not = data getters invoked, exception class), list(), default, and per handler the reported and the '
        'persisted fingerprint and which data the served objects derive from are compared with the state-machine model. '
        'Non-trivial = the sequence contains a successful add; distinct by (initial cache states, op sequence). '
        'Oracle: the clauses of the property checked directly on impl over the full product version x cache state.'
        ' Also: cache state "well-formed JSON under the current fingerprint whose body does not decode"; data sets of different versions differ structurally and the content identity covers every type, attribute, effect and buff template served; an add whose data handler raises while rebuilding must leave registry and default untouched.')
ASSUMPTIONS = [
    'aliases are strings (aliases that are equal as dict keys but of different type are outside the model)',
    'make_default is a bool (the code tests `is True`)',
    'EveObjBuilder.run is a function of the data handler\'s tables (the builder itself is C18/C19); equal fingerprints '
    'are taken to mean equal data, which is the premise of fingerprinting',
    'a cache handler is abstracted to its fingerprint and served object set; for JsonCacheHandler `update_cache` '
    'serving exactly the given objects under the given fingerprint is C15 (served_after_update)',
    'exceptions raised by the builder or by update_cache on bad data are outside the Lean model (the impl oracle '
    'checks that an add which fails while rebuilding leaves registry and default untouched)',
]
CLAUSES = {
    'add rebuilds and persists iff the data version is unknown or the cached fingerprint differs from '
    '(data version, engine version)': 'proved: rebuild_iff, no_rebuild_iff, unknown_version_always_rebuilds',
    'afterwards the source serves objects derived from the current data and the stored fingerprint is current':
        'proved: rebuilt_serves_current_data, not_rebuilt_keeps_caches, after_add_fp_current (persistence of the '
        'fingerprint in the file: correspondence + C15)',
    'adding again with unchanged data does not rebuild': 'proved for every intermediate history: second_add_no_rebuild',
    'aliases are unique': 'proved: alias_unique, aliases_nodup',
    'the default source changes only when requested': 'proved: default_only_on_request',
    'get/remove/list reflect exactly the added sources': 'proved (refinement to a finite map for every history): '
        'registry_refines_map, history_refines_map, get_reflects, remove_reflects, list_reflects',
}
LEVEL_TEXT = ('Lean theorems over a state-machine model of SourceManager (registry, default, cache handlers by identity) for '
              'all worlds and histories, tied to the source by a differential correspondence against the real SourceManager '
              'with real JsonCacheHandlers on temp files and call-counting data handlers.')
LEVEL_NOTE = 'Trusted: Lean kernel + 3 standard axioms, the harness; the tie to manager.py is the correspondence (no regenerated table).'
TECHNIQUE = 'Lean 4 proof (invariants and refinement over operation histories) + differential correspondence'

STATES = ['absent', 'current', 'stale', 'damaged', 'damaged-json', 'other-engine']
VERSIONS = ['v1', 'v2', None, 20180101]


def _eos_version():
    from eos import __version__
    return __version__


def _salt(version):
    return {'v1': 1, 'v2': 2, None: 3, 20180101: 4, 'v0': 5}[version]


def _fmt(version):
    return '%s_%s' % (version, _eos_version())


def _prepare(path, state):
    """Put the cache file into `state` w.r.t. data version v1; returns (expected initial fingerprint, content id)."""
    from eos.eve_obj_builder import EveObjBuilder
    if state == 'absent':
        return None, 0
    version, fp = {'current': ('v1', _fmt('v1')), 'stale': ('v0', _fmt('v0')), 'damaged': ('v1', _fmt('v1')),
                   'damaged-json': ('v1', _fmt('v1')), 'other-engine': ('v1', 'v1_0.0.0.dev9')}[state]
    G.JsonCacheHandler(path).update_cache(EveObjBuilder.run(G.DataHandler(version, _salt(version))), fp)
    if state == 'damaged-json':
        # still bz2 + JSON and carrying the current fingerprint, but the body does not decode
        import bz2
        with bz2.BZ2File(path, 'r') as f:
            tree = json.loads(f.read().decode('utf-8'))
        how = sum(map(ord, path)) % 3
        if how == 0:
            tree['effects'] = []                 # types point at a missing effect
        elif how == 1:
            del tree['attrs']
        else:
            tree['types'][0] = tree['types'][0][:3]
        G.write_payload(path, tree)
        return None, 0
    if state == 'damaged':
        data = open(path, 'rb').read()
        with open(path, 'wb') as f:
            f.write(data[:len(data) * 2 // 3])
        return None, 0
    return fp, _salt(version)


_REF = {}


def _ref_served(salt):
    """What a cache freshly built from the data set `salt` serves (computed once per run)."""
    if salt not in _REF:
        from eos.eve_obj_builder import EveObjBuilder
        with G.TmpDir() as tmp:
            h = G.JsonCacheHandler('%s/ref.json.bz2' % tmp)
            h.update_cache(EveObjBuilder.run(G.DataHandler('ref', salt)), 'ref')
            _REF[salt] = G.served(h)
    return _REF[salt]


def _content_id(handler):
    """Which data set *everything* the handler serves derives from (types, attributes, effects, buff templates over all
    ids any data set uses); 0 = serves nothing, -1 = a mixture / something no single data set produces."""
    sv = G.served(handler)
    if all(isinstance(v, str) for k, v in sv.items() if k != 'type-attributes-without-definition'):
        return 0
    for salt in (1, 2, 3, 4, 5):
        if sv == _ref_served(salt):
            return salt
    return -1


def _reset():
    from eos import SourceManager
    SourceManager._sources = {}
    SourceManager.default = None


def _hx(s):
    return s.encode('utf-8').hex()


def _gen_case(rnd):
    k = rnd.randint(1, 3)
    states = [rnd.choice(STATES) for _ in range(k)]
    ops = []
    for _ in range(rnd.randint(3, 10)):
        r = rnd.random()
        alias = rnd.choice(['tq', 'sisi', 'x y', 'dev', ''])
        if r < 0.55:
            ops.append(('add', alias, rnd.choice(VERSIONS + ['v1', 'v1']), rnd.randrange(k), rnd.random() < 0.3))
        elif r < 0.7:
            ops.append(('get', alias))
        elif r < 0.88:
            ops.append(('remove', alias))
        else:
            ops.append(('list',))
    return states, ops


def _impl_op(op, handlers):
    """Run one operation on the real SourceManager; returns the canonical result token list."""
    from eos import SourceManager
    from eos.source.exception import ExistingSourceError, UnknownSourceError
    try:
        if op[0] == 'add':
            dh = G.DataHandler(op[2], _salt(op[2]))
            SourceManager.add(op[1], dh, handlers[op[3]], make_default=op[4])
            return 'added-rebuilt' if dh.calls else 'added-cached'
        if op[0] == 'get':
            src = SourceManager.get(op[1])
            return 'source s%s %d' % (_hx(src.alias), [i for i, h in enumerate(handlers) if h is src.cache_handler][0])
        if op[0] == 'remove':
            SourceManager.remove(op[1])
            return 'removed'
        return ' '.join(['aliases'] + ['s' + _hx(a) for a in SourceManager.list()])
    except (ExistingSourceError, UnknownSourceError) as e:
        return type(e).__name__
    except Exception as e:
        return 'raises:' + type(e).__name__


def _impl_world(handlers, paths):
    from eos import SourceManager
    al = ' '.join('s' + _hx(a) for a in SourceManager.list())
    d = SourceManager.default
    df = 'N' if d is None else 's%s:%d' % (_hx(d.alias), [i for i, h in enumerate(handlers) if h is d.cache_handler][0])
    hs = []
    persisted = []
    for i, h in enumerate(handlers):
        fp = h.get_fingerprint()
        hs.append('%d:%s:%d' % (i, 'N' if not isinstance(fp, str) else 's' + _hx(fp), _content_id(h)))
        fresh = G.JsonCacheHandler(paths[i])
        persisted.append('%d:%s:%d' % (i, 'N' if not isinstance(fresh.get_fingerprint(), str) else 's' + _hx(
            fresh.get_fingerprint()), _content_id(fresh)))
    return '%s | %s | %s' % (al, df, ' '.join(hs)), ' '.join(persisted)


def _model_lines(states_info, ops):
    lines = ['mgr-reset ' + _hx(_eos_version())]
    for i, (fp, cid) in enumerate(states_info):
        lines.append('mgr-handler %d %s %d' % (i, 'N' if fp is None else 's' + _hx(fp), cid))
    for op in ops:
        if op[0] == 'add':
            v = 'N' if op[2] is None else 's' + _hx(str(op[2]))
            lines.append('mgr add s%s %s %d %d %s' % (_hx(op[1]), v, _salt(op[2]), op[3], 'T' if op[4] else 'F'))
        elif op[0] == 'list':
            lines.append('mgr list')
        else:
            lines.append('mgr %s s%s' % (op[0], _hx(op[1])))
    return lines


def correspondence(ctx):
    rep = ctx.report
    rep.rules.append(RULE)
    rnd = ctx.rnd
    try:
        with G.TmpDir() as tmp:
            for n in range(ctx.n(400, 6000)):
                states, ops = _gen_case(rnd)
                case = {'states': states, 'ops': [list(o) for o in ops]}
                try:
                    _reset()
                    paths = ['%s/m%d_%d.json.bz2' % (tmp, n, i) for i in range(len(states))]
                    info = [_prepare(p, s) for p, s in zip(paths, states)]
                    handlers = [G.JsonCacheHandler(p) for p in paths]
                    for i, h in enumerate(handlers):
                        if (h.get_fingerprint(), _content_id(h)) != info[i]:
                            rep.disagree('mgr.initial-cache-state', info[i], (h.get_fingerprint(), _content_id(h)), case)
                    outs = C.run_driver('drv_cache', '\n'.join(_model_lines(info, ops)) + '\n')[1 + len(states):]
                    if len(outs) != len(ops):
                        raise C.InfraError('driver returned %d lines for %d ops' % (len(outs), len(ops)))
                    for step, (op, out) in enumerate(zip(ops, outs)):
                        res_i = _impl_op(op, handlers)
                        world_i, persisted = _impl_world(handlers, paths)
                        res_m, _, world_m = out.partition(' | ')
                        where = dict(case, step=step)
                        if res_i != res_m:
                            rep.disagree('mgr.result of %s' % op[0], res_m, res_i, where)
                        if world_i != world_m:
                            rep.disagree('mgr.state after %s' % op[0], world_m, world_i, where)
                        if persisted != world_m.rpartition(' | ')[2] and res_i.startswith('added'):
                            # what a later process would load from the files = what the handlers hold
                            rep.disagree('mgr.persisted after %s' % op[0], world_m.rpartition(' | ')[2], persisted, where)
                        rep.dist['op:%s:%s' % (op[0], res_i.split(' ')[0])] += 1
                        if op[0] == 'add':
                            rep.dist['add:%s:version-%s:%s' % (states[op[3]], op[2], res_i)] += 1
                except C.InfraError:
                    raise
                except Exception as e:
                    rep.disagree('mgr.impl raised unexpectedly', 'no exception', G.unexpected(e), case)
                rep.case(sig=(tuple(states), json.dumps(case['ops'])) if any(o[0] == 'add' for o in ops) else None,
                         sample=case, kind='history')
    finally:
        _reset()


def _oracle_case(rep, rnd, tmp, n, state, version, rounds):
    """One cell of version x cache state: every clause of the property on the real SourceManager."""
    from eos import SourceManager
    from eos.eve_obj_builder import EveObjBuilder
    from eos.source.exception import ExistingSourceError, UnknownSourceError
    ev = _eos_version()
    _reset()
    path = '%s/o%d.json.bz2' % (tmp, n)
    fp0, _ = _prepare(path, state)
    h = G.JsonCacheHandler(path)
    case = {'cache': state, 'version': version, 'round': rounds}
    if h.get_fingerprint() != fp0:
        rep.violate('cache prepared as %s reports fingerprint %r' % (state, h.get_fingerprint()), case)
    # an add that fails while rebuilding registers nothing and moves no default
    class Boom(Exception):
        pass
    bad = G.DataHandler(None, 1)
    bad.t = dict(bad.t)
    del bad.t['dgmeffects']

    def boom():
        raise Boom()
    bad.get_dgmeffects = boom
    scratch = G.JsonCacheHandler('%s/boom%d.json.bz2' % (tmp, n))
    snapshot = (list(SourceManager.list()), SourceManager.default)
    try:
        SourceManager.add('boom', bad, scratch, make_default=True)
        rep.violate('add with a failing data handler did not raise', case)
    except Boom:
        pass
    if snapshot != (list(SourceManager.list()), SourceManager.default):
        rep.violate('an add that failed while rebuilding changed the registry or the default: %r' % (
            list(SourceManager.list()),), dict(case, failing_add=True))
    before_default = SourceManager.default
    mk = rnd.random() < 0.5
    dh = G.DataHandler(version, _salt(version))
    try:
        SourceManager.add('one', dh, h, make_default=mk)
    except Exception as e:
        rep.violate('add raised %s' % type(e).__name__, case)
        return
    want_rebuild = version is None or fp0 != '%s_%s' % (version, ev)
    if bool(dh.calls) != want_rebuild:
        rep.violate('add %s although data version %r and cached fingerprint %r' % (
            'rebuilt' if dh.calls else 'did not rebuild', version, fp0), case)
    ref = G.JsonCacheHandler('%s/ref%d.json.bz2' % (tmp, n))
    ref.update_cache(EveObjBuilder.run(G.DataHandler(version, _salt(version))), 'ref')
    src = SourceManager.get('one')
    if G.served(src.cache_handler)['type-attributes-without-definition']:
        rep.violate('the source serves a type carrying attributes it cannot serve: %r' % (
            G.served(src.cache_handler)['type-attributes-without-definition'],), case)
    if want_rebuild and G.served(src.cache_handler) != G.served(ref):
        rep.violate('after a rebuild the source does not serve objects of the current data', case)
    if not want_rebuild and G.served(src.cache_handler) != G.served(ref):
        rep.violate('cache kept under a current fingerprint serves other data than a fresh build', case)
    cur = '%s_%s' % (version, ev)
    if h.get_fingerprint() != cur or G.JsonCacheHandler(path).get_fingerprint() != cur:
        rep.violate('stored fingerprint %r / persisted %r is not the current %r' % (
            h.get_fingerprint(), G.JsonCacheHandler(path).get_fingerprint(), cur), case)
    if (SourceManager.default is src) != mk or (not mk and SourceManager.default is not before_default):
        rep.violate('default source %s although make_default=%r' % (
            'changed' if SourceManager.default is src else 'unchanged', mk), case)
    # taken alias: error, nothing changes
    dh2 = G.DataHandler('v2', 2)
    snapshot = (list(SourceManager.list()), SourceManager.default, h.get_fingerprint())
    try:
        SourceManager.add('one', dh2, h, make_default=True)
        rep.violate('second add under a taken alias did not raise', case)
    except ExistingSourceError:
        pass
    except Exception as e:
        rep.violate('second add under a taken alias raised %s' % type(e).__name__, case)
    if dh2.calls or snapshot != (list(SourceManager.list()), SourceManager.default, h.get_fingerprint()):
        rep.violate('rejected add changed the registry, the default or the cache', case)
    # adding again with unchanged data: via another alias, or after remove
    expected = {'one'}
    if rnd.random() < 0.5:
        SourceManager.remove('one')
        expected.discard('one')
        alias2 = rnd.choice(['one', 'two'])
    else:
        alias2 = 'two'
    expected.add(alias2)
    for other in ('get-x', 'list'):
        if rnd.random() < 0.5:
            try:
                SourceManager.get('nobody') if other == 'get-x' else SourceManager.list()
            except UnknownSourceError:
                pass
    dh3 = G.DataHandler(version, _salt(version))
    same_or_fresh = h if rnd.random() < 0.5 else G.JsonCacheHandler(path)
    default_before = SourceManager.default
    SourceManager.add(alias2, dh3, same_or_fresh)
    if version is not None and dh3.calls:
        rep.violate('adding again with unchanged data (version %r) rebuilt the cache' % (version,), case)
    if version is None and not dh3.calls:
        rep.violate('unknown data version did not rebuild', case)
    if SourceManager.default is not default_before:
        rep.violate('default source changed without make_default', case)
    # get / remove / list against a shadow dict
    shadow = set(SourceManager.list())
    if shadow != expected or len(SourceManager.list()) != len(shadow):
        rep.violate('list() %r differs from the added sources %r' % (SourceManager.list(), sorted(expected)), case)
    for a in ('one', 'two', 'three'):
        try:
            got = SourceManager.get(a).alias
        except UnknownSourceError:
            got = None
        if (got == a) != (a in shadow):
            rep.violate('get(%r) disagrees with list()' % a, case)
    default_before = SourceManager.default
    for a in list(SourceManager.list()):
        if a != alias2:
            SourceManager.remove(a)
    SourceManager.remove(alias2)
    if SourceManager.default is not default_before:
        rep.violate('removing sources changed the default source', case)
    try:
        SourceManager.remove(alias2)
        rep.violate('removing a removed alias did not raise', case)
    except UnknownSourceError:
        pass
    if alias2 in SourceManager.list():
        rep.violate('removed alias still listed', case)
    rep.case(sig=('oracle', state, str(version), rounds), kind='oracle:%s:%s' % (state, version))


def oracle(ctx):
    """The clauses of the property, checked directly on the real code."""
    rep = ctx.report
    rnd = ctx.sub_rnd('oracle')
    try:
        with G.TmpDir() as tmp:
            n = 0
            for rounds in range(ctx.n(6, 60)):
                for state in STATES:
                    for version in VERSIONS:
                        n += 1
                        try:
                            _oracle_case(rep, rnd, tmp, n, state, version, rounds)
                        except Exception as e:
                            rep.violate('source manager / cache handler raised unexpectedly: %s' % G.unexpected(e),
                                        {'cache': state, 'version': version, 'round': rounds})
    finally:
        _reset()


def search(ctx, broken):
    ctx.tier = 'thorough'
    oracle(ctx)


def replay(path):
    data = json.load(open(C.VERIF / path if not str(path).startswith('/') else path))
    print(json.dumps(data, indent=1)[:6000])
    if not data.get('violation'):
        print('replay names a broken obligation; re-run ./check C17 to re-check it')
        return 0
    ctx = C.Ctx(PID, data.get('tier', 'quick'), data.get('seed', 0))
    oracle(ctx)
    for x in ctx.report.violations[:3]:
        print('REPRODUCED:', x['what'])
    return 1 if ctx.report.violations else 0
