"""C01 - incrementally maintained attribute values equal from-scratch values."""
import common as C
from props import _worldfam as F

PID = 'C01'
GENERATORS = ['consts']
LEAN_TARGETS = ['EosProofs.Props.C01', 'EosProofs.Props.C01World']
DRIVERS = ['drv_world', 'drv_micro']
TRUSTED = F.WORLD_TRUSTED
RULE = ('(implementation layer) the loaded-item message stream of the real code, recorded by a spy subscriber, drives '
        'the Lean message-level model of the calculation service; after every public call the sets of privately '
        'cached (item, attribute) entries and their values must be identical (4 parameter sets incl. projection-heavy '
        'worlds, source switches, malformed ops); (specification layer) random public-API histories (20-70 ops, 1-3 fits, 1-2 sources; mostly valid ops + malformed stream) on the '
        'real code; after EVERY op the private modified-attribute caches are peeked (no read) and each cached entry is '
        'compared with the Lean from-scratch spec of the current public configuration (L2 cache coherence); at ~30% of '
        'the steps and at the end every attribute of every item and every running-effect set is read and compared (L1). '
        'Oracle: mirror world rebuilt from the public snapshot. A history is non-trivial when its final state has > 3 '
        'cached entries; distinct by (parameter set, seed).')
ASSUMPTIONS = [
    'histories stay outside the class of known finding K1 (targets/boosted ships are not loaded or unloaded while '
    'targeted/boosted); K1 itself is replayed as a witness and reported as KNOWN-FINDING',
    'float rounding is not modelled: steps where a two-digit-rounded attribute sits on an exact tie are not judged (counted as fragile)',
]
CLAUSES = {
    'every readable value after any history = from-scratch value of the final configuration': 'proved: abstract lazy-cache machine (inv_run, read_eq_spec, incremental_eq_scratch) instantiated with the message-level model of the handlers of service.py (C01World.micro_step_legal, micro_inv_run) and joined to the from-scratch table (C01World.world_read_eq_table) under: rank-well-formed universe, non-zero divisors, resistance only on projected effects, no fleet boosts, K1 side conditions',
    'the message-level model is the code': 'cache-level differential run after every message (exact key sets and values); the compiled driver executes a table-backed twin proved equal to the model (C01World.driver_step_refines when present)',
    'which values were read on the way never matters': 'proved (reads are machine steps; cfg_run_filter + read_eq_spec)',
    'running effect sets equal from-scratch': 'correspondence (L1) against EosModel.World.runningEffects; decision table proved in C05',
    'invalidation cascade is upward closed': 'proved (cascade_upward_closed)',
    'fleet / projected K1 class': 'known finding K1, excluded by hypothesis; witness replayed on every run',
}
LEVEL_TEXT = ('Lean theorems: an abstract lazy-cache machine (reads fill, mutations remove a Legal set) is coherent after '
              'every history, so all observations are functions of the final configuration; the DFS invalidation '
              'cascade is upward closed. Tie: the Lean from-scratch world spec is compared with the real code at every '
              'step of generated histories, both on public reads and on every privately cached entry.')
LEVEL_NOTE = ('Trusted: Lean kernel + standard axioms; the hand-written world spec is tied to the code only by the '
              'differential run (generator quality bounds it; coverage counters in the evidence); python modifiers and '
              'autocharges not modelled; K1 class excluded (known finding).')
TECHNIQUE = 'Lean 4 invariant proof (cache coherence by induction over histories) + two-depth differential correspondence'


MICRO_SETS = {
    'micro-basic': dict(nsteps=30, nfits=2, nuni=1, limited=0, switch=False),
    'micro-projheavy': dict(nsteps=45, nfits=3, nuni=1, switch=False, neff=12, proj_bias=True, prefill=True, nattr=7, limited=0),
    'micro-fleet': dict(nsteps=40, nfits=3, nuni=1, limited=0, switch=False, fleet=True),
    'micro-fleetheavy': dict(nsteps=45, nfits=3, nuni=1, limited=0, switch=False, fleet=True, prefill=True,
                             fleet_bias=True, level_weight=10, fleet_weight=8),
    'micro-switch': dict(nsteps=40, nfits=3, nuni=2, limited=0, disjoint=0.3, switch_weight=5),
    'micro-malformed-decimal': dict(nsteps=60, nfits=2, nuni=2, limited=0, malformed=0.2, dyadic=False),
}
F.PARAM_SETS.update(MICRO_SETS)


def _micro(ctx, rep, n):
    """Implementation-layer correspondence: the message stream of the real code drives the Lean model of the
    calculation service's handlers (EosModel/WorldMicro.lean); after every public call the private attribute
    caches must hold exactly the same entries with the same values."""
    from harness import microcorr as MC
    from harness import worldcorr as WC
    for pname, p in MICRO_SETS.items():
        base = ctx.sub_rnd('micro', pname).randrange(10 ** 9)
        for k in range(n):
            seed = base + k
            done, dis, st = MC.check(seed, p)
            rep.case(sig=('micro', pname, seed) if st.get('cached_entries', 0) > 20 else None, kind=pname,
                     sample=F.case_of(seed, pname, done[:10]) if k == 0 else None)
            rep.dist['micro_steps'] += st.get('steps', 0)
            rep.dist['micro_cached_entries_compared'] += st.get('cached_entries', 0)
            rep.dist['micro_buff_registrations_compared_with_spec'] += st.get('buff_registrations_compared', 0)
            rep.dist['micro_boost_target_sets_compared_with_spec'] += st.get('buff_target_sets_compared', 0)
            rep.dist['micro_steps_outside_stepok_load_unload'] += st.get('steps_outside_stepok_load_unload', 0)
            rep.dist['micro_histories_with_divzero_read_compared_loosely'] += st.get('histories_with_divzero_read', 0)
            if dis:
                def fails(ops, where=dis['where']):
                    d2 = MC.check(seed, p, ops)[1]
                    return bool(d2) and d2['where'] == where
                try:
                    ops = WC.shrink(seed, p, done, fails)
                    dis = MC.check(seed, p, ops)[1] or dis
                except C.InfraError:
                    raise
                except Exception:
                    ops = done
                case = dict(F.case_of(seed, pname, ops), detail={k2: str(v) for k2, v in dis.items()})
                rep.disagree(dis['where'], dis.get('model_only', dis.get('model')), dis.get('impl_only', dis.get('impl')), case)
                why = F.replay_mirror(seed, p, ops)
                if why:
                    rep.violate('history on which the message-level model and the real caches disagree also fails '
                                'the from-scratch oracle: ' + why, dict(case, oracle='mirror'))


def correspondence(ctx):
    rep = ctx.report
    rep.rules.append(RULE)
    _micro(ctx, rep, ctx.n(45, 1200))
    k = ctx.n(1, 20)
    n = {'basic': 40 * k, 'three-fits-decimal': 30 * k, 'fleet': 25 * k, 'fleetheavy': 25 * k, 'long': 25 * k,
         'projheavy': 90 * k}
    F.histories(ctx, rep, list(n), n, 'corr')


def _corpus_d20(rep):
    """Regression corpus (defect D20, fixed in /repo): a projected owner-skill modifier of a resisted effect reaches the
    target fit's drone and is scaled by the *drone's* resistance attribute; when that attribute changes (a skill of the
    drone's owner is trained) the value the projection modifies on the drone must follow."""
    from eos import Drone, Fit, ModuleHigh, Ship, Skill, SolarSystem, State
    from eos.const.eos import ModAffecteeFilter, ModAggregateMode, ModDomain, ModOperator
    from eos.const.eve import AttrId, EffectCategoryId
    from eos.eve_obj.modifier import DogmaModifier
    from harness import mem
    ch = mem.MemCache()
    x, v, r = ch.mkattr(stackable=True), ch.mkattr(stackable=True), ch.mkattr(stackable=True)
    ch.mkattr(attr_id=AttrId.skill_level)
    skill_t = ch.mktype(effects=[ch.mkeffect(category_id=EffectCategoryId.passive, modifiers=(DogmaModifier(
        affectee_filter=ModAffecteeFilter.owner_skillrq, affectee_domain=ModDomain.character, affectee_filter_extra_arg=-1,
        affectee_attr_id=r.id, operator=ModOperator.post_mul, aggregate_mode=ModAggregateMode.stack,
        affector_attr_id=AttrId.skill_level),))])
    web = ch.mkeffect(category_id=EffectCategoryId.target, resist_attr_id=r.id, modifiers=(DogmaModifier(
        affectee_filter=ModAffecteeFilter.owner_skillrq, affectee_domain=ModDomain.target,
        affectee_filter_extra_arg=skill_t.id, affectee_attr_id=x.id, operator=ModOperator.post_percent,
        aggregate_mode=ModAggregateMode.stack, affector_attr_id=v.id),))
    mod_t = ch.mktype(attrs={v.id: 20}, effects=[web], default_effect=web)
    ship_t = ch.mktype(attrs={r.id: 1})
    drone_t = ch.mktype(attrs={x.id: 100, r.id: 0.25}, required_skills={skill_t.id: 1})

    def build(level, read_first):
        ss = SolarSystem(source=mem.source(ch))
        a, b = Fit(solar_system=ss), Fit(solar_system=ss)
        b.ship = Ship(ship_t.id)
        d = Drone(drone_t.id, state=State.active)
        b.drones.add(d)
        sk = Skill(skill_t.id, level=1 if read_first else level)
        b.skills.add(sk)
        m = ModuleHigh(mod_t.id, state=State.active)
        a.modules.high.append(m)
        m.target = b.ship
        if read_first:
            d.attrs[x.id]
            sk.level = level
        return d.attrs[x.id]
    for level in (2, 4, 0):
        got, want = build(level, True), build(level, False)
        rep.case(kind='corpus-D20', sig=('corpus-D20', level))
        if not C.close(got, want):
            rep.violate('corpus D20: drone attribute after its resistance attribute changed is %r, built from scratch %r'
                        % (got, want), {'corpus': 'D20', 'level': level})


def oracle(ctx):
    rep = ctx.report
    _corpus_d20(rep)
    F.mirror_oracle(ctx, rep, ['basic', 'projheavy', 'fleet', 'pymods'], ctx.n(25, 600), 'mirror')
    F.report_k1(rep)


def search(ctx, broken):
    ctx.tier = 'thorough'
    F.mirror_oracle(ctx, ctx.report, ['basic', 'three-fits-decimal', 'long', 'noswitch-projected', 'fleet'], 300, 'search')


def replay(path):
    return F.generic_replay(PID, path)
