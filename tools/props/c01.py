"""C01 - incrementally maintained attribute values equal from-scratch values."""
import common as C
from props import _worldfam as F

PID = 'C01'
GENERATORS = ['consts']
LEAN_TARGETS = ['EosProofs.Props.C01']
DRIVERS = ['drv_world']
TRUSTED = F.WORLD_TRUSTED
RULE = ('random public-API histories (20-70 ops, 1-3 fits, 1-2 sources; mostly valid ops + malformed stream) on the '
        'real code; after EVERY op the private modified-attribute caches are peeked (no read) and each cached entry is '
        'compared with the Lean from-scratch spec of the current public configuration (L2 cache coherence); at ~30% of '
        'the steps and at the end every attribute of every item and every running-effect set is read and compared (L1). '
        'Oracle: mirror world rebuilt from the public snapshot. A history is non-trivial when its final state has > 3 '
        'cached entries; distinct by (parameter set, seed).')
ASSUMPTIONS = [
    'histories stay outside the class of known finding K1 (targets/boosted ships are not loaded or unloaded while '
    'targeted/boosted); K1 itself is replayed as a witness and reported as KNOWN-FINDING',
    'float rounding is not modelled: steps where a two-digit-rounded attribute sits on an exact tie are not judged (counted as fragile)',
]
CLAUSES = {
    'every readable value after any history = from-scratch value of the final configuration': 'proved for the abstract lazy-cache machine for all histories whose removal sets are Legal (inv_run, read_eq_spec, incremental_eq_scratch); instantiation of Legal for the eos handlers: see C01World theorems when present, otherwise correspondence only',
    'which values were read on the way never matters': 'proved (reads are machine steps; cfg_run_filter + read_eq_spec)',
    'running effect sets equal from-scratch': 'correspondence (L1) against EosModel.World.runningEffects; decision table proved in C05',
    'invalidation cascade is upward closed': 'proved (cascade_upward_closed)',
    'fleet / projected K1 class': 'known finding K1, excluded by hypothesis; witness replayed on every run',
}
LEVEL_TEXT = ('Lean theorems: an abstract lazy-cache machine (reads fill, mutations remove a Legal set) is coherent after '
              'every history, so all observations are functions of the final configuration; the DFS invalidation '
              'cascade is upward closed. Tie: the Lean from-scratch world spec is compared with the real code at every '
              'step of generated histories, both on public reads and on every privately cached entry.')
LEVEL_NOTE = ('Trusted: Lean kernel + standard axioms; the hand-written world spec is tied to the code only by the '
              'differential run (generator quality bounds it; coverage counters in the evidence); python modifiers and '
              'autocharges not modelled; K1 class excluded (known finding).')
TECHNIQUE = 'Lean 4 invariant proof (cache coherence by induction over histories) + two-depth differential correspondence'


def correspondence(ctx):
    rep = ctx.report
    rep.rules.append(RULE)
    k = ctx.n(1, 20)
    n = {'basic': 40 * k, 'three-fits-decimal': 30 * k, 'fleet': 40 * k, 'long': 25 * k, 'projheavy': 90 * k}
    F.histories(ctx, rep, list(n), n, 'corr')


def oracle(ctx):
    rep = ctx.report
    F.mirror_oracle(ctx, rep, ['basic', 'projheavy', 'fleet', 'pymods'], ctx.n(25, 600), 'mirror')
    F.report_k1(rep)


def search(ctx, broken):
    ctx.tier = 'thorough'
    F.mirror_oracle(ctx, ctx.report, ['basic', 'three-fits-decimal', 'long', 'noswitch-projected', 'fleet'], 300, 'search')


def replay(path):
    return F.generic_replay(PID, path)
