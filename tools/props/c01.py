"""C01 - incrementally maintained attribute values equal from-scratch values."""
import common as C
from props import _worldfam as F

PID = 'C01'
GENERATORS = ['consts']
LEAN_TARGETS = ['EosProofs.Props.C01', 'EosProofs.Props.C01World']
DRIVERS = ['drv_world', 'drv_micro']
TRUSTED = F.WORLD_TRUSTED
RULE = ('(implementation layer) the loaded-item message stream of the real code, recorded by a spy subscriber, drives '
        'the Lean message-level model of the calculation service; after every public call the sets of privately '
        'cached (item, attribute) entries and their values must be identical (4 parameter sets incl. projection-heavy '
        'worlds, source switches, malformed ops); (specification layer) random public-API histories (20-70 ops, 1-3 fits, 1-2 sources; mostly valid ops + malformed stream) on the '
        'real code; after EVERY op the private modified-attribute caches are peeked (no read) and each cached entry is '
        'compared with the Lean from-scratch spec of the current public configuration (L2 cache coherence); at ~30% of '
        'the steps and at the end every attribute of every item and every running-effect set is read and compared (L1). '
        'Oracle: mirror world rebuilt from the public snapshot. A history is non-trivial when its final state has > 3 '
        'cached entries; distinct by (parameter set, seed).')
ASSUMPTIONS = [
    'histories stay outside the class of known finding K1 (targets/boosted ships are not loaded or unloaded while '
    'targeted/boosted); K1 itself is replayed as a witness and reported as KNOWN-FINDING',
    'float rounding is not modelled: steps where a two-digit-rounded attribute sits on an exact tie are not judged (counted as fragile)',
]
CLAUSES = {
    'every readable value after any history = from-scratch value of the final configuration': 'proved: abstract lazy-cache machine (inv_run, read_eq_spec, incremental_eq_scratch) instantiated with the message-level model of the handlers of service.py (C01World.micro_step_legal, micro_inv_run) and joined to the from-scratch table (C01World.world_read_eq_table) under: rank-well-formed universe, non-zero divisors, resistance only on projected effects, no fleet boosts, K1 side conditions',
    'the message-level model is the code': 'cache-level differential run after every message (exact key sets and values); the compiled driver executes a table-backed twin proved equal to the model (C01World.driver_step_refines when present)',
    'which values were read on the way never matters': 'proved (reads are machine steps; cfg_run_filter + read_eq_spec)',
    'running effect sets equal from-scratch': 'correspondence (L1) against EosModel.World.runningEffects; decision table proved in C05',
    'invalidation cascade is upward closed': 'proved (cascade_upward_closed)',
    'fleet / projected K1 class': 'known finding K1, excluded by hypothesis; witness replayed on every run',
}
LEVEL_TEXT = ('Lean theorems: an abstract lazy-cache machine (reads fill, mutations remove a Legal set) is coherent after '
              'every history, so all observations are functions of the final configuration; the DFS invalidation '
              'cascade is upward closed. Tie: the Lean from-scratch world spec is compared with the real code at every '
              'step of generated histories, both on public reads and on every privately cached entry.')
LEVEL_NOTE = ('Trusted: Lean kernel + standard axioms; the hand-written world spec is tied to the code only by the '
              'differential run (generator quality bounds it; coverage counters in the evidence); python modifiers and '
              'autocharges not modelled; K1 class excluded (known finding).')
TECHNIQUE = 'Lean 4 invariant proof (cache coherence by induction over histories) + two-depth differential correspondence'


MICRO_SETS = {
    'micro-basic': dict(nsteps=30, nfits=2, nuni=1, limited=0, switch=False),
    'micro-projheavy': dict(nsteps=45, nfits=3, nuni=1, switch=False, neff=12, proj_bias=True, prefill=True, nattr=7, limited=0),
    'micro-fleet': dict(nsteps=40, nfits=3, nuni=1, limited=0, switch=False, fleet=True),
    'micro-fleetheavy': dict(nsteps=45, nfits=3, nuni=1, limited=0, switch=False, fleet=True, prefill=True,
                             fleet_bias=True, level_weight=10, fleet_weight=8),
    'micro-switch': dict(nsteps=40, nfits=3, nuni=2, limited=0, disjoint=0.3, switch_weight=5),
    'micro-malformed-decimal': dict(nsteps=60, nfits=2, nuni=2, limited=0, malformed=0.2, dyadic=False),
}
F.PARAM_SETS.update(MICRO_SETS)


def _micro(ctx, rep, n):
    """Implementation-layer correspondence: the message stream of the real code drives the Lean model of the
    calculation service's handlers (EosModel/WorldMicro.lean); after every public call the private attribute
    caches must hold exactly the same entries with the same values."""
    from harness import microcorr as MC
    from harness import worldcorr as WC
    for pname, p in MICRO_SETS.items():
        base = ctx.sub_rnd('micro', pname).randrange(10 ** 9)
        for k in range(n):
            seed = base + k
            done, dis, st = MC.check(seed, p)
            rep.case(sig=('micro', pname, seed) if st.get('cached_entries', 0) > 20 else None, kind=pname,
                     sample=F.case_of(seed, pname, done[:10]) if k == 0 else None)
            rep.dist['micro_steps'] += st.get('steps', 0)
            rep.dist['micro_cached_entries_compared'] += st.get('cached_entries', 0)
            rep.dist['micro_buff_registrations_compared_with_spec'] += st.get('buff_registrations_compared', 0)
            rep.dist['micro_boost_target_sets_compared_with_spec'] += st.get('buff_target_sets_compared', 0)
            rep.dist['micro_steps_outside_stepok_load_unload'] += st.get('steps_outside_stepok_load_unload', 0)
            rep.dist['micro_histories_with_divzero_read_compared_loosely'] += st.get('histories_with_divzero_read', 0)
            if dis:
                def fails(ops, where=dis['where']):
                    d2 = MC.check(seed, p, ops)[1]
                    return bool(d2) and d2['where'] == where
                try:
                    ops = WC.shrink(seed, p, done, fails)
                    dis = MC.check(seed, p, ops)[1] or dis
                except C.InfraError:
                    raise
                except Exception:
                    ops = done
                case = dict(F.case_of(seed, pname, ops), detail={k2: str(v) for k2, v in dis.items()})
                rep.disagree(dis['where'], dis.get('model_only', dis.get('model')), dis.get('impl_only', dis.get('impl')), case)
                why = F.replay_mirror(seed, p, ops)
                if why:
                    rep.violate('history on which the message-level model and the real caches disagree also fails '
                                'the from-scratch oracle: ' + why, dict(case, oracle='mirror'))


def correspondence(ctx):
    rep = ctx.report
    rep.rules.append(RULE)
    _micro(ctx, rep, ctx.n(45, 1200))
    k = ctx.n(1, 20)
    n = {'basic': 40 * k, 'three-fits-decimal': 30 * k, 'fleet': 25 * k, 'fleetheavy': 25 * k, 'long': 25 * k,
         'projheavy': 90 * k}
    F.histories(ctx, rep, list(n), n, 'corr')


def oracle(ctx):
    rep = ctx.report
    F.mirror_oracle(ctx, rep, ['basic', 'projheavy', 'fleet', 'pymods'], ctx.n(25, 600), 'mirror')
    F.report_k1(rep)


def search(ctx, broken):
    ctx.tier = 'thorough'
    F.mirror_oracle(ctx, ctx.report, ['basic', 'three-fits-decimal', 'long', 'noswitch-projected', 'fleet'], 300, 'search')


def replay(path):
    return F.generic_replay(PID, path)
