"""C16 - a damaged cache file is detected and never half-used."""
import bz2
import json
import os

import common as C
from harness import cachegen as G

PID = 'C16'
GENERATORS = []
LEAN_TARGETS = ['EosProofs.Props.C16']
DRIVERS = ['drv_cache']
RULE = ('correspondence: the tree a real handler wrote for a generated object set, damaged by one fault from a grammar of '
        'well-formed-but-wrong JSON (missing key, wrong container / scalar / null where a list is expected, non-dict top '
        'level, short or over-long tuples, junk entities, unknown / null / coerced effect ids referenced by types, '
        'malformed pair lists and ability tuples, unhashable or odd ids, malformed modifier lists, benign wrong-typed '
        'scalars that must be accepted completely), written as a valid bz2 stream and loaded by the real constructor vs '
        'the model `load` on the same tree: all four storages + fingerprint compared exactly. Non-trivial = the base set '
        'has a type with an effect; distinct by (fault kind, damaged tree). '
        'ENUMERATION (labelled as such, not proof): oracle = every prefix length of several written files, byte flips, '
        'overwritten and zeroed blocks, appended garbage, a directory in place of the file, and the payload grammar again: '
        'constructor does not raise, handler is empty-without-fingerprint or complete-with-fingerprint, '
        'SourceManager.add rebuilds on the empty ones.')
ASSUMPTIONS = [
    'bz2/utf-8/json are trusted and not modelled: `parse` is a parameter of every theorem',
    'that a strict prefix / a flipped copy of a written stream never decodes to a different well-structured tree is a '
    'fact about bz2 (CRC) and json: enumerated exhaustively per file for prefixes and sampled for flips, not proved '
    '(hypothesis hprefix of crash_during_write_partial)',
    '`int(x)` of a string is modelled as raising; numeric strings in effect-id position are outside the generated grammar',
    'a crash is modelled as a prefix of the new content on disk (the file is truncated on open)',
]
CLAUSES = {
    'constructing a handler on any file content does not raise and gives empty-without-fingerprint or the complete '
    'content of a successfully decoded well-structured tree':
        'proved for every decoder and every content: load_empty_or_complete, fingerprint_implies_complete, '
        'empty_no_fingerprint, undecodable_empty, absent_empty, wrong_structure_empty, complete_every_element_stored, '
        'complete_has_tree_fingerprint',
    'fingerprint assigned last': 'proved: fingerprint_last',
    'an empty handler makes SourceManager.add regenerate the cache': 'proved: empty_cache_rebuilds (with the C17 model)',
    'for every truncation (crash at any byte of the non-atomic write) the outcome is empty or the complete last written data':
        'proved _partial under hprefix (crash_during_write_partial); hprefix itself is enumeration only: every prefix '
        'length of every generated file on the real bz2/json',
    'byte flips, zeroed blocks': 'handler logic proved (any content); that such damage never decodes to other '
                                 'well-structured data is enumeration only (sampled)',
    'well-formed-but-wrong JSON payloads': 'proved (wrong_structure_empty) + correspondence model vs impl on the grammar',
}
LEVEL_TEXT = ('Lean theorems about `load parse file` for ANY decoder `parse` and any file content (empty or complete, '
              'fingerprint last, wrong structure => empty, empty => rebuild), a differential correspondence of the loader '
              'model against the real constructor on a grammar of wrong payloads, and an exhaustive per-file enumeration '
              'of crash points plus sampled corruptions on the real bz2/json stack (enumeration, not proof).')
LEVEL_NOTE = ('The bz2/json fact "a damaged stream does not decode to different valid data" is covered by enumeration '
              'only; theorems are parametric in the decoder. Trusted: Lean kernel + 3 standard axioms, harness.')
TECHNIQUE = 'Lean 4 proof parametric in the decoder + differential correspondence + exhaustive prefix enumeration'


def _objs(rnd):
    while True:
        objs = G.gen_objs(rnd, full=rnd.choice([True, None, None]))
        if objs[0] or objs[1] or objs[2]:
            return objs


def _base(rnd, tmp):
    objs = _objs(rnd)
    fp = 'v%d_0.0.0.dev10' % rnd.randint(1, 5)
    return objs, fp, G.payload_of(objs, fp, tmp)


def _construct(path):
    """(handler or None, exception class name or None)"""
    try:
        return G.JsonCacheHandler(path), None
    except Exception as e:
        return None, type(e).__name__


def correspondence(ctx):
    rep = ctx.report
    rep.rules.append(RULE)
    rnd = ctx.rnd
    cases = []
    with G.TmpDir() as tmp:
        for i in range(ctx.n(150, 1200)):
            try:
                objs, fp, tree = _base(rnd, tmp)
            except Exception as e:
                rep.disagree('loader.base cache cannot be written', 'ok', G.unexpected(e), {'case': i})
                continue
            nontrivial = any(t.effects for t in objs[0])
            cases.append(('intact', tree, nontrivial))
            for _ in range(ctx.n(12, 25)):
                kind, t2 = G.mutate_payload(rnd, tree)
                cases.append((kind, t2, nontrivial))
        lines = ['load ' + G.enc(G.canon(t)) for _, t, _ in cases] + ['load X']
        outs = C.run_driver('drv_cache', '\n'.join(lines) + '\n')
        if len(outs) != len(lines):
            raise C.InfraError('driver returned %d lines for %d' % (len(outs), len(lines)))
        path = tmp + '/damaged.json.bz2'
        for (kind, tree, nontrivial), out in zip(cases, outs):
            G.write_payload(path, tree)
            h, exc = _construct(path)
            model = G.sort_buffs(G.dec(out))
            case = {'fault': kind, 'tree': tree}
            if h is None:
                rep.disagree('loader.constructor raised %s' % exc, 'empty' if G.is_empty(model) else 'complete', exc, case)
            else:
                d = G.diff(model, G.mem_of(h), 'memory')
                if d:
                    rep.disagree('loader.memory', d, 'impl differs', case)
            rep.case(sig=(kind, json.dumps(tree, sort_keys=True)) if nontrivial else None,
                     sample={'fault': kind}, kind='payload:' + kind.split(':')[0])
            rep.dist['model-' + ('empty' if G.is_empty(model) else 'complete')] += 1
        with open(path, 'wb') as f:
            f.write(b'this is not a bz2 stream')
        h, exc = _construct(path)
        if h is None or G.diff(G.sort_buffs(G.dec(outs[-1])), G.mem_of(h)):
            rep.disagree('loader.undecodable', outs[-1][:80], exc or 'not empty', {'fault': 'not-bz2'})
        rep.case(kind='payload:undecodable')


def _expect_counts(tree):
    """Independent reading of a payload: number of distinct ids per list, or None if it cannot be walked."""
    try:
        out = {}
        # a complete cache has all five sections; a payload that lost one is not the last written data
        for key in ('buff_templates', 'fingerprint'):
            tree[key]
        bt = tree['buff_templates']
        if not isinstance(bt, list):
            # an empty container of another kind iterates like an empty list: nothing to store
            if isinstance(bt, (dict, str)) and len(bt) == 0:
                bt = []
            else:
                return None
        for key, name in (('types', 'types'), ('attrs', 'attrs'), ('effects', 'effects')):
            ids = set()
            for el in tree[key]:
                ids.add(el[0])
            out[name] = len(ids)
        out['buffs'] = len({el[0] for el in bt})
        return out
    except Exception:
        return None


def _judge(rep, h, exc, reference, what, case, tree=None):
    """empty-without-fingerprint or complete-with-fingerprint; returns 'empty' / 'complete' / 'bad'."""
    if h is None:
        rep.violate('constructor raised %s on %s' % (exc, what), case)
        return 'bad'
    mem = G.mem_of(h)
    if G.is_empty(mem):
        if h.get_fingerprint() is not None:
            rep.violate('empty handler reports a fingerprint on %s' % what, case)
            return 'bad'
        return 'empty'
    if reference is not None:
        d = G.diff(reference, mem, 'memory')
        if d:
            rep.violate('handler on %s is neither empty nor complete: %s' % (what, d), case)
            return 'bad'
        return 'complete'
    # payload: complete relative to the payload itself
    want = _expect_counts(tree)
    got = {k: len(mem[k]) for k in ('types', 'attrs', 'effects', 'buffs')}
    if want is None or want != got or not isinstance(tree, dict) or mem['fingerprint'] != G.canon(tree.get('fingerprint')):
        rep.violate('handler on %s holds part of the payload: stored %s, payload has %s, fingerprint %s' % (
            what, got, want, mem['fingerprint']), case)
        return 'bad'
    return 'complete'


def _add_rebuilds(rep, path, h, state, what, case, salt):
    """SourceManager.add on a handler constructed from a damaged file."""
    from eos import SourceManager, __version__
    SourceManager._sources = {}
    SourceManager.default = None
    ver = None if salt % 2 else 'v7'          # a data handler without a version must regenerate as well
    dh = G.DataHandler(ver, salt)
    try:
        SourceManager.add('c16', dh, h)
    except Exception as e:
        rep.violate('SourceManager.add raised %s after %s' % (type(e).__name__, what), case)
        return
    finally:
        SourceManager._sources = {}
        SourceManager.default = None
    if state == 'empty' and dh.calls == 0:
        rep.violate('SourceManager.add did not rebuild an empty cache (%s)' % what, case)
    if dh.calls:
        fresh = G.JsonCacheHandler(path)
        if h.get_fingerprint() != '%s_%s' % (ver, __version__) or fresh.get_fingerprint() != '%s_%s' % (ver, __version__):
            rep.violate('fingerprint not current after rebuild (%s)' % what, case)
        if G.served(h) != G.served(fresh) or G.served(h)['type1']['attrs'] != [['i100', G.canon(50.0 + salt)]]:
            rep.violate('rebuilt cache does not serve the current data (%s)' % what, case)


def oracle(ctx):
    """ENUMERATION on the real code: crash points, corruptions, wrong payloads."""
    rep = ctx.report
    rnd = ctx.sub_rnd('oracle')
    exhaustive = []
    with G.TmpDir() as tmp:
        good = tmp + '/good.json.bz2'
        bad = tmp + '/bad.json.bz2'
        for n in range(ctx.n(12, 60)):
            objs = G.fit_objs(rnd)[0] if n % 3 == 2 else _objs(rnd)
            fp = 'v%d_0.0.0.dev10' % (n + 1)
            try:
                G.JsonCacheHandler(good).update_cache(objs, fp)
                data = open(good, 'rb').read()
                reference = G.mem_of(G.JsonCacheHandler(good))
            except Exception as e:
                rep.violate('writing and re-reading an intact cache raised: %s' % G.unexpected(e), {'objs': G.c_objs(objs)})
                continue
            if G.is_empty(reference):
                rep.violate('an intact cache file loads as empty', {'objs': G.c_objs(objs), 'fp': fp})
                continue
            # --- every prefix length (a crash at any byte of the non-atomic write)
            outcomes = {'empty': 0, 'complete': 0, 'bad': 0}
            for k in range(len(data) + 1):
                with open(bad, 'wb') as f:
                    f.write(data[:k])
                h, exc = _construct(bad)
                case = {'damage': 'prefix', 'length': k, 'of': len(data), 'objs': G.c_objs(objs), 'fp': fp}
                st = _judge(rep, h, exc, reference, 'a %d-byte prefix of a %d-byte file' % (k, len(data)), case)
                outcomes[st] += 1
                if st == 'complete' and k < len(data):
                    rep.notes.append('a strict prefix (%d of %d bytes) decodes completely' % (k, len(data)))
                if st != 'bad' and (k % 37 == n % 37 or k in (0, 1, len(data) - 1, len(data))):
                    _add_rebuilds(rep, bad, h, st, 'prefix %d/%d' % (k, len(data)), case, n)
                rep.case(sig=('prefix', n, k) if 0 < k < len(data) else None, kind='prefix')
            exhaustive.append({'file_bytes': len(data), 'prefixes': len(data) + 1, **outcomes})
            # --- corruptions of the full file
            for i in range(ctx.n(250, 1500)):
                mode = rnd.choice(['flip-bit', 'set-byte', 'zero-block', 'overwrite-block', 'append', 'drop-middle'])
                b = bytearray(data)
                if mode == 'flip-bit':
                    p = rnd.randrange(len(b))
                    b[p] ^= 1 << rnd.randrange(8)
                    where = p
                elif mode == 'set-byte':
                    p = rnd.randrange(len(b))
                    b[p] = rnd.randrange(256)
                    where = p
                elif mode in ('zero-block', 'overwrite-block'):
                    p = rnd.randrange(len(b))
                    ln = rnd.choice([1, 2, 8, 64, 512])
                    for q in range(p, min(len(b), p + ln)):
                        b[q] = 0 if mode == 'zero-block' else rnd.randrange(256)
                    where = [p, ln]
                elif mode == 'append':
                    b += bytes(rnd.randrange(256) for _ in range(rnd.choice([1, 10, 100])))
                    where = len(data)
                else:
                    p = rnd.randrange(len(b))
                    del b[p:p + rnd.choice([1, 4, 32])]
                    where = p
                with open(bad, 'wb') as f:
                    f.write(bytes(b))
                h, exc = _construct(bad)
                case = {'damage': mode, 'where': where, 'objs': G.c_objs(objs), 'fp': fp}
                st = _judge(rep, h, exc, reference, '%s at %s' % (mode, where), case)
                if st != 'bad' and i % 25 == 0:
                    _add_rebuilds(rep, bad, h, st, '%s at %s' % (mode, where), case, n)
                rep.case(sig=(mode, n, json.dumps(where)), kind='corrupt:%s:%s' % (mode, st))
            # --- the cache path is a directory
            os.remove(bad)
            os.mkdir(bad)
            h, exc = _construct(bad)
            _judge(rep, h, exc, reference, 'a directory in place of the file', {'damage': 'directory'})
            os.rmdir(bad)
            # --- well-formed-but-wrong payloads, judged on impl alone
            tree = json.loads(bz2.decompress(data).decode('utf-8'))
            for i in range(ctx.n(60, 300)):
                kind, t2 = G.mutate_payload(rnd, tree)
                G.write_payload(bad, t2)
                h, exc = _construct(bad)
                case = {'damage': 'payload:' + kind, 'tree': t2}
                st = _judge(rep, h, exc, None, 'a %s payload' % kind, case, tree=t2)
                if st != 'bad' and i % 10 == 0:
                    _add_rebuilds(rep, bad, h, st, 'payload ' + kind, case, n)
                rep.case(sig=('payload', kind, json.dumps(t2, sort_keys=True)), kind='oracle-payload:%s' % st)
    rep.exhaustive = {'what': 'every prefix length of each written file (enumeration, not proof)', 'files': exhaustive}


def search(ctx, broken):
    ctx.tier = 'thorough'
    oracle(ctx)


def replay(path):
    data = json.load(open(C.VERIF / path if not str(path).startswith('/') else path))
    print(json.dumps(data, indent=1)[:6000])
    if not data.get('violation'):
        print('replay names a broken obligation; re-run ./check C16 to re-check it')
        return 0
    ctx = C.Ctx(PID, data.get('tier', 'quick'), data.get('seed', 0))
    oracle(ctx)
    for x in ctx.report.violations[:3]:
        print('REPRODUCED:', x['what'])
    return 1 if ctx.report.violations else 0
