"""C20 - range queries form a metric on item positions."""
import json
import math

import common as C
from harness import mem

PID = 'C20'
GENERATORS = ['range_formula']
LEAN_TARGETS = ['EosProofs.Props.C20']
DRIVERS = ['drv_range']
RULE = ('correspondence: random and boundary coordinates (ints, dyadic, decimal, negative, 1e9-scale, tiny) x '
        'all 4x4 placements of two in-space items (same / other / no solar system / no fit); impl ctc^2 and sts are '
        'compared with the exact-rational model and the generated formulas. Non-trivial = both items here and '
        'coordinates differ; distinct by (placement, coordinates, radii). Oracle: metric laws on impl triples.'
        ' Also: integer coordinates beyond 2**53 that lie close together, and items whose orientation was assigned after their coordinate.')
ASSUMPTIONS = [
    'math.sqrt is trusted (the model compares squared distances; theorems are over the reals)',
    'arguments are in-space items (Ship, Drone, FighterSquad): other item classes carry no coordinate and are outside the quantifier',
]
CLAUSES = {
    'ctc = Euclidean distance, symmetric, zero iff equal, triangle inequality': 'proved for all reals (ctc_eq_dist, ctc_symm, ctc_self, ctc_eq_zero_iff, ctc_triangle) about the formula regenerated from the source',
    'sts = max(0, d - r1 - r2), never below zero, at most ctc for non-negative radii': 'proved (sts_eq, sts_nonneg, sts_le_ctc)',
    'mismatch rejection': 'complete 4x4 placement table extracted by running the guard, equals the spec by decide (gen_mismatch_eq_spec, mismatch_iff)',
    'float rounding of sqrt and of the sums': 'not modelled; compared with 1e-9 relative tolerance',
}

# includes values whose Python hashes collide (-1/-2, 0/2**61-1): Coordinates are hashable, so hash-based
# shortcuts are a realistic slip
POOL = [0, 1, -1, -2, 2, 3, 4, -7, 12, 0.5, -0.25, 1.5, 100.125, 0.1, -0.3, 2.7, 1e9, -1e9, 123456.789, 1e-6, -2e-7,
        5e5, -1.0, -2.0, 2 ** 61 - 1]
RADII = [None, 0, 1, 2.5, 40, 1e4, 0.125]


def _world():
    from eos import Fit, SolarSystem, Ship, Drone, FighterSquad
    from eos.const.eve import AttrId
    ch = mem.MemCache()
    ch.mkattr(attr_id=AttrId.radius)
    types = {}
    for r in RADII:
        types[r] = ch.mktype(attrs=({} if r is None else {AttrId.radius: r})).id
    ss = SolarSystem(source=mem.source(ch))
    ss2 = SolarSystem(source=mem.source(ch))
    return ch, types, ss, ss2


def _place(p, ss, ss2, mk):
    """Return an in-space item placed as p (0 here, 1 other, 2 fit without solar system, 3 no fit)."""
    from eos import Fit
    it = mk()
    if p == 3:
        return it
    fit = Fit(solar_system={0: ss, 1: ss2, 2: None}[p])
    from eos import Ship
    if isinstance(it, Ship):
        fit.ship = it
    elif type(it).__name__ == 'Drone':
        fit.drones.add(it)
    else:
        fit.fighters.add(it)
    return it


def _mk(kind, type_id, coord):
    from eos import Ship, Drone, FighterSquad, Coordinates
    it = {'ship': Ship, 'drone': Drone, 'fighter': FighterSquad}[kind](type_id)
    if tuple(coord) != (0, 0, 0) or type_id % 2:
        it.coordinate = Coordinates(*coord)
    # else: the item keeps the coordinate it was born with (the origin)
    if sum(map(lambda v: hash(v) % 7, coord)) % 2:
        # where an item looks has nothing to do with where it is
        from eos import Orientation
        it.orientation = Orientation(0, -3, 4.5)
    return it


def _impl_case(case, ss, ss2, types):
    from eos.solar_system.exception import ItemSolarSystemMismatchError
    i1 = _place(case['p1'], ss, ss2, lambda: _mk(case['k1'], types[case['r1']], case['c1']))
    i2 = _place(case['p2'], ss, ss2, lambda: _mk(case['k2'], types[case['r2']], case['c2']))
    out = {}
    for name in ('get_ctc_range', 'get_sts_range'):
        try:
            out[name] = getattr(ss, name)(i1, i2)
        except ItemSolarSystemMismatchError:
            out[name] = 'mismatch'
        except Exception as e:  # any other class is an internal error (also C10)
            out[name] = 'raises:' + type(e).__name__
    # tear down so fits do not accumulate
    for it in (i1, i2):
        f = it._fit
        if f is not None and f.solar_system is not None:
            f.solar_system.fits.remove(f)
    return out


def _gen_case(rnd):
    def coord():
        mode = rnd.random()
        if mode < 0.15:
            return (0, 0, 0)
        return tuple(rnd.choice(POOL) if rnd.random() < 0.7 else rnd.uniform(-1e4, 1e4) for _ in range(3))
    c1 = coord()
    c2 = c1 if rnd.random() < 0.1 else coord()
    if rnd.random() < 0.12:
        # distinct positions whose coordinate-wise Python hashes coincide
        twin = {-1: -2, -2: -1, 0: 2 ** 61 - 1, 1: 2 ** 61, -1.0: -2.0}
        c1 = tuple(rnd.choice([-1, -2, 0, 1, 3, -1.0]) for _ in range(3))
        c2 = tuple(twin.get(v, v) if rnd.random() < 0.6 else v for v in c1)
    if rnd.random() < 0.1:
        # integers beyond 2**53 that lie close together (exact in Python's integer arithmetic, lost by any float())
        big = rnd.choice([2 ** 53, 10 ** 16, -2 ** 60, 2 ** 53 + 1])
        c1 = (big + rnd.randint(-2, 2), rnd.choice([0, big]), rnd.randint(-5, 5))
        c2 = (c1[0] + rnd.choice([1, 3, -1]), c1[1] + rnd.choice([0, 4]), c1[2] + rnd.choice([0, 12]))
    p = (0, 0) if rnd.random() < 0.7 else (rnd.randrange(4), rnd.randrange(4))
    return {'p1': p[0], 'p2': p[1], 'c1': c1, 'c2': c2, 'r1': rnd.choice(RADII), 'r2': rnd.choice(RADII),
            'k1': rnd.choice(['ship', 'drone', 'fighter']), 'k2': rnd.choice(['ship', 'drone', 'fighter'])}


def _check_case(rep, case, impl, mline):
    """Compare one impl outcome with the model's line."""
    if mline == 'mismatch':
        if impl['get_ctc_range'] != 'mismatch' or impl['get_sts_range'] != 'mismatch':
            rep.disagree('range.guard', mline, impl, case)
        return None
    parts = mline.split()
    if parts[0] != 'ok':
        raise C.InfraError('driver said %r for %r' % (mline, case))
    spec_d2, gen_d2 = C.unq(parts[1]), C.unq(parts[2])
    if spec_d2 != gen_d2:
        rep.disagree('range.generated-vs-spec', str(spec_d2), str(gen_d2), case)
    got = impl['get_ctc_range']
    if not isinstance(got, (int, float)) or not C.close(got * got, float(spec_d2), rel=1e-9, abs_=1e-18):
        rep.disagree('range.ctc', 'sqrt(%s)' % spec_d2, got, case)
    return spec_d2


def correspondence(ctx):
    rep = ctx.report
    rep.rules.append(RULE)
    ch, types, ss, ss2 = _world()
    cases = []
    # exhaustive placement table first
    for p1 in range(4):
        for p2 in range(4):
            cases.append({'p1': p1, 'p2': p2, 'c1': (1, 2, 3), 'c2': (-1, 0.5, 7), 'r1': 1, 'r2': None,
                          'k1': 'ship', 'k2': 'drone'})
    for _ in range(ctx.n(1500, 30000)):
        cases.append(_gen_case(ctx.rnd))
    lines = ['ctc %d %d %s' % (c['p1'], c['p2'], ' '.join(C.q(v) for v in c['c1'] + c['c2'])) for c in cases]
    outs = C.run_driver('drv_range', '\n'.join(lines) + '\n')
    if len(outs) != len(cases):
        raise C.InfraError('driver returned %d lines for %d cases' % (len(outs), len(cases)))
    sts_cases = []
    for case, mline in zip(cases, outs):
        impl = _impl_case(case, ss, ss2, types)
        d2 = _check_case(rep, case, impl, mline)
        nontrivial = case['p1'] == 0 and case['p2'] == 0 and case['c1'] != case['c2']
        rep.case(sig=(case['p1'], case['p2'], case['c1'], case['c2'], case['r1'], case['r2']) if nontrivial else None,
                 sample=case, kind='placement-%d%d' % (case['p1'], case['p2']))
        if d2 is not None:
            sts_cases.append((case, impl, math.sqrt(float(d2))))
    # sts through the generated formula, fed with the impl's own ctc (exact ratio), radii from the types
    lines = ['sts %s %s %s' % (C.q(i['get_ctc_range']), C.q(c['r1'] or 0), C.q(c['r2'] or 0))
             for c, i, _ in sts_cases if isinstance(i['get_ctc_range'], (int, float))]
    outs = C.run_driver('drv_range', '\n'.join(lines) + '\n') if lines else []
    k = 0
    for c, i, d in sts_cases:
        if not isinstance(i['get_ctc_range'], (int, float)):
            continue
        m = float(C.unq(outs[k].split()[1]))
        k += 1
        if not isinstance(i['get_sts_range'], (int, float)) or not C.close(i['get_sts_range'], m, abs_=1e-9):
            rep.disagree('range.sts', m, i['get_sts_range'], c)
        rep.dist['sts-clamped' if m == 0 else 'sts-positive'] += 1


def oracle(ctx):
    """Metric laws on the real code (support for the search; never the proof)."""
    rep = ctx.report
    from eos import Fit
    ch, types, ss, ss2 = _world()
    rnd = ctx.sub_rnd('oracle')
    for n in range(ctx.n(300, 6000)):
        cs = [_gen_case(rnd) for _ in range(2)]
        pts = [cs[0]['c1'], cs[0]['c2'], cs[1]['c1']]
        rs = [cs[0]['r1'], cs[0]['r2'], cs[1]['r1']]
        items = [_place(0, ss, ss2, (lambda i=i: _mk(cs[0]['k1'], types[rs[i]], pts[i]))) for i in range(3)]
        case = {'points': pts, 'radii': rs}
        try:
            d = [[ss.get_ctc_range(a, b) for b in items] for a in items]
            s = [[ss.get_sts_range(a, b) for b in items] for a in items]
        except Exception as e:
            rep.violate('range query raised %s for items of this solar system' % type(e).__name__, case)
            d = None
        if d is not None:
            scale = max(1.0, max(max(r) for r in d))
            tol = 1e-9 * scale
            for i in range(3):
                if d[i][i] != 0:
                    rep.violate('ctc(p,p) != 0', case)
                for j in range(3):
                    exp = math.sqrt(sum((pts[i][k] - pts[j][k]) ** 2 for k in range(3)))
                    if abs(d[i][j] - exp) > tol:
                        rep.violate('ctc differs from Euclidean distance: %r vs %r' % (d[i][j], exp), case)
                    if abs(d[i][j] - d[j][i]) > tol:
                        rep.violate('ctc not symmetric', case)
                    es = max(0, exp - (rs[i] or 0) - (rs[j] or 0))
                    if abs(s[i][j] - es) > tol or s[i][j] < 0:
                        rep.violate('sts %r differs from max(0, d - r1 - r2) = %r' % (s[i][j], es), case)
                    for k in range(3):
                        if d[i][k] > d[i][j] + d[j][k] + tol:
                            rep.violate('triangle inequality fails', case)
        for it in items:
            ss.fits.remove(it._fit)
        rep.case(sig=('triple', tuple(pts)) if len(set(pts)) == 3 else None, kind='oracle-triple')
    # placement rejection, all 16 pairs, every in-space class
    from eos.solar_system.exception import ItemSolarSystemMismatchError
    for p1 in range(4):
        for p2 in range(4):
            case = {'p1': p1, 'p2': p2, 'c1': (0, 0, 0), 'c2': (3, 4, 0), 'r1': None, 'r2': None, 'k1': 'fighter', 'k2': 'ship'}
            out = _impl_case(case, ss, ss2, types)
            want_ok = (p1 == 0 and p2 == 0)
            for name, v in out.items():
                if want_ok and not isinstance(v, (int, float)):
                    rep.violate('%s rejects two items of this solar system: %s' % (name, v), case)
                if not want_ok and v != 'mismatch':
                    rep.violate('%s accepts items not both in this solar system: %s' % (name, v), case)
            rep.case(kind='oracle-placement')


def search(ctx, broken):
    ctx.tier = 'thorough'
    oracle(ctx)


def replay(path):
    data = json.load(open(C.VERIF / path if not str(path).startswith('/') else path))
    print(json.dumps(data, indent=1)[:4000])
    v = data.get('violation')
    if not v:
        print('replay names a broken obligation; re-run ./check C20 to re-check it')
        return 0
    ctx = C.Ctx(PID, 'quick', data.get('seed', 0))
    oracle(ctx)
    for x in ctx.report.violations[:3]:
        print('REPRODUCED:', x['what'])
    return 1 if ctx.report.violations else 0

LEVEL_TEXT = ('Lean theorems (Mathlib metric-space facts over the reals) about the range formulas that are '
              're-translated from solar_system.py on every run, plus the complete placement-guard table '
              'extracted by running the real method; correspondence on ~1.5k generated placements/coordinates.')
LEVEL_NOTE = ('Trusted: Lean kernel + 3 standard axioms; the AST translator for the two return expressions; '
              'math.sqrt and float rounding are not modelled (1e-9 tolerance); only in-space item classes.')
TECHNIQUE = 'Lean 4 proof over regenerated formula + exhaustive guard table (decide) + differential correspondence'
