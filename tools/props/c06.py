"""C06 - operations that raise leave the fit unchanged."""
import json

import common as C
from harness import containers as H

PID = 'C06'
GENERATORS = []
LEAN_TARGETS = ['EosProofs.Props.C06']
DRIVERS = ['drv_containers']
RULE = ('correspondence: exhaustive rack exploration (every ItemList call, all index shapes in [-3,5], own / foreign / '
        'wrong-class items and None, from every distinct state within the depth bound) and random histories with a 50 % '
        'malformed stream over racks, sets, skills, descriptors, charges, item dicts, solar systems, fleet, damage '
        'profiles; complete state dumps of impl and model compared after every call, the exception class included. '
        'Non-trivial = the call raised or follows an earlier call; distinct by (last 3 ops, outcome) resp. (state, op). '
        'Oracle: on real fits in solar systems with a live source the full public observation (containers, owners, '
        'attribute values, running effects, autocharges, statistics, validation verdicts) is taken before and after '
        'every raising call and must be equal; rejected free items are then added where they belong.'
        ' Also: a designed world where module<->charge (`other` domain), ship-domain and item/ship modifiers are all present and every value is cached: rejected charge / ship / stance assignments must leave every attribute unchanged; the malformed stream of the calculator worlds includes charges that sit in another module and removal from a fleet the fit is not in.')
ASSUMPTIONS = [
    'attribute values, statistics and validation verdicts are not part of the model state: they are functions of the '
    'configuration (C01/C03/C04) and are compared on the real code by the impl-level oracle only',
    'exceptions other than TypeError/ValueError/KeyError/IndexError/SlotTakenError (internal errors) are outside the statement',
]
CLAUSES = {
    'a raising container / fit-set / damage-profile call leaves container contents and order, item ownership, '
    'fit membership unchanged (all index shapes, own and foreign items, duplicate type ids and keys)':
        'proved for every reachable world and every operation (error_preserves_state, error_preserves_obs; '
        'method-by-method: insert_owned_rollback, place_taken, readd_own_set, assign_owned_restores_old, ssAdd_placed, '
        'flAdd_placed, setDmg_nonprofile)',
    'a rejected item remains usable elsewhere': 'proved (rejected_item_reusable, rejected_free_item_addable)',
    'attribute values, statistics and validation verdicts are what they were before the call':
        'explored on impl only (full observation before/after every raising call of the oracle histories)',
    'the Python code behaves as the model': 'correspondence only',
}
LEVEL_TEXT = ('Lean theorem "error => state unchanged" for every operation of a model that mirrors optimistic insert + '
              'roll-back, for all reachable worlds; differential correspondence with a 50 % malformed stream; impl-level '
              'before/after observation of everything public around each raising call.')
LEVEL_NOTE = 'Trusted: Lean kernel + 3 standard axioms; harness canonicalisation; values/stats/validation are checked on impl only.'
TECHNIQUE = 'Lean 4 proof over a roll-back-faithful model + differential correspondence + impl-level before/after oracle'

WEIRD_INDICES = [None, 'x', 1.5, 2.0, -1.0, True]


def _diff(a, b):
    return {k: (a.get(k), b.get(k)) for k in sorted(set(a) | set(b)) if a.get(k) != b.get(k)}


def _home(w, i):
    """An operation that puts free item i where its class belongs (None for classes without a free place)."""
    cls = w.cls[i]
    if cls in H.RACK_CLS:
        return ('equip', 0, H.RACK_CLS.index(cls), i)
    if cls in H.SET_CLS:
        return ('setAdd', 0, H.SET_CLS.index(cls), i)
    if cls in H.SLOT_CLS:
        return ('assignFit', 1, H.SLOT_CLS.index(cls), i)
    return None


def fresh_world():
    w = H.World()
    for f in range(len(w.fits)):
        w.apply(('ssAdd', f % len(w.ss), f))
    return w


def run_history(ops, rep):
    """Re-execute a history (model-protocol ops only) on a fresh world; report raising calls that change the world."""
    w = fresh_world()
    done = []
    for op in ops:
        before = w.full_observation()
        out = w.apply(op)
        done.append(op)
        if out != 'ok':
            d = _diff(before, w.full_observation())
            if d:
                rep.violate('%s raised (%s) and changed the world: %s' % (H.World.line(op), out, ', '.join(d)),
                            {'history': [H.World.line(o) for o in done], 'op': H.World.line(op), 'outcome': out, 'changed': d})
                return True
    return False


def oracle_history(rep, rnd, length, stats):
    w = fresh_world()
    g = H.Gen(w, rnd, 0.5)
    ops = []
    for _ in range(length):
        if rnd.random() < 0.04:
            # index objects that are no integers (executed on impl only)
            f, r = rnd.randrange(len(w.fits)), rnd.randrange(3)
            idx = rnd.choice(WEIRD_INDICES)
            free = [i for i in w.ids if w.cls[i] == H.RACK_CLS[r] and getattr(w.obj[i], '_container', None) is None]
            v = w.obj[rnd.choice(free)] if free and rnd.random() < 0.7 else None
            meth = rnd.choice(['insert', 'place', 'remove', 'free'])
            before = w.full_observation()
            try:
                getattr(w.rack(f, r), meth)(*((idx, v) if meth in ('insert', 'place') else (idx,)))
                out = 'ok'
            except Exception as e:
                out = 'raised ' + type(e).__name__
            ops.append(('impl-only: R%d.%d.%s(%r, %s)' % (f, r, meth, idx, w.sid(v)),))
            if out != 'ok':
                stats['raising'] += 1
                d = _diff(before, w.full_observation())
                if d:
                    rep.violate('%s on a non-integer index changed the world' % out,
                                {'history': [H.World.line(o) for o in ops], 'changed': d})
            continue
        op, tag = g.op()
        before = w.full_observation()
        out = w.apply(op)
        ops.append(op)
        rep.dist['oracle.' + ('raising' if out != 'ok' else 'ok')] += 1
        if out == 'ok':
            continue
        stats['raising'] += 1
        rep.dist['oracle.raise.' + tag] += 1
        case = {'history': [H.World.line(o) for o in ops], 'op': H.World.line(op), 'outcome': out}
        if out.startswith('raises:'):
            rep.violate('internal error %s from %s' % (out, H.World.line(op)), case)
        d = _diff(before, w.full_observation())
        if d:
            case['changed'] = d
            rep.violate('%s raised (%s) and changed the world: %s' % (H.World.line(op), out, ', '.join(d)), case)
            model_ops = [o for o in ops if len(o) > 1]
            small = H.shrink(model_ops, lambda cand: run_history(cand, C.Report()))
            fresh = C.Report()
            if run_history(small, fresh):
                rep.violations[:] = fresh.violations + rep.violations
            return w
        # a rejected item that is free must still be usable where it belongs
        v = op[-1]
        if isinstance(v, int) and op[0] not in ('removeIdx', 'freeIdx', 'tuDel', 'dictDel', 'ssAdd', 'ssRemove', 'flAdd', 'flRemove') \
                and v in w.cls and w.cls[v] != 'Other' and getattr(w.obj[v], '_container', None) is None and rnd.random() < 0.5:
            home = _home(w, v)
            if home is not None:
                out2 = w.apply(home)
                ops.append(home)
                stats['reuse'] += 1
                if out2 != 'ok':
                    rep.violate('item %d rejected by %s cannot be used afterwards: %s -> %s' % (v, H.World.line(op), H.World.line(home), out2),
                                {'history': [H.World.line(o) for o in ops]})
        rep.case(sig=(tuple(ops[-3:]), out), kind=None)
    return w


def correspondence(ctx):
    rep = ctx.report
    rep.rules.append(RULE)
    depth = ctx.n(3, 5)
    states, steps, seen = H.exhaustive_rack(rep, depth, 'C06.exhaustive-rack')
    rep.exhaustive = {'what': 'every ItemList call (raising ones included) from every distinct rack state reachable in < %d calls' % depth,
                      'states_expanded': states, 'calls_compared': steps, 'distinct_states_seen': seen,
                      'raising_calls': sum(v for k, v in rep.dist.items() if k.startswith('exh.') and not k.endswith('.ok'))}
    rep.evaluations += steps
    rep.nontrivial.update(('exh', k) for k in range(steps))
    H.random_histories(rep, ctx.rnd, ctx.n(100, 2000), 60, 0.5, 'C06.random-history')


def oracle(ctx):
    rep = ctx.report
    rnd = ctx.sub_rnd('oracle')
    stats = {'raising': 0, 'reuse': 0}
    for h in range(ctx.n(50, 800)):
        oracle_history(rep, rnd, 60, stats)
        if rep.violations:
            break
    if not rep.violations:
        # every raising ItemList call from every small rack state, with the full observation
        def on_step(w, before, op, out, ops):
            if out is None:
                return w.full_observation()
            if out != 'ok':
                stats['raising'] += 1
                d = _diff(before, w.full_observation())
                if d:
                    rep.violate('%s raised (%s) and changed the world: %s' % (H.World.line(op), out, ', '.join(d)),
                                {'history': [H.World.line(o) for o in ops], 'changed': d,
                                 'note': 'exhaustive exploration: pool EX_POOL, both fits in solar system 0, fit 1 holds item 3'})
            return None
        H.exhaustive_rack(C.Report(), 2, 'oracle', on_step=on_step)
    rep.dist['oracle.raising-calls-observed'] += stats['raising']
    rep.dist['oracle.rejected-items-reused'] += stats['reuse']
    _calculator_worlds(ctx, rep)
    _rollback_relations(rep)


def _calculator_worlds(ctx, rep):
    """Raising calls in worlds with a rich dogma universe (hull bonuses on the ship itself, charge <-> module
    modifiers, projected effects): the attribute values, running effects, statistics and validation verdicts of
    EVERY item must be what they were before the call (a roll-back that re-adds an item while the slot still
    points at the rejected one loses exactly such modifiers)."""
    from harness import world as W
    from harness import worldcorr as WC
    from props import _worldfam as F
    for pname in ('projheavy', 'basic', 'fleetheavy'):
        p = dict(F.PARAM_SETS[pname], malformed=0.5, nsteps=50)
        base = ctx.sub_rnd('calc-worlds', pname).randrange(10 ** 9)
        for k in range(ctx.n(12, 300)):
            seed = base + k
            rnd, w = WC.make_world(seed, p)
            gen = W.OpGen(rnd, p)
            done = []
            while len(done) < p['nsteps']:
                for op in gen.next(w):
                    try:
                        before = (w.observe(), W.observe_stats(w))
                    except ZeroDivisionError:
                        before = None
                    try:
                        out = w.apply(op)
                    except Exception as e:
                        out = 'raises:' + type(e).__name__
                    done.append(op)
                    rep.dist['calc-world-%s' % ('raising' if out != 'ok' else 'ok')] += 1
                    if out == 'ok' or before is None:
                        continue
                    try:
                        after = (w.observe(), W.observe_stats(w))
                    except ZeroDivisionError:
                        continue
                    bad = F.equal_obs(before[0][0], after[0][0])
                    sbad = [k2 for k2 in before[1] if not W.flat_equal(before[1][k2], after[1].get(k2))]
                    if bad or before[0][1] != after[0][1] or sbad:
                        rep.violate('%s raised %s and changed the world: values %r stats %r' % (op[0], out, bad[:2], sbad[:2]),
                                    dict(F.case_of(seed, pname, done), oracle='before/after around a raising call'))
                        break
                else:
                    continue
                break
            rep.case(sig=('calc-world', pname, seed), kind='calc-world-' + pname)


def _rollback_relations(rep):
    """Designed world for the roll-back of rejected single-slot assignments: modifiers that resolve their affectee
    through the holder (`other` domain module <-> charge, ship-domain and item/ship modifiers of modules) are all
    present, every value is read before, and each rejected call (a charge that sits in another module, a ship / stance
    of another fit) must leave every attribute of every item as it was."""
    from eos import Charge, Fit, ModuleHigh, Ship, SolarSystem, Stance, State
    from eos.const.eos import ModAffecteeFilter, ModAggregateMode, ModDomain, ModOperator
    from eos.const.eve import EffectCategoryId
    from eos.eve_obj.modifier import DogmaModifier
    from harness import mem
    ch = mem.MemCache()
    a, b = ch.mkattr(stackable=True), ch.mkattr(stackable=True)

    def eff(filt, dom, cat=EffectCategoryId.passive):
        return ch.mkeffect(category_id=cat, modifiers=(DogmaModifier(
            affectee_filter=filt, affectee_domain=dom, affectee_attr_id=a.id, operator=ModOperator.post_percent,
            aggregate_mode=ModAggregateMode.stack, affector_attr_id=b.id),))
    e_other = eff(ModAffecteeFilter.item, ModDomain.other)
    e_ship = eff(ModAffecteeFilter.item, ModDomain.ship)
    e_dom = eff(ModAffecteeFilter.domain, ModDomain.ship)
    e_self = eff(ModAffecteeFilter.item, ModDomain.self)
    modt = ch.mktype(attrs={a.id: 10, b.id: 50}, effects=[e_other, e_ship])
    chgt = ch.mktype(attrs={a.id: 10, b.id: 20}, effects=[e_other])
    shipt = ch.mktype(attrs={a.id: 100, b.id: 10}, effects=[e_dom, e_self])
    stt = ch.mktype(attrs={a.id: 5, b.id: 30}, effects=[e_ship])
    # leaving a fleet the fit is not in: KeyError, and the boost it gets in its own fleet stays
    from eos import Fleet
    from eos.const.eve import AttrId, EffectId
    from eos.eve_obj.buff_template import WarfareBuffTemplate
    for aid in (AttrId.warfare_buff_1_id, AttrId.warfare_buff_1_value):
        ch.mkattr(attr_id=aid)
    ch.buffs[7] = {WarfareBuffTemplate(buff_id=7, affectee_filter=ModAffecteeFilter.item, affectee_attr_id=a.id,
                                       operator=ModOperator.post_percent, aggregate_mode=ModAggregateMode.maximum)}
    burst = ch.mkeffect(effect_id=EffectId.module_bonus_warfare_link_armor, category_id=EffectCategoryId.active)
    burst_t = ch.mktype(attrs={AttrId.warfare_buff_1_id: 7, AttrId.warfare_buff_1_value: 20}, effects=[burst], default_effect=burst)
    plain_ship = ch.mktype(attrs={a.id: 100, b.id: 10})
    ss = SolarSystem(source=mem.source(ch))
    f, g = Fit(solar_system=ss), Fit(solar_system=ss)
    f.ship, g.ship = Ship(plain_ship.id), Ship(plain_ship.id)
    fl_a, fl_b = Fleet(), Fleet()
    fl_a.fits.add(f)
    fl_a.fits.add(g)
    f.modules.high.append(ModuleHigh(burst_t.id, state=State.active))
    before = (f.ship.attrs[a.id], g.ship.attrs[a.id], g.fleet is fl_a, len(fl_a.fits))
    try:
        fl_b.fits.remove(g)
        rep.violate('removing a fit from a fleet it is not in did not raise', {'designed': 'fleet'})
    except KeyError:
        after = (f.ship.attrs[a.id], g.ship.attrs[a.id], g.fleet is fl_a, len(fl_a.fits))
        rep.case(kind='oracle-rollback-relations', sig=('rollback-relations', 'fleet'))
        if before != after:
            rep.violate('rejected removal from a foreign fleet raised KeyError and changed the world: %r -> %r' % (before, after),
                        {'designed': 'fleet'})
    for case in ('charge', 'ship', 'stance'):
        ss = SolarSystem(source=mem.source(ch))
        f, g = Fit(solar_system=ss), Fit(solar_system=ss)
        f.ship, g.ship = Ship(shipt.id), Ship(shipt.id)
        f.stance, g.stance = Stance(stt.id), Stance(stt.id)
        m1, m2 = ModuleHigh(modt.id, state=State.online), ModuleHigh(modt.id, state=State.online)
        m1.charge, m2.charge = Charge(chgt.id), Charge(chgt.id)
        f.modules.high.append(m1)
        f.modules.high.append(m2)
        items = [f.ship, g.ship, f.stance, g.stance, m1, m2, m1.charge, m2.charge]

        def obs():
            return [(k, it.attrs[a.id], sorted(it._running_effect_ids), it._is_loaded) for k, it in enumerate(items)]
        before = obs()
        try:
            if case == 'charge':
                m2.charge = m1.charge
            elif case == 'ship':
                f.ship = g.ship
            else:
                f.stance = g.stance
            rep.violate('assigning the %s of another holder did not raise' % case, {'designed': case})
            continue
        except ValueError:
            pass
        after = obs()
        rep.case(kind='oracle-rollback-relations', sig=('rollback-relations', case))
        if before != after:
            rep.violate('rejected %s assignment raised ValueError and changed the world: %r' % (
                case, [(x, y) for x, y in zip(before, after) if x != y][:3]), {'designed': case})


def search(ctx, broken):
    ctx.tier = 'thorough'
    oracle(ctx)


def replay(path):
    data = json.load(open(C.VERIF / path if not str(path).startswith('/') else path))
    print(json.dumps(data, indent=1)[:4000])
    v = data.get('violation')
    if not v:
        print('replay names a broken obligation; re-run ./check C06 to re-check it')
        return 0
    case = v['case']
    if 'designed' in case:
        rep = C.Report()
        _rollback_relations(rep)
        for x in rep.violations:
            print('REPRODUCED:', x['what'])
        return 1 if rep.violations else 0
    if 'ops' in case:
        from props import _worldfam as F
        return F.generic_replay(PID, path)
    exh = 'note' in case
    w = H.World(pool=H.EX_POOL, nfits=2, nss=1, nfl=0, nholders=0) if exh else H.World()
    pre = [('ssAdd', 0, 0), ('ssAdd', 0, 1), ('append', 1, 0, 3)] if exh else [('ssAdd', f % 2, f) for f in range(2)]
    for op in pre:
        w.apply(op)
    bad = 0
    for line in case['history']:
        if line.startswith('impl-only'):
            print('%-40s (impl-only step, not replayed)' % line)
            continue
        op = H.parse_line(line)
        before = w.full_observation()
        out = w.apply(op)
        d = _diff(before, w.full_observation()) if out != 'ok' else {}
        print('%-28s -> %s%s' % (line, out, '   CHANGED: ' + ', '.join(d) if d else ''))
        bad += bool(d)
    if bad:
        print('REPRODUCED: a raising call changed the world')
    return 1 if bad else 0
