"""C07 - containers keep ownership and ordering invariants."""
import json

import common as C
from harness import containers as H

PID = 'C07'
GENERATORS = []
LEAN_TARGETS = ['EosProofs.Props.C07']
DRIVERS = ['drv_containers']
RULE = ('correspondence: (1) exhaustive, every call of every ItemList method (3 free items, a foreign item, a wrong-class '
        'item, None; every index in [-3,5]) from every distinct rack state reachable within the depth bound, complete '
        'state dumps of impl and model compared after each call; (2) random histories of 60 mostly-valid operations '
        '(35 % malformed) over 39 real items / 2 fits in solar systems with a live source / racks, sets, skills, '
        'descriptors, charges, item dicts, compared step by step (contents, order, holes, len, items() views, in, _container, _fit). '
        'Non-trivial = the step raised or follows at least one earlier step; distinct by (last 3 ops, outcome) resp. '
        '(state, op). Oracle: abstract list/set/dict shadow and I4 checked on the real objects after every step.')
ASSUMPTIONS = [
    'item dicts are exercised on holder modules that are not on a fit (the autocharge path of a loaded item is covered by the C06 oracle)',
    'theorems are about the model; the model is tied to the code by the differential run only (no generated obligation)',
]
CLAUSES = {
    'an item belongs to at most one place; membership, item._container and item._fit agree':
        'proved for every history (ownership_inv, at_most_one_place, once_in_place, owner_agrees, fit_agrees, unowned_no_fit)',
    'racks behave as the list with holes: equip fills the first hole; place/insert/free/remove keep relative order '
    'and, except insert/remove shifting, positions; no trailing holes':
        'proved (place_refines, equip_refines, append_refines, insert_refines, freeIdx/freeVal_refines, '
        'removeIdx/removeVal_refines, clear_refines, rack_order_kept, other_racks_untouched, no_trailing_holes, length_is_bound)',
    'type-unique sets hold one item per type id with key lookup agreeing with contents':
        'proved (typeUnique_one_per_type, typeUnique_lookup, typeUnique_add_refines, typeUnique_remove_refines)',
    'sets, dicts, single-item descriptors refine abstract sets / maps':
        'proved (set_add/remove/clear_refines, dict_agrees, dict_set/del_refines, single_refines)',
    'lengths, iteration and item views agree with the same abstract model': 'proved (rack_views_agree, set_views_agree, dict_agrees)',
    'the Python code behaves as the model': 'correspondence only (exhaustive rack exploration + random histories)',
}
LEVEL_TEXT = ('Lean theorems over a hand-written model of the container classes, for all operation histories; the model is '
              'tied to the code by an exhaustive differential exploration of the rack methods and random histories.')
LEVEL_NOTE = 'Trusted: Lean kernel + 3 standard axioms; harness canonicalisation; the model is a faithful reading only as far as the differential run observed.'
TECHNIQUE = 'Lean 4 proof (invariant by induction over histories, refinement of an abstract list-with-holes) + differential correspondence'


# ---------------------------------------------------------------- abstract shadow (impl-level oracle)
def _strip(l):
    l = list(l)
    while l and l[-1] is None:
        l.pop()
    return l


def _from_map(m):
    return _strip([m.get(k) for k in range(max(m) + 1)]) if m else []


def expected_rack(pre, op):
    """Abstract list-with-holes: what the rack must be after a successful call (None = call must not succeed)."""
    k, a = op[0], op[3:]
    m = {p: x for p, x in enumerate(pre) if x is not None}
    n = len(pre)
    if k == 'clear':
        return []
    if k in ('place', 'equip', 'append'):
        v = a[-1]
        if v is None:
            return None
        if k == 'place':
            p = a[0] if a[0] >= 0 else n + a[0]
            if p < 0 or p in m:
                return None
        elif k == 'equip':
            p = next(q for q in range(n + 1) if q not in m)
        else:
            p = n
        m[p] = v
        return _from_map(m)
    if k == 'insert':
        p = a[0] if a[0] >= 0 else max(n + a[0], 0)
        new = {q: x for q, x in m.items() if q < p}
        new.update({q + 1: x for q, x in m.items() if q >= p})
        if a[1] is not None:
            new[p] = a[1]
        return _from_map(new)
    if k in ('freeIdx', 'removeIdx'):
        p = a[0] if a[0] >= 0 else n + a[0]
        if not 0 <= p < n:
            return None
    else:
        if a[0] not in pre:
            return None
        p = pre.index(a[0])
    if k.startswith('free'):
        m.pop(p, None)
        return _from_map(m)
    return _from_map({(q if q < p else q - 1): x for q, x in m.items() if q != p})


def check_invariants(w, rep, case):
    """I4 and the view laws on the real objects."""
    pl = w.places()
    where = {}
    for name, content in pl.items():
        for x in content:
            if x is None:
                continue
            if x in where:
                rep.violate('item %s is in two places: %s and %s' % (x, where[x], name), case)
            where[x] = name
    for i in w.ids:
        ref, fx = w.owner(i)
        at = where.get(i)
        want = '-' if at is None else 'F' + at[1:].split('.')[0] if at[0] == 'D' else 'I' + at[1:] if at[0] in 'CA' else at
        if ref != want:
            rep.violate('item %s is in %s but item._container says %s' % (i, at, ref), case)
        host = at
        while host is not None and host[0] in 'CA':
            host = where.get(int(host[1:]))
        wantf = 'N' if host is None else host[1:].split('.')[0]
        if fx != wantf:
            rep.violate('item %s is in %s but item._fit resolves to %s' % (i, at, fx), case)
    for f, fit in enumerate(w.fits):
        for r in range(3):
            rack = w.rack(f, r)
            lst = list(rack)
            if lst and lst[-1] is None:
                rep.violate('rack R%d.%d ends in a hole: %s' % (f, r, [w.sid(x) for x in lst]), case)
            view = rack.items()
            items = [x for x in lst if x is not None]
            if len(rack) != len(lst) or list(view) != items or len(view) != len(items):
                rep.violate('rack R%d.%d: len / items() view disagree with iteration' % (f, r), case)
            if any((o in rack) != (o in lst) or (o in view) != (o in items) for o in list(w.obj.values()) + [None]):
                rep.violate('rack R%d.%d: `in` disagrees with iteration' % (f, r), case)
            for p, x in enumerate(lst):
                if x is not None and rack.index(x) != p or rack[p] is not x:
                    rep.violate('rack R%d.%d: index()/[] disagree with iteration' % (f, r), case)
        allv = fit.modules.items()
        allm = [x for r in range(3) for x in w.rack(f, r) if x is not None]
        if list(allv) != allm or len(allv) != len(allm) or any((o in allv) != any(o is x for x in allm) for o in list(w.obj.values()) + [None]):
            rep.violate('fit %d: modules.items() view disagrees with the three racks' % f, case)
        for k in range(6):
            st = w.set_(f, k)
            got = list(st)
            if len(st) != len(got) or len(set(map(id, got))) != len(got) or any((o in st) != any(o is g for g in got) for o in w.obj.values()):
                rep.violate('set S%d.%d: len / in / iteration disagree' % (f, k), case)
        sk = fit.skills
        got = list(sk)
        tids = [x._type_id for x in got]
        if len(set(tids)) != len(tids):
            rep.violate('skills K%d hold two items of one type id: %s' % (f, sorted(tids)), case)
        if len(sk) != len(got):
            rep.violate('skills K%d: len disagrees with iteration' % f, case)
        for t in w.skill_tids:
            holder = [x for x in got if x._type_id == t]
            try:
                hit = sk[t]
            except KeyError:
                hit = None
            if (hit is None) != (not holder) or (holder and hit is not holder[0]) or (t in sk) != bool(holder):
                rep.violate('skills K%d: lookup of type id %d disagrees with contents' % (f, t), case)
    for m, d in w.dicts.items():
        vals = list(d.values())
        if len(d) != len(vals) or sorted(d.keys()) != sorted(k for k, _ in d.items()) or any(d[k] is not v or d.get(k) is not v or k not in d for k, v in d.items()):
            rep.violate('dict A%d: keys / values / len disagree' % m, case)


def k0(op):
    return H.World.line(op)


def make_checker(rep, stats, exhaustive=False):
    """on_step hook: snapshot places before, after a successful call compare with the abstract shadow."""
    def on_step(w, before, op, out, ops):
        if out is None:
            return w.places()
        case = {'history': [H.World.line(o) for o in ops], 'op': H.World.line(op), 'outcome': out}
        if exhaustive:
            case['note'] = 'exhaustive exploration: pool EX_POOL, fit 1 holds item 3; the history is the shortest path to the state plus the call'
        stats['steps'] += 1
        after = w.places()
        check_invariants(w, rep, case)
        if out != 'ok':
            # a call that raises is no move of the abstract model
            moved = [n for n in after if after[n] != before[n]]
            if moved:
                rep.violate('%s raised (%s) yet moved items in %s: %s -> %s' % (
                    k0(op), out, moved[0], before[moved[0]], after[moved[0]]), case)
            return None
        k = op[0]
        target = None
        if k in ('insert', 'append', 'place', 'equip', 'removeIdx', 'removeVal', 'freeIdx', 'freeVal', 'clear'):
            target = 'R%d.%d' % (op[1], op[2])
            want = expected_rack(before[target], op)
            if want is None:
                rep.violate('%s succeeded where the list-with-holes has no such move (rack before: %s)' % (k, before[target]), case)
            elif after[target] != want:
                rep.violate('%s: rack is %s, list-with-holes says %s (before: %s)' % (k, after[target], want, before[target]), case)
        elif k in ('setAdd', 'setRemove', 'setClear', 'tuAdd', 'tuRemove', 'tuDel', 'tuClear', 'dictSet', 'dictDel', 'dictClear'):
            target = ('S%d.%d' % (op[1], op[2])) if k.startswith('set') else ('K%d' % op[1]) if k.startswith('tu') else 'A%d' % op[1]
            pre = set(before[target])
            if k.endswith('Clear'):
                want = set()
            elif k in ('setAdd', 'tuAdd', 'dictSet'):
                want = pre | {op[-1]}
                if op[-1] in pre or op[-1] is None:
                    rep.violate('%s succeeded for an item already there / None' % k, case)
            elif k == 'tuDel':
                want = {x for x in pre if w.tid[x] != op[2]}
            elif k == 'dictDel':
                want = set(after[target])
                if len(want) != len(pre) - 1 or not want < pre:
                    rep.violate('dictDel did not remove exactly one item', case)
            else:
                want = pre - {op[-1]}
            if set(after[target]) != want or len(after[target]) != len(want):
                rep.violate('%s: container holds %s, abstract set says %s' % (k, after[target], sorted(want)), case)
        elif k in ('assignFit', 'assignCharge'):
            target = ('D%d.%d' % (op[1], op[2])) if k == 'assignFit' else 'C%d' % op[1]
            want = [] if op[-1] is None else [op[-1]]
            if after[target] != want:
                rep.violate('%s: slot holds %s, expected %s' % (k, after[target], want), case)
        for name in after:
            if name != target and after[name] != before[name]:
                rep.violate('%s on %s changed %s: %s -> %s' % (k, target, name, before[name], after[name]), case)
        return None
    return on_step


def correspondence(ctx):
    rep = ctx.report
    rep.rules.append(RULE)
    depth = ctx.n(3, 5)
    states, steps, seen = H.exhaustive_rack(rep, depth, 'C07.exhaustive-rack')
    rep.exhaustive = {'what': 'every ItemList call from every distinct rack state reachable in < %d calls' % depth,
                      'states_expanded': states, 'calls_compared': steps, 'distinct_states_seen': seen}
    rep.evaluations += steps
    rep.nontrivial.update(('exh', k) for k in range(steps))
    H.random_histories(rep, ctx.rnd, ctx.n(120, 2500), 60, 0.35, 'C07.random-history', fit_ops=False)


def fresh_world():
    w = H.World()
    for f in range(len(w.fits)):
        w.apply(('ssAdd', f % len(w.ss), f))
    return w


def run_history(ops, rep):
    """Re-execute a history on a fresh full-pool world under the checker; True if the property failed."""
    w = fresh_world()
    chk = make_checker(rep, {'steps': 0})
    done = []
    for op in ops:
        before = chk(w, None, op, None, None)
        out = w.apply(op)
        done.append(op)
        chk(w, before, op, out, done)
        if rep.violations:
            return True
    return False


def oracle(ctx):
    rep = ctx.report
    stats = {'steps': 0}
    chk = make_checker(rep, stats)
    rnd = ctx.sub_rnd('oracle')
    for h in range(ctx.n(60, 1200)):
        w = fresh_world()
        g = H.Gen(w, rnd, 0.3, fit_ops=False)
        ops = []
        for _ in range(60):
            op, tag = g.op()
            before = chk(w, None, op, None, None)
            out = w.apply(op)
            ops.append(op)
            chk(w, before, op, out, ops)
            if out.startswith('raises:'):
                rep.violate('internal error %s from a container call' % out, {'history': [H.World.line(o) for o in ops]})
            if rep.violations:
                break
        if rep.violations:
            small = H.shrink(ops, lambda cand: run_history(cand, C.Report()))
            fresh = C.Report()
            if run_history(small, fresh):
                rep.violations[:] = fresh.violations + rep.violations
            break
    if not rep.violations:
        H.exhaustive_rack(C.Report(), ctx.n(2, 3), 'oracle', on_step=make_checker(rep, stats, exhaustive=True))
    rep.dist['oracle.steps'] += stats['steps']


def search(ctx, broken):
    ctx.tier = 'thorough'
    oracle(ctx)


def replay(path):
    data = json.load(open(C.VERIF / path if not str(path).startswith('/') else path))
    print(json.dumps(data, indent=1)[:4000])
    v = data.get('violation')
    if not v:
        print('replay names a broken obligation; re-run ./check C07 to re-check it')
        return 0
    case = v['case']
    exh = 'note' in case
    w = H.World(pool=H.EX_POOL, nfits=2, nss=1, nfl=0, nholders=0) if exh else fresh_world()
    rep = C.Report()
    chk = make_checker(rep, {'steps': 0})
    for op in ([('ssAdd', 0, 0), ('ssAdd', 0, 1), ('append', 1, 0, 3)] if exh else []):
        w.apply(op)
    for line in case['history']:
        op = H.parse_line(line)
        before = chk(w, None, op, None, None)
        out = w.apply(op)
        chk(w, before, op, out, [op])
        print('%-28s -> %s' % (line, out))
    for x in rep.violations[:3]:
        print('REPRODUCED:', x['what'])
    return 1 if rep.violations else 0
