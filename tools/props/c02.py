"""C02 - attribute values follow the dogma modification rules exactly."""
import random

import common as C
from harness import calcdirect as CD
from harness import world as W
from harness import worldcorr as WC
from props import _worldfam as F

PID = 'C02'
GENERATORS = ['consts', 'affects_table', 'resist_table']
LEAN_TARGETS = ['EosProofs.Props.C02', 'EosProofs.Lemmas.AffectsTable', 'EosProofs.Lemmas.ResistTable']
DRIVERS = ['drv_world']
TRUSTED = F.WORLD_TRUSTED
RULE = ('stream 1: random modification multisets (all 10 operators + unknown ones, aggregate min/max groups with ties, '
        'resist factors incl. 0, immune/non-immune sources, penalised chains of length 2..13 around the 11-entry '
        'cut-off, caps, two-digit rounding; dyadic and decimal values) fed to the real MutableAttrMap.__calculate '
        'through stub objects and to the Lean `calculate`; non-trivial = at least one known-operator modification, '
        'distinct by the case tuple. stream 2: generated universes (every filter x domain x operator x aggregate mode, '
        'caps, resist, immunity) with worlds built FROM SCRATCH (mirror rebuild of a random configuration): every '
        '(item, attribute) value and running set vs the Lean spec.')
ASSUMPTIONS = ['float summation/rounding noise not modelled (1e-9 relative tolerance; exact rounding ties accepted either way and counted as fragile)']
CLAUSES = {
    'operator precedence, normalisation, penalty, aggregation, resist, cap, rounding': 'proved about Eos.Calc.calculate for all inputs (see theorem list); constants and normalisation lambdas regenerated from map.py and proved equal to the spec',
    'which modifications are gathered (filters x domains, projected, fleet)': (
        'declarative spec Eos.World.gather/affects*; tied to the code by correspondence on from-scratch worlds (and by C01 '
        'on histories); the selection functions (affectsLocal / affectsProjected / passesFilter / resolveDomain / others) are '
        'additionally tied by the regenerated complete table EosGen.AffectsTable (real code run on designed worlds: affector '
        'class x filter x domain x argument x affectee class x relation, and the projected twin), proved equal to the spec '
        'case by case for every modifier the library\'s own validation (_valid, regenerated per row) accepts: '
        'affects_table_matches_spec, affects_table_matches_spec_projected, affects_table_incremental_matches_spec (all rows), '
        'affects_table_complete; rows with rejected modifiers are pinned by affects_table_invalid_rows_observed; the '
        'resistance factor and its carrier (resistOf) and gather itself are tied by the regenerated table EosGen.ResistTable '
        '(projector class x resistance mode x target x filter x every item; every type has its own resistance value): '
        'resist_table_matches_spec, resist_table_gather_matches, resist_table_complete'),
    'an attribute without base and default value is absent': 'proved (absent_without_base) + correspondence',
}
LEVEL_TEXT = ('Lean theorems about the exact-rational calculation function (order independence, operator order, '
              'penalty, aggregation, cap, rounding) whose constants and normalisation formulas are regenerated from '
              'eos/calculator/map.py on every run; the function itself is tied to the code by a direct differential '
              'stream into MutableAttrMap.__calculate and by from-scratch worlds; which items a modifier selects '
              '(affectsLocal / affectsProjected) is tied by a complete decision table regenerated on every run by running '
              'the real calculator on designed worlds (45 484 cases) and checked equal to the spec by kernel evaluation; '
              'likewise the resistance factor and its carrier (resistOf, gather; 8 050 cases).')
LEVEL_NOTE = 'Trusted: kernel + std axioms; AST translation of the 10 normalisation lambdas; float arithmetic not modelled.'
TECHNIQUE = ('Lean 4 algebraic proofs over regenerated constants + regenerated selection table (decide +kernel) + '
             'differential correspondence of the calculation core')


def _direct(ctx, rep, n):
    rnd = ctx.sub_rnd('direct')
    cases = [CD.gen_case(rnd, i % 2 == 0) for i in range(n)]
    outs = C.run_driver('drv_world', '\n'.join(CD.line(c) for c in cases) + '\n')
    if len(outs) != len(cases):
        raise C.InfraError('calc driver answered %d of %d' % (len(outs), len(cases)))
    for c, o in zip(cases, outs):
        impl = CD.run_case(c)
        p = o.split()
        ok = False
        if p[0] == 'divzero':
            ok = impl == 'divzero'
            rep.dist['calc_divzero'] += 1
        elif p[0] == 'ok':
            m = C.unq(p[1])
            ok = not isinstance(impl, str) and C.close(float(m), impl)
            if not ok and len(p) > 2 and float(C.unq(p[2])) < 1e-7 and not isinstance(impl, str) \
                    and abs(float(m) - impl) < 0.0100001:
                ok = True
                rep.fragile += 1
        known = [m for m in c['mods'] if 1 <= m[0] <= 10]
        rep.case(sig=repr(c) if known else None, sample=c if rep.evaluations < 2 else None, kind='calc-direct')
        rep.dist['calc_mods_%d' % min(len(c['mods']), 13)] += 1
        if any(m[3] != 1 for m in c['mods']):
            rep.dist['calc_with_aggregate'] += 1
        if not ok:
            rep.disagree('calc:calculate', o, impl, c)


def _scratch(ctx, rep, n, label='scratch'):
    """From-scratch worlds: random configuration reached by a history, rebuilt fresh, compared with the spec."""
    for pname in ('basic', 'three-fits-decimal', 'fleet', 'fleetheavy', 'projheavy'):
        p = dict(F.PARAM_SETS[pname], nsteps=25)
        base = ctx.sub_rnd(label, pname).randrange(10 ** 9)
        for k in range(n):
            seed = base + k
            h = WC.run_history(seed, p, observe_prob=0)
            if h['crash']:
                continue
            w = h['world']
            try:
                n2, _ = W.rebuild(w)
            except ZeroDivisionError:
                continue
            lines = (n2.uni.lines() if n2.uni is not None else ['U']) + n2.snapshot_lines() + ['Q']
            ans = WC.split_answers(C.run_driver('drv_world', '\n'.join(lines) + '\n'))
            mv, mr = W.parse_model(ans[0])
            ties = [k2 for k2, v in mv.items() if k2[0] == 'unrounded'
                    and abs(abs(float(v) * 100 - round(float(v) * 100)) - 0.5) < 1e-7]
            iv, ir = n2.observe()
            W.coverage(n2, rep.dist)
            rep.case(sig=('scratch', pname, seed) if len(iv) > 20 else None, kind='scratch-' + pname)
            if ties:
                rep.fragile += 1
                continue
            for key, val in iv.items():
                if not W.same_value(mv.get(key, 'missing'), val):
                    case = dict(F.case_of(seed, pname, h['ops']), key=key, built='from scratch')
                    rep.disagree('L1:scratch-value', mv.get(key, 'missing'), val, case)
                    rep.violate('value of %r in a world built from scratch is %r, the dogma rules (Lean spec) give %s'
                                % (key, val, mv.get(key, 'missing')), dict(case, oracle='lean-spec'))
                    break
            for vid, r in ir.items():
                if mr.get(vid) != r:
                    rep.disagree('L1:scratch-running', mr.get(vid), r,
                                 dict(F.case_of(seed, pname, h['ops']), key=vid, built='from scratch'))
                    break


def correspondence(ctx):
    rep = ctx.report
    rep.rules.append(RULE)
    _direct(ctx, rep, ctx.n(6000, 150000))
    _scratch(ctx, rep, ctx.n(32, 640))


def _ref_eval(case):
    """Independent Python re-statement of the rules for single-operator cases (impl-level oracle)."""
    b = case['base']
    (op, v, r, agg, key, imm), = case['mods']
    f = {1: lambda: v, 2: lambda: b * (1 + (v - 1) * r), 3: lambda: b * (1 + (1 / v - 1) * r),
         4: lambda: b + v * r, 5: lambda: b - v * r, 6: lambda: b * (1 + (v - 1) * r),
         7: lambda: b * (1 + (v - 1) * r), 8: lambda: b * (1 + (1 / v - 1) * r),
         9: lambda: b * (1 + v / 100 * r), 10: lambda: v}
    if op in (1, 10):
        return v * r
    return f[op]()


def oracle(ctx):
    rep = ctx.report
    _selection(ctx, rep)
    _resistance(ctx, rep)
    rnd = ctx.sub_rnd('oracle')
    vals = [0.5, 2, 3, -1, 10, 1.5, 50, 0.25, 4, 100]
    for _ in range(ctx.n(600, 10000)):
        op = rnd.randint(1, 10)
        case = {'stackable': 1, 'hig': 1, 'base': rnd.choice(vals), 'cap': None, 'limited': 0,
                'mods': [(op, rnd.choice(vals), rnd.choice([1, 1, 0.5, 0]), 1, None, False)]}
        got = CD.run_case(case)
        want = _ref_eval(case)
        rep.case(kind='oracle-single-op')
        if isinstance(got, str) or not C.close(got, want):
            rep.violate('single %d-operator modification gives %r, rules say %r' % (op, got, want), case)
    # order independence on impl
    for _ in range(ctx.n(300, 5000)):
        case = CD.gen_case(rnd, True)
        a = CD.run_case(case)
        c2 = dict(case, mods=list(case['mods']))
        rnd.shuffle(c2['mods'])
        b = CD.run_case(c2)
        rep.case(kind='oracle-perm')
        same = (a == b) if isinstance(a, str) or isinstance(b, str) else C.close(a, b)
        if not same:
            rep.violate('value depends on the order of modifications: %r vs %r' % (a, b), {'a': case, 'b': c2})


def _selection_check(kind, k, w, snap, aid, tid, m, valid, ids, inc):
    """First item of one table row on which the real code left the Python re-statement of affectsLocal /
    affectsProjected: (case, message) or None.  `ids`: modified in the world built from scratch; `inc`: modified after
    every item was read and the effect was started / the target set afterwards; `valid`: the library's own verdict on
    the modifier (`_valid`).  A domain_group modifier without group argument that the validation rejects is outside
    the property's domain: judged on the incremental observation only."""
    from gen import affects_table as AT
    from harness import affects_ref as AR
    outside = AR.group_none_row(m) and not valid
    for x in snap[1]:
        want = AR.expected(snap, aid, tid, m, x)
        for how, got in (('built from scratch', x[0] in ids), ('effect started after all items were read', x[0] in inc)):
            if how == 'built from scratch' and outside:
                continue
            if want != got:
                case = {'affects_table': kind, 'class': k, 'world': w, 'modifier': list(m[:3]), 'modifier_valid': valid,
                        'affector': aid, 'target': tid, 'item': list(x), 'observation': how, 'selected_by_code': got,
                        'selected_by_spec': want, 'oracle': 'python re-statement of Eos.World.affects*'}
                return case, ('designed world (%s table, class %s, world %d, %s): item %r (kind %s, type %d) is %s by '
                              'modifier filter=%d domain=%d arg=%r of item %d, the specification says it is %s'
                              % ('local' if kind == 'L' else 'projected', AT.KINDS[k], w, how, x[0], AT.KINDS[x[1]], x[2],
                                 'modified' if got else 'NOT modified', m[0], m[1], m[2], aid,
                                 'selected' if want else 'not selected'))
    return None


def _selection(ctx, rep):
    """The regenerated selection table against the Python re-statement of affectsLocal / affectsProjected
    (harness/affects_ref.py).  The proof obligation is the Lean theorem over the same table; this names the case."""
    from gen import affects_table as AT
    from harness import affects_ref as AR
    for kind, table in zip('LP', AT.LAST or AT.tables()):
        for (k, w, snap, aid, tid, rows) in table:
            for m, valid, ids, inc in rows:
                if AR.group_none_row(m) and not valid:
                    rep.dist['selection_rows_invalid_group_filter_without_argument'] += 1
                rep.dist['selection_rows_%s' % ('valid_modifier' if valid else 'modifier_rejected_by_validation')] += 1
                rep.case(sig=('sel', kind, k, w, m[:3]), kind='selection-table-row')
                rep.dist['selection_items_%s' % ('local' if kind == 'L' else 'projected')] += len(snap[1])
                bad = _selection_check(kind, k, w, snap, aid, tid, m, valid, ids, inc)
                if bad:
                    rep.violate(bad[1], bad[0])


def _resistance(ctx, rep):
    """The regenerated resistance table against the Python re-statement of affectsProjected + resistOf
    (harness/affects_ref.py); the proof obligation is the Lean theorem over the same table, this names the case."""
    from gen import affects_table as AT
    from gen import resist_table as RT
    from harness import affects_ref as AR
    for (kp, mode, ti, snap, eff, aid, tid, rows) in (RT.LAST or RT.tables()):
        for m, valid, scr, inc in rows:
            rep.case(sig=('resist', kp, mode, ti, m[:3]), kind='resist-table-row')
            rep.dist['resist_items'] += len(snap[1])
            for x in snap[1]:
                want = AR.resist_expected(snap, eff, aid, tid, m, x)
                for how, obs in (('built from scratch', dict(scr)), ('target set after all items were read', dict(inc))):
                    got = obs.get(x[0])
                    if got != want:
                        case = {'resist_table': [kp, mode, ti], 'modifier': list(m[:3]), 'modifier_valid': valid,
                                'item': list(x), 'observation': how, 'factor_applied_by_code': str(got),
                                'factor_specified': str(want), 'oracle': 'python re-statement of Eos.World.resistOf'}
                        rep.violate('designed world (resistance table, projector %s, resistance attribute %s, target %d, '
                                    '%s): item %r (kind %s) gets resistance factor %s (None = not modified) from modifier '
                                    'filter=%d arg=%r, the specification says %s'
                                    % (AT.KINDS[kp], mode, tid, how, x[0], AT.KINDS[x[1]], got, m[0], m[2], want), case)
                        break
                else:
                    continue
                break


def search(ctx, broken):
    ctx.tier = 'thorough'
    oracle(ctx)
    F.mirror_oracle(ctx, ctx.report, ['basic', 'noswitch-projected'], 100, 'search')


def replay(path):
    import json
    p = C.VERIF / path if not str(path).startswith('/') else path
    v = json.load(open(p)).get('violation') or {}
    case = v.get('case') if isinstance(v, dict) else None
    if isinstance(case, dict) and 'affects_table' in case:
        from gen import affects_table as AT
        print(json.dumps(v, indent=1)[:3000])
        snap, aid, tid, m, valid, ids, inc = AT.observe(case['affects_table'], case['class'], case['world'],
                                                        tuple(case['modifier']))
        bad = _selection_check(case['affects_table'], case['class'], case['world'], snap, aid, tid, m, valid, ids, inc)
        print('re-executed:', bad[1] if bad else 'the real code agrees with the specification on this world')
        return 1 if bad else 0
    if isinstance(case, dict) and 'resist_table' in case:
        from gen import resist_table as RT
        from harness import affects_ref as AR
        print(json.dumps(v, indent=1)[:3000])
        kp, mode, ti = case['resist_table']
        snap, eff, aid, tid, m, valid, scr, inc = RT.observe(kp, mode, ti, tuple(case['modifier']))
        x = [i for i in snap[1] if i[0] == case['item'][0]][0]
        want = AR.resist_expected(snap, eff, aid, tid, m, x)
        got = [dict(scr).get(x[0]), dict(inc).get(x[0])]
        print('re-executed: factor applied by the code (from scratch, incremental) = %s, specified = %s' % (got, want))
        return 1 if any(g != want for g in got) else 0
    return F.generic_replay(PID, path)
