"""C12 - reactive armor hardener simulation obeys its adaptation law."""
import contextlib
import json
import logging
import math

import common as C
from harness import mem

PID = 'C12'
GENERATORS = ['rah_consts']
LEAN_TARGETS = ['EosProofs.Props.C12']
DRIVERS = ['drv_rah']
RULE = ('correspondence: histories of 6-14 operations on a real Fit (ship set/replaced/removed/unloadable, 1-3 RAH '
        'modules added/removed/state-switched incl. overload, RAH/default damage profile changes, implants modifying '
        'ship resonances / RAH resonances / shift amount / cycle time, partial and full reads) in four universes '
        '(stackable or stacking-penalised armor resonances x dyadic or decimal values), with MAX_SIMULATION_TICKS '
        'patched down in a share of histories to reach the no-loop averaging path; after every operation the '
        "simulator's stored-result flag, its hardener count and the ship's cached resonance attributes (L2) and at every "
        'read all four resonances of every hardener and of the ship (L1) are compared with the exact-rational model; '
        'plus a malformed stream (zero/absent cycle time, absent/zero shift, resonance sums <= 3, resonances > 1). '
        'Non-trivial = a read that ran the simulation with a loaded ship; distinct by (inputs of the run). '
        'Oracle: conservation, <= 1, positivity, single-type law, fallback, never raises, equality with a freshly '
        'built fit of the same configuration, on the real code only.'
        ' Also: read orders (C09 for simulator-backed values): each configuration is built four times and read in different orders through attrs[x] and attrs.get(x), once and repeatedly, including configurations whose simulation fails internally.')
ASSUMPTIONS = [
    'float rounding is not modelled: the model computes in exact rationals on the exact ratios of the doubles impl '
    'uses; decisions within 1e-9 of a discontinuity (damage ties, 10-significant-digit rounding ties, ceil) are '
    'flagged fragile by the model and a mismatch on a flagged case is counted, not reported',
    'the rest of the calculator is a parameter of the model (ship resonance as a function of the hardeners\' current '
    'resonances); theorems need only: it yields positive values for positive hardener resonances. The driver '
    'instantiates it with base * product of pre_mul modifications, with and without stacking penalty',
    'quantifier guard used by the theorems: hardener base resonances in (0,1] summing to more than 3, shift >= 0, '
    'cycle time > 0, profile non-negative with a positive component',
    'order of running hardeners in the simulator (activation order) is part of the current inputs (it only breaks '
    'ties between equally slow hardeners in the no-loop estimate)',
    'single-type law for the full simulation is checked on impl and by correspondence; the theorems cover the shift '
    'rule (fixpoint and convergence of iterated shifts), not the interplay with 10-digit loop detection',
]
CLAUSES = {
    'terminates': 'proved: the model is a structurally recursive function of the tick budget (sim_terminates: a '
                  'successful run reports ticks <= maxT); MAX_SIMULATION_TICKS / SIG_DIGITS regenerated and proved '
                  'equal to the spec (gen_limits)',
    'never raises': 'proved on the model: every partial Python operation is an explicit failure outcome which '
                    'getResults turns into the unsimulated values (fallback_failed; fails_of_zero_duration shows the '
                    'branch is inhabited); on impl: oracle (no exception from any read or operation)',
    'conserves the sum of unsimulated resonances': 'proved for all inputs in the quantifier (next_conserves_sum, '
                                                   'avg_conserves_sum, sim_conserves)',
    'none above 1': 'proved (next_le_one, avg_le_one, sim_le_one); positivity next_pos, sim_pos, '
                    'reso_pos_of_sum_gt_three (why sum > 3 is the guard; the counterexample without recipient is an '
                    'example in the Props file)',
    'equal to the documented process': 'shift rule proved about the model (donor_count, donors_le_recipients, '
                                       'zero_damage_is_donor, tie_by_list_order, next_value; order/profile map/modifiers '
                                       'regenerated: gen_res_order, gen_profile_map, gen_modifiers); model = code by '
                                       'correspondence only (the simulator body is not translated)',
    'single-type profile drives all shiftable resistance onto that type': 'single_type_fixpoint, single_type_reaches '
        'proved for iterated shifts; for the whole simulation (10-digit loop detection, tick budget) correspondence and '
        'impl oracle only - full statement kept as a comment in the Props file',
    'without loaded ship / not running: unsimulated values': 'proved on the model (fallback_no_ship, stop_forgets); '
        'impl: oracle and correspondence (incl. ship removed / made unloadable after a read)',
    'results depend only on current inputs': 'proved at full strength for every history inside the quantifier '
        '(stored_results_current, read_current; ValidOp / ShipFnOK spell the quantifier out; sim_never_fails shows '
        'runs with a ship succeed there, sim_single_dur_irrelevant justifies ignoring cycle-time changes of a single '
        'hardener). Before /repo 6652e34 this clause failed (K2, fixed); its two witness histories are replayed on '
        'every run',
}
LEVEL_TEXT = ('Lean theorems over an exact-rational model that mirrors eos/sim/reactive_armor_hardener.py statement by '
              'statement (shift rule, sig_round, tick iterator, loop detection, no-loop estimate, averaging, fallback, '
              'stored results and their five message handlers), parametric in the rest of the calculator; constants, '
              'handler map and RAH modifiers regenerated from the source and proved equal to the spec; differential '
              'correspondence on histories against the real Fit at value level (L1) and cache level (L2).')
LEVEL_NOTE = ('Trusted: Lean kernel + 3 standard axioms; the hand-written model is tied to the code by the differential '
              'run only (no translation of the simulator body); float rounding not modelled (fragile flags); '
              'which attribute values the calculator holds (hence which changes it announces) is modelled for the '
              'ship resonances and the hardeners shift/cycle attributes only, validated by the L2 comparison.')
TECHNIQUE = 'Lean 4 proof (invariants over the tick loop, refinement of the stored-results layer) + regenerated constants + differential correspondence L1/L2'

T = ('em', 'therm', 'kin', 'expl')


# ---------------------------------------------------------------- universe
class Uni:
    """Attributes, effects and type factories for RAH fits. pen: armor resonances are stacking penalised."""

    def __init__(self, pen):
        from eos.const.eos import ModAffecteeFilter, ModAggregateMode, ModDomain, ModOperator
        from eos.const.eve import AttrId, EffectCategoryId, EffectId, TypeCategoryId
        from eos.eve_obj.modifier import DogmaModifier
        self.pen = pen
        ch = self.ch = mem.MemCache()
        self.res = {t: getattr(AttrId, 'armor_%s_dmg_resonance' % t) for t in T}
        for a in self.res.values():
            ch.mkattr(attr_id=a, high_is_good=False, stackable=not pen)
        self.shift = ch.mkattr(attr_id=AttrId.resist_shift_amount, stackable=True).id
        self.cyc = ch.mkattr(high_is_good=False, stackable=True).id
        self.heat = ch.mkattr(high_is_good=False, stackable=True).id
        self.misc = ch.mkattr(stackable=True).id          # a ship attribute the simulator has nothing to do with
        self.cat = TypeCategoryId

        def mod(flt, tgt_attr, op, src_attr):
            return DogmaModifier(affectee_filter=flt, affectee_domain=ModDomain.ship, affectee_attr_id=tgt_attr,
                                 operator=op, aggregate_mode=ModAggregateMode.stack, affector_attr_id=src_attr)
        self.rah_eff = ch.mkeffect(effect_id=EffectId.adaptive_armor_hardener, category_id=EffectCategoryId.active,
                                   duration_attr_id=self.cyc)
        heat_mod = DogmaModifier(affectee_filter=ModAffecteeFilter.item, affectee_domain=ModDomain.self,
                                 affectee_attr_id=self.cyc, operator=ModOperator.post_percent,
                                 aggregate_mode=ModAggregateMode.stack, affector_attr_id=self.heat)
        self.heat_eff = ch.mkeffect(category_id=EffectCategoryId.overload, modifiers=[heat_mod])
        # implants: kind -> (value attribute, effect); they are stacking-penalty immune
        self.imp = {}
        item, dom = ModAffecteeFilter.item, ModAffecteeFilter.domain
        kinds = {'ship:%s' % t: [(item, self.res[t])] for t in T}
        kinds['ship:all'] = [(item, self.res[t]) for t in T]
        kinds['rahres'] = [(dom, self.res[t]) for t in T]
        kinds.update({'rahres:%s' % t: [(dom, self.res[t])] for t in T})
        kinds['shift'] = [(dom, self.shift)]
        kinds['cyc'] = [(dom, self.cyc)]
        # one effect touching an attribute the simulator depends on together with one it does not react to
        kinds['rahres+cyc'] = [(dom, self.res[t]) for t in T] + [(dom, self.cyc)]
        kinds['misc+shift'] = [(item, self.misc), (dom, self.shift)]
        for kind, tgts in kinds.items():
            src = ch.mkattr(stackable=True).id
            eff = ch.mkeffect(category_id=EffectCategoryId.passive,
                              modifiers=[mod(f, a, ModOperator.post_mul, src) for f, a in tgts])
            self.imp[kind] = (src, eff)
        # one effect that changes the shift amount of the hardeners of group 901 and an attribute the simulator ignores
        # on those of group 902: a single change message names both kinds of hardener (used by C08's designed case)
        src = ch.mkattr(stackable=True).id
        self.imp['g1shift+g2misc'] = (src, ch.mkeffect(category_id=EffectCategoryId.passive, modifiers=[
            DogmaModifier(affectee_filter=ModAffecteeFilter.domain_group, affectee_domain=ModDomain.ship,
                          affectee_filter_extra_arg=g, affectee_attr_id=a, operator=ModOperator.post_mul,
                          aggregate_mode=ModAggregateMode.stack, affector_attr_id=src)
            for g, a in ((901, self.shift), (902, self.misc))]))
        self._types = {}

    def _type(self, key, make):
        if key not in self._types:
            self._types[key] = make().id
        return self._types[key]

    def ship_type(self, v):
        return self._type(('ship', tuple(v)), lambda: self.ch.mktype(
            category_id=self.cat.ship, attrs={**dict(zip(self.res.values(), v)), self.misc: 100.0}))

    def rah_type(self, v, shift, cyc, group=None):
        """shift None: type lacks the attribute; cyc None: likewise (the effect still names the attribute)."""
        def make():
            attrs = dict(zip(self.res.values(), v))
            attrs[self.heat] = -15
            attrs[self.misc] = 7.0
            if shift is not None:
                attrs[self.shift] = shift
            if cyc is not None:
                attrs[self.cyc] = cyc
            return self.ch.mktype(category_id=self.cat.module, group_id=group, attrs=attrs,
                                  effects=(self.rah_eff, self.heat_eff), default_effect=self.rah_eff)
        return self._type(('rah', tuple(v), shift, cyc, group), make)

    def imp_type(self, kind, value):
        src, eff = self.imp[kind]
        return self._type(('imp', kind, value), lambda: self.ch.mktype(
            category_id=self.cat.implant, attrs={src: value}, effects=[eff]))


_UNIS = {}


def uni(pen):
    if pen not in _UNIS:
        _UNIS[pen] = Uni(pen)
    return _UNIS[pen]


_PEN = None


def pen_factors():
    global _PEN
    if _PEN is None:
        from eos.calculator.map import PENALTY_BASE
        _PEN = [PENALTY_BASE ** (k * k) for k in range(11)]
    return _PEN


# ---------------------------------------------------------------- configuration mirror (what the harness did)
def new_cfg(pen):
    return {'pen': pen, 'ship': None, 'rahs': [], 'rahp': None, 'defp': [25, 25, 25, 25], 'imps': {}}


def pm(x, m):
    """value after one post_mul modification, as MutableAttrMap computes it."""
    return x if m is None else x * (1 + (m - 1))


def running(r):
    return r['state'] >= 3


def rah_inputs(cfg, r):
    """(base resonances, shift attribute, cycle time in s) the simulator reads for hardener r."""
    imps = cfg['imps']
    base = [pm(pm(pm(v, imps.get('rahres:%s' % t)), imps.get('rahres')), imps.get('rahres+cyc'))
            for t, v in zip(T, r['v'])]
    shift = None if r['shift'] is None else pm(pm(r['shift'], imps.get('shift')), imps.get('misc+shift'))
    if r['cyc'] is None:
        dur = None
    else:
        d = pm(pm(r['cyc'], imps.get('cyc')), imps.get('rahres+cyc'))
        if r['state'] == 4:
            d *= 1 + (-15 / 100)
        dur = d / 1000
    return base, shift, dur


def ship_inputs(cfg):
    """Ship resonances before the hardeners' modifications, or None without a loaded ship."""
    s = cfg['ship']
    if s is None or s == 'unloaded':
        return None
    imps = cfg['imps']
    return [pm(pm(v, imps.get('ship:%s' % t)), imps.get('ship:all')) for t, v in zip(T, s)]


def eff_profile(cfg):
    return cfg['rahp'] if cfg['rahp'] is not None else cfg['defp']


def qv(v):
    return ' '.join(C.q(x) for x in v)


def qo(x):
    return '-' if x is None else C.q(x)


def ship_line(cfg, head):
    s = ship_inputs(cfg)
    if s is None:
        return '%s none' % head
    return '%s %s %s' % (head, qv(s), ','.join(C.q(p) for p in pen_factors()) if cfg['pen'] else '-')


# ---------------------------------------------------------------- impl side
@contextlib.contextmanager
def rah_log():
    """Collect log records of the simulator module (load_repo disables logging globally)."""
    recs = []

    class H(logging.Handler):
        def emit(self, record):
            if record.name.startswith('eos.sim.reactive_armor_hardener'):
                recs.append(record.getMessage())
    lg = logging.getLogger('eos')
    h = H()
    lg.addHandler(h)
    old_prop, lg.propagate = lg.propagate, False
    logging.disable(logging.NOTSET)
    try:
        yield recs
    finally:
        logging.disable(logging.CRITICAL)
        lg.removeHandler(h)
        lg.propagate = old_prop


class Impl:
    """A real Fit driven by the operation vocabulary of the histories."""

    def __init__(self, pen):
        from eos import Fit, SolarSystem
        self.u = uni(pen)
        self.fit = Fit(solar_system=SolarSystem(source=mem.source(self.u.ch)))
        self.mods = []
        self.imps = {}

    # ---- private state (L2)
    def sim_data(self):
        return self.fit._Fit__rah_sim._ReactiveArmorHardenerSimulator__data

    def order(self):
        return [self.mods.index(m) if m in self.mods else -1 for m in self.sim_data()]

    def res_present(self):
        return any(self.sim_data().values())

    def rah_cached(self, i):
        """(shift amount cached, cycle time cached) on module i."""
        cached = self.mods[i].attrs._MutableAttrMap__modified_attrs
        return self.u.shift in cached, self.u.cyc in cached

    def ship_cached(self):
        s = self.fit.ship
        if s is None or not s._is_loaded:
            return []
        cached = s.attrs._MutableAttrMap__modified_attrs
        return [t for t in T if self.u.res[t] in cached]

    # ---- operations
    def apply(self, op):
        from eos import DmgProfile, Implant, ModuleLow, Ship, State
        k = op['op']
        if k == 'ship':
            v = op['v']
            self.fit.ship = None if v is None else Ship(999999 if v == 'unloaded' else self.u.ship_type(v))
        elif k == 'add':
            m = ModuleLow(self.u.rah_type(op['v'], op['shift'], op['cyc'], op.get('g')), state=State(op['state']))
            self.fit.modules.low.append(m)
            self.mods.append(m)
        elif k == 'rm':
            self.fit.modules.low.remove(self.mods.pop(op['i']))
        elif k == 'state':
            self.mods[op['i']].state = State(op['state'])
        elif k == 'rahp':
            self.fit.rah_incoming_dmg = None if op['p'] is None else DmgProfile(*op['p'])
        elif k == 'defp':
            self.fit.default_incoming_dmg = DmgProfile(*op['p'])
        elif k == 'imp':
            old = self.imps.pop(op['k'], None)
            if old is not None:
                self.fit.implants.remove(old)
            if op['v'] is not None:
                self.imps[op['k']] = Implant(self.u.imp_type(op['k'], op['v']))
                self.fit.implants.add(self.imps[op['k']])
        else:
            raise C.InfraError('unknown op %r' % (op,))

    def read_rah(self, i, types=T):
        return {t: self.mods[i].attrs[self.u.res[t]] for t in types}

    def read_ship(self, t):
        return self.fit.ship.attrs[self.u.res[t]]

    def unsim(self, i):
        return [self.mods[i].attrs._get_without_overrides(self.u.res[t]) for t in T]


def apply_cfg(cfg, op):
    k = op['op']
    if k == 'ship':
        cfg['ship'] = op['v']
    elif k == 'add':
        cfg['rahs'].append({'v': op['v'], 'shift': op['shift'], 'cyc': op['cyc'], 'state': op['state']})
    elif k == 'rm':
        cfg['rahs'].pop(op['i'])
    elif k == 'state':
        cfg['rahs'][op['i']]['state'] = op['state']
    elif k in ('rahp', 'defp'):
        cfg[k] = op['p']
    elif k == 'imp':
        if op['v'] is None:
            cfg['imps'].pop(op['k'], None)
        else:
            cfg['imps'][op['k']] = op['v']


def fresh_observation(cfg):
    """The same configuration built from scratch in canonical order, read once."""
    im = Impl(cfg['pen'])
    for k, v in sorted(cfg['imps'].items()):
        im.apply({'op': 'imp', 'k': k, 'v': v})
    im.apply({'op': 'defp', 'p': cfg['defp']})
    if cfg['rahp'] is not None:
        im.apply({'op': 'rahp', 'p': cfg['rahp']})
    if cfg['ship'] is not None:
        im.apply({'op': 'ship', 'v': cfg['ship']})
    for r in cfg['rahs']:
        im.apply(dict(r, op='add'))
    return observe_all(im, cfg)


def observe_all(im, cfg):
    out = {'rah': [[im.read_rah(i)[t] for t in T] for i in range(len(cfg['rahs']))]}
    out['ship'] = [im.read_ship(t) for t in T] if ship_inputs(cfg) is not None else None
    return out


# ---------------------------------------------------------------- history execution
class Run:
    """Executes one history on impl; collects driver lines, the impl observations they answer to, and the
    impl-level findings (oracle)."""

    def __init__(self, hist, check_laws=True, check_fresh=True):
        self.hist = hist
        self.cfg = new_cfg(hist['pen'])
        self.im = Impl(hist['pen'])
        self.lines = ['reset', 'maxt %d' % hist.get('maxt', 500)]
        self.expect = []          # (line index, kind, impl data, step)
        self.findings = []        # (what, cls, step, kind)
        self.laws = check_laws
        self.fresh = check_fresh
        self.sig = []
        self.issue = None         # (where, expected, impl, step): impl deviates from what the harness itself set up
        self.frag_at = {}

    def emit(self, line, kind=None, data=None, step=None):
        self.lines.append(line)
        if kind is not None:
            self.expect.append((len(self.lines) - 1, kind, data, step))

    def model_lines(self, op, before, order_before):
        """Translate a configuration change into simulator-level events for the model."""
        cfg, k = self.cfg, op['op']
        order_after = self.im.order()
        if k == 'ship':
            self.emit(ship_line(cfg, 'ship'))
        elif k in ('rahp', 'defp'):
            p = op['p']
            self.emit('%s %s' % (k, '-' if p is None else qv(p)))
        elif k == 'imp':
            kind = op['k']
            if kind.startswith('ship:'):
                if ship_inputs(cfg) is not None:
                    ts = T if kind == 'ship:all' else (kind[5:],)
                    self.emit(ship_line(cfg, 'shipmod %s' % ','.join(ts)))
            else:
                for pos, i in enumerate(order_after):
                    base, shift, dur = rah_inputs(cfg, cfg['rahs'][i])
                    if 'cyc' in kind:
                        self.emit('dur %d %s' % (pos, qo(dur)))
                    if kind.startswith('rahres'):
                        self.emit('base %d %s' % (pos, qv(base)))
                    if 'shift' in kind:
                        self.emit('shift %d %s' % (pos, qo(shift)))
        else:
            # add / rm / state: compare the simulator's hardener list before and after
            removed = op['i'] if k == 'rm' else None
            for pos in reversed(range(len(order_before))):
                i = order_before[pos]
                j = None if i == removed else (i - 1 if removed is not None and i > removed else i)
                if j is None or j not in order_after:
                    self.emit('stop %d' % pos)
            kept = [i for i in order_before if i != removed]
            kept = [(i - 1 if removed is not None and i > removed else i) for i in kept]
            kept = [j for j in kept if j in order_after]
            if kept != order_after[:len(kept)] and self.issue is None:
                self.issue = ('rah.simulator keeps hardeners in activation order', kept, order_after, None)
            for pos, j in enumerate(order_after):
                base, shift, dur = rah_inputs(cfg, cfg['rahs'][j])
                if pos >= len(kept):
                    # what the calculator already holds for this module is part of the environment
                    sc, dc = self.im.rah_cached(j)
                    self.emit('start %s %s %s %d %d' % (qv(base), qo(shift), qo(dur), sc, dc))
                elif k == 'state' and j == op['i'] and dur != before:
                    self.emit('dur %d %s' % (pos, qo(dur)))

    def step(self, n, op):
        im, cfg = self.im, self.cfg
        k = op['op']
        if k == 'obs':
            return self.observe(n, op)
        order_before = im.order()
        before = rah_inputs(cfg, cfg['rahs'][op['i']])[2] if k == 'state' else None
        try:
            im.apply(op)
        except Exception as e:
            self.findings.append(('operation %s raised %s: %s' % (k, type(e).__name__, e), None, n, 'raise'))
            return False
        apply_cfg(cfg, op)
        self.model_lines(op, before, order_before)
        self.l2(n)
        return True

    def l2(self, n):
        im = self.im
        self.emit('dump', 'dump', {'res': int(im.res_present()), 'n': len(im.sim_data()),
                                   'shipC': [t for t in T if t in im.ship_cached()]}, n)

    def observe(self, n, op):
        im, cfg = self.im, self.cfg
        had = im.res_present()
        order = im.order()
        got = {'rah': None, 'ship': None}
        with rah_log() as recs:
            try:
                if op['what'] in ('rah', 'all'):
                    vals = {}
                    for i, t in op.get('reads') or [(i, t) for i in range(len(cfg['rahs'])) for t in T]:
                        vals.setdefault(i, {})[t] = im.read_rah(i, (t,))[t]
                    # only a running hardener's attributes are overridden by the simulator
                    if any(i in order for i in vals):
                        self.emit('readrah', 'rah', {'vals': vals, 'order': order, 'had': had}, n)
                    for i, v in vals.items():
                        base = dict(zip(T, rah_inputs(cfg, cfg['rahs'][i])[0]))
                        if i not in order and any(not C.close(base[t], x) for t, x in v.items()) and self.issue is None:
                            self.issue = ('rah.not-running hardener exposes plain values', base, v, n)
                    self.check_rah(n, vals, had, recs)
                    got['rah'] = [[vals[i][t] for t in T] for i in range(len(cfg['rahs']))] if not op.get('reads') else None
                if op['what'] in ('ship', 'all') and ship_inputs(cfg) is not None:
                    if op.get('misc'):
                        im.fit.ship.attrs[im.u.misc]
                    sv = {}
                    for t in op.get('types') or T:
                        sv[t] = im.read_ship(t)
                        self.emit('readship %s' % t, 'ship', sv[t], n)
                    got['ship'] = [sv[t] for t in T] if len(sv) == 4 else None
            except Exception as e:
                self.findings.append(('read raised %s: %s' % (type(e).__name__, e), None, n, 'raise'))
                return False
        self.l2(n)
        if self.fresh and op['what'] == 'all':
            self.check_fresh(n, got)
        return True

    # ---- impl-level oracle
    def violate(self, n, what, kind='law'):
        self.findings.append(('step %d: %s' % (n, what), None, n, kind))

    def in_quantifier(self, r):
        base, shift, dur = rah_inputs(self.cfg, r)
        return (all(0 < v <= 1 for v in base) and sum(base) > 3 and shift is not None and shift >= 0 and
                dur is not None and dur > 0)

    def check_rah(self, n, vals, had, recs):
        if not self.laws:
            return
        cfg, im = self.cfg, self.im
        ship = ship_inputs(cfg)
        prof = eff_profile(cfg)
        run_rahs = [r for r in cfg['rahs'] if running(r)]
        inq = all(self.in_quantifier(r) for r in run_rahs) and (ship is None or all(0 < v <= 1 for v in ship))
        for i, got in vals.items():
            r = cfg['rahs'][i]
            if len(got) < 4:
                continue
            g = [got[t] for t in T]
            if any(not isinstance(x, (int, float)) or x != x for x in g):
                self.violate(n, 'hardener %d exposes a non-number %r' % (i, g))
                continue
            un = im.unsim(i)
            if not running(r):
                if g != un:
                    self.violate(n, 'hardener %d is not running but exposes %r, unsimulated %r' % (i, g, un))
                continue
            if ship is None and g != un:
                self.violate(n, 'no loaded ship but hardener %d exposes %r, unsimulated %r' % (i, g, un))
            if recs and not had and g != un:
                self.violate(n, 'the simulation failed (%s) but hardener %d exposes %r, unsimulated %r' % (recs[0], i, g, un))
            if not inq:
                continue
            if not C.close(sum(g), sum(un)):
                self.violate(n, 'hardener %d: resonance sum %r differs from unsimulated sum %r (%r)' % (i, sum(g), sum(un), g))
            if max(g) > 1 + 1e-12:
                self.violate(n, 'hardener %d: resonance above 1: %r' % (i, g))
            if min(g) <= 0:
                self.violate(n, 'hardener %d: non-positive resonance: %r' % (i, g))
            nz = [j for j, p in enumerate(prof) if p > 0]
            if ship is not None and len(nz) == 1 and self.converges(run_rahs):
                want = [1.0] * 4
                want[nz[0]] = sum(un) - 3
                if not all(C.close(a, b) for a, b in zip(g, want)):
                    self.violate(n, 'single-type profile %r: hardener %d exposes %r, expected %r' % (prof, i, g, want))
        # (shift amount 0 is inside the quantifier but may legitimately end in the caught division by zero of the
        # no-loop estimate; the fallback then equals the result)
        if inq and recs and not had and all(rah_inputs(cfg, r)[1] > 0 for r in run_rahs):
            self.violate(n, 'simulation fell back with inputs inside the quantifier: %r' % (recs,))

    def converges(self, run_rahs):
        """All hardeners reach the single-type fixpoint within the part of the history that the no-loop average
        may ignore (at most half of the tick budget), so loop and no-loop results are both the fixpoint."""
        ins = [rah_inputs(self.cfg, r) for r in run_rahs]
        if any(s <= 0 for _, s, _ in ins):
            return False
        t_end = max((math.ceil((1 - min(b)) / (s / 100)) + 3) * d for b, s, d in ins)
        return sum(t_end / d + 1 for _, _, d in ins) < 0.45 * self.hist.get('maxt', 500)

    def check_fresh(self, n, got):
        """What this read returned (first read of every value, in reading order) vs a fresh build."""
        try:
            want = fresh_observation(self.cfg)
        except Exception as e:
            self.findings.append(('fresh build raised %s: %s' % (type(e).__name__, e), None, n, 'raise'))
            return
        for key in ('rah', 'ship'):
            a, b = got[key], want[key]
            flat = lambda x: [v for row in x for v in row] if key == 'rah' else x
            if (a is None) != (b is None) or (a is not None and not all(
                    isinstance(x, (int, float)) and isinstance(y, (int, float)) and C.close(x, y)
                    for x, y in zip(flat(a), flat(b)))):
                self.violate(n, '%s resonances after this history %r differ from a freshly built fit of the same '
                                'configuration %r' % (key, a, b), 'fresh')

    def execute(self):
        import eos.sim.reactive_armor_hardener as R
        old = R.MAX_SIMULATION_TICKS
        R.MAX_SIMULATION_TICKS = self.hist.get('maxt', old)
        try:
            for n, op in enumerate(self.hist['ops']):
                if not self.step(n, op):
                    break
        finally:
            R.MAX_SIMULATION_TICKS = old
        return self


# ---------------------------------------------------------------- generators
DY_RES = [0.75, 0.8125, 0.875, 0.9375, 1.0, 0.96875, 0.78125]
DC_RES = [0.85, 0.8, 0.9, 0.95, 0.865, 0.79, 1.0, 0.97]
DY_SHIP = [0.5, 0.625, 0.75, 0.875, 1.0, 0.25, 0.6875]
DC_SHIP = [0.5, 0.65, 0.75, 0.9, 0.675, 0.3, 1.0, 0.8]
DY_SHIFT = [6.25, 12.5, 3.125, 25, 50, 1.5625]
DC_SHIFT = [6, 3, 10, 4.5, 1, 20, 7.5]
DY_CYC = [10000, 5000, 8000, 2500, 1000, 7250]
DC_CYC = [10000, 5000, 7000, 1000, 5100, 6800, 3300]
PROF = [0, 0, 0, 1, 1, 2, 5, 25, 0.5, 3, 10]
DC_PROF = PROF + [0.3, 12.7, 1.1]
MULT = {'rahres': [0.9375, 0.96875, 0.984375], 'shift': [0.5, 1.5, 2.0, 0.75], 'cyc': [0.5, 0.75, 1.25, 2.0],
        'ship': [0.5, 0.75, 0.875, 0.625], 'rahres+cyc': [0.9375, 0.96875], 'misc+shift': [0.5, 1.5, 2.0]}


class Gen:
    def __init__(self, rnd, dyadic):
        self.r = rnd
        self.dy = dyadic

    def resos(self):
        r = self.r
        pool = DY_RES if self.dy else DC_RES
        mode = r.random()
        while True:
            v = [r.choice(pool)] * 4 if mode < 0.25 else [r.choice(pool) for _ in range(4)]
            if 0.25 <= mode < 0.35:
                v[r.randrange(4)] = 1.0
            if sum(v) * 0.9375 * 0.9375 - 0.0625 > 3.0001:   # stays above 3 under every 'rahres' implant combination
                return v

    def ship(self):
        r = self.r
        pool = DY_SHIP if self.dy else DC_SHIP
        if r.random() < 0.2:
            return [r.choice(pool)] * 4
        return [r.choice(pool) for _ in range(4)]

    def profile(self):
        r = self.r
        pool = PROF if self.dy else DC_PROF
        mode = r.random()
        if mode < 0.2:
            p = [0] * 4
            p[r.randrange(4)] = r.choice([x for x in pool if x > 0])
            return p
        if mode < 0.3:
            return [r.choice([x for x in pool if x > 0])] * 4
        while True:
            p = [r.choice(pool) for _ in range(4)]
            if sum(p) > 0:
                return p

    def rah(self, state=None):
        r = self.r
        return {'op': 'add', 'v': self.resos(), 'shift': r.choice(DY_SHIFT if self.dy else DC_SHIFT),
                'cyc': r.choice(DY_CYC if self.dy else DC_CYC),
                'state': state or r.choice([3, 3, 3, 4, 4, 2])}

    def obs(self, cfg):
        r = self.r
        what = r.choice(['all', 'all', 'all', 'rah', 'ship', 'ship'])
        op = {'op': 'obs', 'what': what}
        if what == 'ship':
            op['types'] = r.sample(T, r.randint(1, 4))
        if what != 'rah' and r.random() < 0.5:
            op['misc'] = True
        if what == 'rah' and cfg['rahs'] and r.random() < 0.4:
            op['reads'] = [(r.randrange(len(cfg['rahs'])), r.choice(T))]
        return op

    def change(self, cfg):
        """One mostly-valid configuration change for the current configuration."""
        r = self.r
        n = len(cfg['rahs'])
        while True:
            k = r.choice(['ship', 'shipnone', 'add', 'rm', 'state', 'state', 'rahp', 'rahp', 'defp', 'imp', 'imp', 'imp'])
            if k == 'ship':
                return {'op': 'ship', 'v': self.ship() if r.random() < 0.93 else 'unloaded'}
            if k == 'shipnone' and cfg['ship'] is not None and r.random() < 0.5:
                return {'op': 'ship', 'v': None}
            if k == 'add' and n < 3:
                return self.rah()
            if k == 'rm' and n > 0 and r.random() < 0.5:
                return {'op': 'rm', 'i': r.randrange(n)}
            if k == 'state' and n > 0:
                i = r.randrange(n)
                st = r.choice([s for s in (1, 2, 3, 4) if s != cfg['rahs'][i]['state']])
                return {'op': 'state', 'i': i, 'state': st}
            if k == 'rahp':
                if cfg['rahp'] is not None and r.random() < 0.3:
                    return {'op': 'rahp', 'p': None}
                return {'op': 'rahp', 'p': self.profile() if r.random() < 0.85 else list(eff_profile(cfg))}
            if k == 'defp':
                return {'op': 'defp', 'p': self.profile()}
            if k == 'imp':
                kind = r.choice(['ship:%s' % t for t in T] + ['ship:all', 'rahres', 'rahres:%s' % r.choice(T), 'shift', 'cyc',
                                 'rahres+cyc', 'misc+shift'])
                if kind in cfg['imps'] and r.random() < 0.6:
                    return {'op': 'imp', 'k': kind, 'v': None}
                return {'op': 'imp', 'k': kind, 'v': r.choice(MULT[kind.split(':')[0]])}


def gen_history(rnd, length=None, maxt_share=0.25):
    pen = rnd.random() < 0.4
    dy = rnd.random() < 0.5
    g = Gen(rnd, dy)
    hist = {'pen': pen, 'dyadic': dy, 'ops': []}
    if rnd.random() < maxt_share:
        hist['maxt'] = rnd.choice([1, 2, 3, 5, 7, 8, 12, 20, 40, 75])
    cfg = new_cfg(pen)

    def push(op):
        hist['ops'].append(op)
        apply_cfg(cfg, op)
    # a plausible starting fit, in random set-up order
    start = [{'op': 'ship', 'v': g.ship()}] if rnd.random() < 0.9 else []
    start += [g.rah(state=rnd.choice([3, 3, 4])) for _ in range(rnd.choice([1, 1, 2, 2, 3]))]
    if rnd.random() < 0.7:
        start.append({'op': 'rahp', 'p': g.profile()})
    rnd.shuffle(start)
    for op in start:
        push(op)
    push({'op': 'obs', 'what': rnd.choice(['all', 'all', 'rah'])})
    for _ in range(length or rnd.randint(4, 10)):
        push(g.change(cfg))
        if rnd.random() < 0.3:
            push(g.change(cfg))
        if rnd.random() < 0.8:
            push(g.obs(cfg))
    push({'op': 'obs', 'what': 'all'})
    return hist


def malformed_histories():
    """Single-shot fits outside the quantifier: the fallback and the un-guarded behaviour."""
    out = []
    ship = [0.5, 0.65, 0.75, 0.9]

    def one(rahs, prof=None, pen=False, maxt=None, ship=ship):
        ops = [{'op': 'ship', 'v': ship}] if ship is not None else []
        ops += [dict({'op': 'add', 'state': 3}, **r) for r in rahs]
        if prof is not None:
            ops.append({'op': 'rahp', 'p': prof})
        ops.append({'op': 'obs', 'what': 'all'})
        h = {'pen': pen, 'dyadic': False, 'ops': ops, 'malformed': True}
        if maxt is not None:
            h['maxt'] = maxt
        out.append(h)
    ok = {'v': [0.85] * 4, 'shift': 6, 'cyc': 10000}
    one([dict(ok, cyc=0)])                                  # log10(0)
    one([dict(ok, cyc=None)])                               # None - 0
    one([dict(ok, shift=None)])                             # KeyError
    one([dict(ok, shift=0)])                                # never moves: loop at once
    one([dict(ok, shift=0), dict(ok, shift=0, cyc=7300)], maxt=30)     # division by zero in the estimate
    one([ok, dict(ok, cyc=0)])
    one([ok, dict(ok, shift=None, cyc=12500)])              # the slower one fails at its first cycle, after the other adapted
    one([dict(ok, cyc=5000), dict(ok, shift=None)], prof=[1, 0, 0, 0])
    one([dict(ok, cyc=-5000)])
    one([dict(ok, shift=-6)])
    one([dict(ok, v=[0.5, 0.5, 0.5, 0.5])], prof=[1, 0, 0, 0])         # sum <= 3: recipient passes zero
    one([dict(ok, v=[0.75, 0.75, 0.75, 0.75])])                        # sum == 3
    one([dict(ok, v=[0.75, 0.75, 0.75, 0.75], shift=6.25)])            # two recipients reach exactly 0 in tick 13: log10(0)
    one([dict(ok, v=[0.625, 1.0, 0.875, 0.5], shift=12.5)], prof=[0, 0, 0, 3])   # the recipient reaches exactly 0
    one([ok, dict(ok, v=[0.75, 0.75, 0.75, 0.75], shift=6.25, cyc=5000)])        # failure after both were shifted
    one([dict(ok, v=[0.7, 0.7, 0.7, 0.7], shift=10)], prof=[0, 0, 1, 0])
    one([dict(ok, v=[0.6, 0.9, 0.8, 0.65], shift=15)], prof=[3, 1, 0, 0], pen=True)
    one([dict(ok, v=[1.2, 0.9, 0.8, 0.9])])                            # resonance above 1
    one([dict(ok, v=[1.0, 1.0, 1.0, 1.0])])
    one([dict(ok, v=[1.0, 1.0, 1.0, 1.0]), ok], maxt=12)
    one([ok], ship=[0, 0.5, 0.5, 0.5])                                 # zero ship resonance
    one([ok], ship=[0, 0, 0, 0])
    one([ok], ship='unloaded')
    one([ok], ship=None)
    one([ok, dict(ok, cyc=8500)], maxt=75)
    one([ok, dict(ok, cyc=8500)], maxt=5)
    one([ok, dict(ok, cyc=8500)], maxt=82)
    one([dict(ok, shift=0.01)], maxt=40)
    one([dict(ok, shift=0.01), dict(ok, shift=0.02, cyc=7000)], maxt=40)
    return out


# the two shapes of the former finding K2 (fixed in /repo 6652e34): they must hold now
CORPUS = [
    {'pen': False, 'dyadic': False, 'corpus': 'ship replaced after a read', 'ops': [
        {'op': 'ship', 'v': [0.5, 0.65, 0.75, 0.9]}, {'op': 'add', 'v': [0.85] * 4, 'shift': 6, 'cyc': 10000, 'state': 3},
        {'op': 'obs', 'what': 'all'}, {'op': 'ship', 'v': [0.9, 0.75, 0.65, 0.5]}, {'op': 'obs', 'what': 'all'}]},
    {'pen': False, 'dyadic': False, 'corpus': 'ship resonance modified while not cached', 'ops': [
        {'op': 'ship', 'v': [0.4, 0.65, 0.75, 0.9]}, {'op': 'add', 'v': [0.85] * 4, 'shift': 6, 'cyc': 10000, 'state': 3},
        {'op': 'obs', 'what': 'rah'}, {'op': 'imp', 'k': 'ship:em', 'v': 2.0}, {'op': 'obs', 'what': 'all'}]},
]


# ---------------------------------------------------------------- comparison with the model
def compare(rep, run, outs):
    """Check one executed history against the model's output lines."""
    for what, _, n, kind in run.findings:
        if kind == 'raise':
            rep.disagree('rah.impl raised', 'no exception', what, {'history': run.hist, 'step': n})
            return
    if run.issue:
        where, want, got, n = run.issue
        rep.disagree(where, want, got, {'history': run.hist, 'step': n if n is not None else len(run.hist['ops']) - 1})
        return
    frag = False          # the stored results stem from a run the model flagged fragile
    run.frag_at = {}

    def ran(outcome, looped, ticks, fr, n):
        nonlocal frag
        if outcome == 'stored':
            return
        frag = fr == '1'
        rep.dist['run:' + outcome + (':loop' if looped == '1' else ':noloop' if outcome == 'ok' else '')] += 1
        rep.dist['hardeners:%d' % n] += 1
        rep.dist['fragile-flagged'] += frag
        if outcome == 'ok':
            run.sig.append((n, looped, ticks))

    def differ(where, model, impl, case):
        if frag:
            rep.fragile += 1
        else:
            rep.disagree(where, model, impl, case)
    for idx, kind, data, step in run.expect:
        line = outs[idx]
        case = {'history': run.hist, 'step': step}
        if kind == 'dump':
            run.frag_at[step] = frag
            m = dict(kv.split('=') for kv in line.split()[1:])
            got = {'res': int(m['res']), 'n': int(m['n']), 'shipC': [t for t in m['shipC'].split(',') if t]}
            if got != data:
                rep.disagree('rah.L2 (stored results / cached ship resonances)', got, data, case)
                return
        elif kind == 'ship':
            _, outcome, looped, ticks, fr, val = line.split()
            ran(outcome, looped, ticks, fr, len(run.im.sim_data()))
            if val == 'none' or not isinstance(data, (int, float)) or not C.close(float(C.unq(val)), data):
                differ('rah.ship-resonance', val if val == 'none' else float(C.unq(val)), data, case)
                return
        else:
            head, *vecs = line.split(';')
            _, outcome, looped, ticks, fr = head.split()
            ran(outcome, looped, ticks, fr, len(vecs))
            mvals = [[float(C.unq(x)) for x in v.split()] for v in vecs]
            if len(mvals) != len(data['order']):
                rep.disagree('rah.hardener-count', len(mvals), data['order'], case)
                return
            for pos, i in enumerate(data['order']):
                for t, x in data['vals'].get(i, {}).items():
                    if not isinstance(x, (int, float)) or not C.close(mvals[pos][T.index(t)], x):
                        differ('rah.resonances', {'hardener': i, 'type': t, 'model': mvals[pos]}, x, case)
                        return


def run_batch(rep, hists, laws=True, fresh=True):
    runs = [Run(h, laws, fresh).execute() for h in hists]
    text = '\n'.join(l for r in runs for l in r.lines) + '\n'
    outs = C.run_driver('drv_rah', text)
    if len(outs) != sum(len(r.lines) for r in runs):
        raise C.InfraError('driver returned %d lines for %d' % (len(outs), sum(len(r.lines) for r in runs)))
    if 'bad-op' in outs:
        raise C.InfraError('driver rejected a line: %r' % text.splitlines()[outs.index('bad-op')])
    pos = 0
    for r in runs:
        compare(rep, r, outs[pos:pos + len(r.lines)])
        pos += len(r.lines)
    return runs


def account(rep, run):
    h = run.hist
    for op in h['ops']:
        rep.dist['op:' + op['op'] + (':' + op['k'].split(':')[0] if op['op'] == 'imp' else '')] += 1
    rep.dist['universe:%s/%s' % ('penalised' if h['pen'] else 'stackable', 'dyadic' if h['dyadic'] else 'decimal')] += 1
    if 'maxt' in h:
        rep.dist['maxticks-patched'] += 1
    sig = (h['pen'], json.dumps(h['ops'], sort_keys=True)) if run.sig else None
    rep.case(sig=sig, sample={k: h[k] for k in ('pen', 'dyadic', 'ops')}, kind='history')


def correspondence(ctx):
    rep = ctx.report
    rep.rules.append(RULE)
    hists = list(CORPUS) + malformed_histories()
    rnd = ctx.sub_rnd('corr')
    hists += [gen_history(rnd) for _ in range(ctx.n(130, 1300))]
    for r in run_batch(rep, hists, laws=False, fresh=False):
        account(rep, r)
    # histories on which model and impl disagree are the first thing the impl-level oracle looks at
    ctx.suspects = [(d['case']['history'], d['case']['step']) for d in rep.disagreements[:8]]


def report_findings(rep, run):
    """Findings of one executed history -> violations. A difference from the fresh build is a violation unless it
    is explained by a decision the model flags as float-fragile (exact damage ties broken by 1-ulp noise of the
    modifier multiplication order)."""
    fresh = [f for f in run.findings if f[3] == 'fresh' and f[1] is None]
    if fresh:
        try:
            outs = C.run_driver('drv_rah', '\n'.join(run.lines) + '\n')
            compare(C.Report(), run, outs)
        except C.InfraError:
            run.frag_at = {}
    for what, cls, step, kind in run.findings:
        if kind == 'fresh' and cls is None and run.frag_at.get(step):
            rep.fragile += 1
            rep.dist['fragile-fresh-build'] += 1
            continue
        rep.violate(what, {'history': run.hist}, cls)


def oracle(ctx, count=None, key='oracle'):
    """The property itself on the real code: laws at every read, and equality with a fresh build."""
    rep = ctx.report
    rnd = ctx.sub_rnd(key)
    hists = list(CORPUS) + [gen_history(rnd) for _ in range(count or ctx.n(90, 1000))]
    for h, step in getattr(ctx, 'suspects', []):
        # cut right after the disagreeing step and read everything
        hists.insert(0, dict(h, ops=h['ops'][:step + 1] + [{'op': 'obs', 'what': 'all'}]))
        hists.insert(0, h)
    ctx.suspects = []
    for h in hists:
        run = Run(h).execute()
        report_findings(rep, run)
        rep.case(kind='oracle-history')
    for h in malformed_histories():
        run = Run(h, check_fresh=False).execute()
        report_findings(rep, run)
        # fallback: internal failure must leave the unsimulated values, whatever the inputs
        rep.case(kind='oracle-malformed')
    fallback_cases(rep)
    read_orders(rep, rnd, malformed_histories() + hists[:ctx.n(60, 600)])


def read_orders(rep, rnd, hists):
    """Reads are pure (C09 for simulator-backed values): the configuration of each history is built several times
    and read in different orders, through `attrs[x]` and through `attrs.get(x)`, once and repeatedly; every schedule
    must end with the same full observation - also when the simulation fails internally and falls back."""
    def observe(im, plan):
        out = {}
        for kind, i, t, how in plan:
            try:
                if kind == 'rah':
                    m = im.mods[i]
                    v = m.attrs[im.u.res[t]] if how == 'item' else m.attrs.get(im.u.res[t])
                else:
                    sh = im.fit.ship
                    v = sh.attrs[im.u.res[t]] if how == 'item' else sh.attrs.get(im.u.res[t])
            except KeyError:
                v = 'KeyError'
            except Exception as e:
                v = 'raises:' + type(e).__name__
            out.setdefault((kind, i, t), []).append('KeyError' if v is None else v)     # get() answers None for no value
        return out
    for h in hists:
        ops = [op for op in h['ops'] if op['op'] != 'obs']
        finals = []
        for sched in range(4):
            im = Impl(h['pen'])
            try:
                for op in ops:
                    im.apply(op)
            except Exception:
                break
            nr = len(im.mods)
            ship = im.fit.ship is not None
            full = [('rah', i, t, 'item') for i in range(nr) for t in T] + ([('ship', 0, t, 'item') for t in T] if ship else [])
            if sched == 0:
                pre = []
            elif sched == 1:
                pre = list(reversed(full))
            else:
                pre = [(k, i, t, rnd.choice(['item', 'get', 'get'])) for k, i, t, _ in full] * rnd.choice([1, 2])
                rnd.shuffle(pre)
            with rah_log():
                first = observe(im, pre)
                last = observe(im, full)
            finals.append((sched, pre, first, last))
        if len(finals) < 4:
            continue
        rep.case(kind='oracle-read-orders', sig=('read-orders', json.dumps(ops, sort_keys=True, default=str)))
        ref = finals[0][3]
        for sched, pre, first, last in finals[1:]:
            bad = [key for key in ref if not W_same(ref[key][0], last[key][0])]
            rep_bad = [key for key, vs in first.items() if any(not W_same(vs[0], x) for x in vs[1:])
                       or not W_same(vs[0], last[key][0])]
            if bad or rep_bad:
                rep.violate('simulator-backed values depend on what was read before: schedule %d gives %r, unread fit gives %r'
                            % (sched, [(key, last[key][0]) for key in (bad or rep_bad)[:3]],
                               [(key, ref[key][0]) for key in (bad or rep_bad)[:3]]),
                            {'history': dict(h, ops=ops), 'reads_before': [list(x) for x in pre]})
                break


def W_same(a, b):
    if isinstance(a, str) or isinstance(b, str):
        return a == b
    return C.close(a, b)


def fallback_cases(rep):
    """No loaded ship / internal failure -> unsimulated values, exactly, with one warning for a failure."""
    ok = {'v': [0.85, 0.9, 0.8, 0.95], 'shift': 6, 'cyc': 10000, 'state': 3}
    for name, ship, rah, nlog in (('no ship', None, ok, 0), ('unloadable ship', 'unloaded', ok, 0),
                                  ('zero cycle time', [0.5] * 4, dict(ok, cyc=0), 1),
                                  ('no cycle time', [0.5] * 4, dict(ok, cyc=None), 1),
                                  ('no shift attribute', [0.5] * 4, dict(ok, shift=None), 1)):
        im = Impl(False)
        if ship is not None:
            im.apply({'op': 'ship', 'v': ship})
        im.apply(dict(rah, op='add'))
        case = {'fallback': name, 'ship': ship, 'rah': rah}
        with rah_log() as recs:
            try:
                got = [im.read_rah(0)[t] for t in T]
            except Exception as e:
                rep.violate('reading a hardener raised %s (%s)' % (type(e).__name__, name), case)
                continue
        if got != rah['v']:
            rep.violate('%s: exposes %r instead of the unsimulated %r' % (name, got, rah['v']), case)
        if len(recs) != nlog:
            rep.violate('%s: %d simulator log records, expected %d' % (name, len(recs), nlog), case)
        rep.case(kind='oracle-fallback')


def search(ctx, broken):
    if not any(v['class'] is None for v in ctx.report.violations):
        oracle(ctx, count=ctx.n(400, 1500), key='search')


def replay(path):
    data = json.load(open(C.VERIF / path if not str(path).startswith('/') else path))
    v = data.get('violation')
    if not v:
        print(json.dumps(data, indent=1)[:4000])
        print('replay names a broken obligation; re-run ./check C12 to re-check it')
        return 0
    hist = v['case'].get('history')
    if hist is None:
        rep = C.Report()
        fallback_cases(rep)
        for x in rep.violations:
            print('REPRODUCED:', x['what'])
        return 1 if rep.violations else 0
    run = Run(hist).execute()
    for n, op in enumerate(hist['ops']):
        print(n, op)
    for what, cls, _, _ in run.findings:
        print('REPRODUCED:', what)
    rep = C.Report()
    try:
        run_batch(rep, [hist], laws=False, fresh=False)
        for d in rep.disagreements:
            print('MODEL DISAGREES:', json.dumps(C.jsonable({k: d[k] for k in ('where', 'model', 'impl')})))
    except C.InfraError as e:
        print('model not available:', e)
    return 1 if run.findings else 0
