"""C11 - removal is complete: no residue and no lingering influence."""
import random

import common as C
from harness import residue as R
from harness import world as W
from harness import worldcorr as WC
from props import _worldfam as F

PID = 'C11'
GENERATORS = ['consts']
LEAN_TARGETS = ['EosProofs.Props.C11', 'EosProofs.Props.C11World', 'EosProofs.Props.C11Keyed', 'EosProofs.Props.C11Proj', 'EosProofs.Props.C11Park']
DRIVERS = ['drv_world', 'drv_keyed']
TRUSTED = F.WORLD_TRUSTED
RULE = ('after each generated history (all parameter sets incl. fleets and source switches) everything is removed in a '
        'random order (K1-safe: targets cleared and fleet boosters switched off first, themselves in random order) and '
        'a generic walk over every container reachable from the solar system, its calculator registers, every fit, its '
        'restriction/stat registers, simulator and message broker must find no item, fit, affector spec or projector '
        'and no calculator subscription; removed items are then re-used in a fresh fit and must give from-scratch '
        '(Lean spec) values; the same walk runs on single-fit histories of the restriction/statistics generator (slot '
        'index 0, group limits, unloadable types, source switches); partial removals: after reading everything a random '
        'subset of items / fits is removed and the rest must equal its from-scratch rebuild. Non-trivial: history whose '
        'final world had >= 6 items; distinct by (parameter set, seed).')
ASSUMPTIONS = ['tear-down stays outside the class of known finding K1 (an item removed while it is a recorded target '
               'keeps entries in the target maps: listed as K1)']
CLAUSES = {
    'nothing removed influences what remains': 'the Lean spec is a function of the current configuration only (removed_item_no_influence, evalAll_no_items); impl tied to it per step (L1/L2)',
    'removed items and fits can be reused with from-scratch results': 'correspondence: re-used items vs Lean spec; machine level: C01 incremental_eq_scratch',
    'no service, register, subscription, override or cache retains any entry': 'register level: KeyedStorage (the dict-of-sets all registers are made of) keeps exactly the entries added and not yet removed and no key without a member, after every call history (C11Keyed.inv_run, run_refines, mem_bucket_*, noEmpty_run, run_no_residue, mem_keys_iff_bucket, rmSet_key_clean), and the two maps of the projection register stay converse relations (C11Proj.conv_run, proj_run_refines, no_one_sided_entry), and direct ship-domain specs are parked under the fit / held under the ship and leave both stores empty when none is registered (C11Park.wf_run, park_no_residue, held_*); all tied to the real classes by per-call differentials; message-level model: after the canonical tear-down of every item the dynamic state is empty on the configuration, hence every declarative register content (specs, affectees, direct sets, deps) and every cache entry is empty, and the tear-down is a legal run when projectors let go first (C11World.teardown_all_registers_empty, registers_empty, teardown_all_legal, history_then_teardown); the concrete buckets of affection.py / projection.py, restriction / stat registers and subscriptions: impl-level emptiness walk (enumeration)',
}
LEVEL_TEXT = ('Lean: values are functions of the current configuration (an item outside it cannot influence anything; '
              'an empty configuration has an empty value table). Residue freedom itself is checked on the real code by '
              'a generic emptiness walk after randomised complete tear-downs, and re-use of removed items against the spec.')
LEVEL_NOTE = 'Registers are modelled by their declarative content (what they select); emptiness of the concrete Python buckets and subscriptions is enumeration over generated histories; same trusted base as C01.'
TECHNIQUE = 'Lean 4 spec lemmas (configuration-functionality) + register-level invariant/refinement proof for KeyedStorage with per-call differential + differential re-use check + emptiness walk'


def _teardown(ctx, rep, pnames, n, label):
    for pname in pnames:
        p = F.PARAM_SETS[pname]
        base = ctx.sub_rnd(label, pname).randrange(10 ** 9)
        for k in range(n):
            seed = base + k
            h = WC.run_history(seed, p, observe_prob=0.15)
            if h['crash']:
                continue
            w = h['world']
            nitems = len(w.all_items())
            rnd = random.Random(seed)
            removed_items = [i for i in w.all_items() if type(i).__name__ not in ('Character',)]
            try:
                fits = R.teardown(w, rnd, True)
            except C.InfraError:
                raise
            except Exception as e:
                rep.violate('tear-down raised %s: %s' % (type(e).__name__, str(e)[:80]), F.case_of(seed, pname, h['ops']))
                continue
            res = R.residue(w.ss)
            for f in fits:
                res += R.residue(f)
            for it in removed_items:
                if it._container is not None or it._is_loaded or it.attrs._MutableAttrMap__modified_attrs:
                    if type(it).__name__ == 'Charge' and it._container is not None:
                        continue        # a charge left inside its removed module
                    res.append(('item', 'removed item %r keeps container/type/cache' % it))
            rep.case(sig=('teardown', pname, seed) if nitems >= 6 else None, kind='teardown-' + pname,
                     sample=F.case_of(seed, pname, h['ops'][:8]) if k == 0 else None)
            if res:
                def fails(ops):
                    h2 = WC.run_history(seed, p, ops=ops, observe_prob=0)
                    if h2['crash']:
                        return False
                    w2 = h2['world']
                    f2 = R.teardown(w2, random.Random(seed), True)
                    r2 = R.residue(w2.ss)
                    for f in f2:
                        r2 += R.residue(f)
                    return bool(r2)
                try:
                    ops = WC.shrink(seed, p, h['ops'], fails)
                except Exception:
                    ops = h['ops']
                rep.violate('residue after complete tear-down: %s' % (res[:2],),
                            dict(F.case_of(seed, pname, ops), oracle='emptiness-walk'))
                continue
            # re-use: put removed top-level items into a fresh fit of a fresh solar system (Lean spec comparison:
            # not for universes with python modifiers, which the spec does not model)
            if not p.get('pymods'):
                _reuse(rep, w, removed_items, seed, pname, h)


def _teardown_restr(ctx, rep, n, label='teardown-restr'):
    """The same emptiness walk on single-fit histories of the restriction / statistics generator (slot indices
    including 0, group limits, charge sizes, drone groups, skill requirements, source switches, unloadable types):
    the restriction and statistics registers are keyed by attributes the attribute-oriented universes lack."""
    import types
    from harness import restr_world as RW
    from props import c03
    base = ctx.sub_rnd(label).randrange(10 ** 9)
    for k in range(n):
        useed, hseed = base + k, k
        w, done = None, []
        for w, done, _ops, _errs in c03.run_history(useed, hseed, 14):
            pass
        if w is None:
            continue
        case = {'restr_universe': useed, 'history': hseed, 'ops': done}
        if k % 2:
            # recall the drones while they are unloaded (another source or none), then come back
            tail = [('source', random.Random(useed).choice([s for s in ('A', 'B', None) if s != w.src]))]
            tail += [('state', w.ident(i), 1) for i in w.placed() if type(i).__name__ == 'Drone']
            tail += [('source', 'A')]
            for op in tail:
                w.apply(op)
            case['ops'] = done + [[list(o) for o in tail]]
        removed = [i for i in w.placed() if type(i).__name__ != 'Character']
        try:
            R.teardown(types.SimpleNamespace(fits={1: w.fit}), random.Random(useed), True)
        except C.InfraError:
            raise
        except Exception as e:
            rep.violate('tear-down raised %s: %s' % (type(e).__name__, str(e)[:80]), case)
            continue
        w.fit._unsubscribe(w.spy, RW.Spy.MSGS)          # the harness's own listener
        res = R.residue(w.ss) + R.residue(w.fit)
        for it in removed:
            if it._container is not None or it._is_loaded or it.attrs._MutableAttrMap__modified_attrs:
                if type(it).__name__ == 'Charge' and it._container is not None:
                    continue
                res.append(('item', 'removed item %r keeps container/type/cache' % it))
        rep.case(sig=('teardown-restr', useed) if len(removed) >= 5 else None, kind='teardown-restr')
        if res:
            rep.violate('residue after complete tear-down: %s' % (res[:2],), dict(case, oracle='emptiness-walk'))


def _partial_removal(ctx, rep, pnames, n, label='partial'):
    """Nothing that was removed influences what remains: after a history everything is read (so every value is
    cached), a random subset of items / whole fits is removed (projectors aimed at the doomed items let go first -
    K1), and the remaining world must equal its from-scratch rebuild."""
    for pname in pnames:
        p = F.PARAM_SETS[pname]
        base = ctx.sub_rnd(label, pname).randrange(10 ** 9)
        for k in range(n):
            seed = base + k
            rnd, w = WC.make_world(seed, p)
            gen = W.OpGen(rnd, p)
            done = []
            try:
                while len(done) < p['nsteps']:
                    for op in gen.next(w):
                        w.apply(op)
                        done.append(op)
                w.observe()
                for _ in range(rnd.randint(1, 4)):
                    # the generator's own removal ops (they carry the K1 pre-ops)
                    for _try in range(30):
                        ops = gen.next(w)
                        if ops[-1][0] in ('remove', 'rack_remove', 'rack_remove_item', 'remove_fit', 'set_single'):
                            break
                    else:
                        break
                    for op in ops:
                        w.apply(op)
                        done.append(op)
                # twins: of two modules of one type with charges on one fit, one leaves and the other loses its charge
                # (a python modifier shared by both must keep listening for the one that stays)
                by_type = {}
                for it in w.all_items():
                    if getattr(it, 'charge', None) is not None and it._fit is not None:
                        by_type.setdefault((it._fit._vid, it._type_id), []).append(it)
                twins = [v for v in by_type.values() if len(v) >= 2]
                if twins:
                    first, second = rnd.sample(rnd.choice(twins), 2)
                    for op in (('rack_remove_item', first._vid, 'remove'), ('charge', second._vid, None)):
                        w.apply(op)
                        done.append(op)
                # ... and life goes on for a few calls (what was removed must not hear of them either)
                for _ in range(rnd.randint(0, 4)):
                    for op in gen.next(w):
                        w.apply(op)
                        done.append(op)
                n2, _ = W.rebuild(w)
                va, ra = w.observe()
                vb, rb = n2.observe()
            except ZeroDivisionError:
                continue
            except Exception as e:
                rep.violate('removal raised %s: %s' % (type(e).__name__, str(e)[:80]), F.case_of(seed, pname, done))
                continue
            rep.case(sig=('partial', pname, seed), kind='partial-removal-' + pname)
            diff = F.equal_obs(va, vb)
            if diff or ra != rb:
                rep.violate('after removing part of the world the rest differs from its from-scratch rebuild '
                            '(something removed still has influence): %r' % (diff[:3],),
                            dict(F.case_of(seed, pname, done), oracle='mirror'))


def _designed_two_fit_hardeners(rep):
    """Two fleet mates with a reactive armor hardener each and an armor burst on one of them; everything is read, then
    the burst module is removed: both fits (whichever the change messages are filed under) must read as a fleet built
    without the burst - the hardener of the *other* fit listens on its own fit only."""
    from eos import Fit, Fleet, ModuleHigh, ModuleLow, Ship, SolarSystem, State
    from eos.const.eos import ModAffecteeFilter, ModAggregateMode, ModOperator
    from eos.const.eve import AttrId, EffectCategoryId, EffectId
    from eos.eve_obj.buff_template import WarfareBuffTemplate
    from harness import mem
    from props import c12
    u = c12.Uni(False)
    ch = u.ch
    for a in (AttrId.warfare_buff_1_id, AttrId.warfare_buff_1_value):
        ch.mkattr(attr_id=a)
    ch.buffs[7] = {WarfareBuffTemplate(buff_id=7, affectee_filter=ModAffecteeFilter.item, affectee_attr_id=u.res['expl'],
                                       operator=ModOperator.post_percent, aggregate_mode=ModAggregateMode.minimum)}
    burst = ch.mkeffect(effect_id=EffectId.module_bonus_warfare_link_armor, category_id=EffectCategoryId.active)
    burst_t = ch.mktype(category_id=u.cat.module, attrs={AttrId.warfare_buff_1_id: 7, AttrId.warfare_buff_1_value: -30},
                        effects=[burst], default_effect=burst).id

    def build(with_burst):
        ss = SolarSystem(source=mem.source(ch))
        fits = [Fit(solar_system=ss), Fit(solar_system=ss)]
        fl = Fleet()
        rahs = []
        for f in fits:
            f.ship = Ship(u.ship_type([0.5, 0.65, 0.75, 0.9]))
            m = ModuleLow(u.rah_type([0.85, 0.85, 0.85, 0.85], 6, 10000), state=State.active)
            f.modules.low.append(m)
            rahs.append(m)
            fl.fits.add(f)
        b = None
        if with_burst:
            b = ModuleHigh(burst_t, state=State.active)
            fits[0].modules.high.append(b)
        return fits, rahs, b

    def read(fits, rahs, hardener_first=True):
        with c12.rah_log():
            out = []
            for f, m in zip(fits, rahs):
                a = [round(m.attrs[u.res[t]], 9) for t in c12.T] if hardener_first else None
                b = [round(f.ship.attrs[u.res[t]], 9) for t in c12.T]
                a = a or [round(m.attrs[u.res[t]], 9) for t in c12.T]
                out.append(a + b)
            return out
    for booster_first, hardener_first in ((True, True), (False, True), (True, False), (False, False)):
        fits, rahs, b = build(True)
        if not booster_first:
            fits, rahs = fits[::-1], rahs[::-1]
        read(fits, rahs, hardener_first)
        b._fit.modules.high.remove(b)
        got = read(fits, rahs, hardener_first)
        f2, r2, _ = build(False)
        want = read(f2, r2, hardener_first)
        rep.case(kind='oracle-designed-two-fit-hardeners', sig=('two-fit-hardeners', booster_first, hardener_first))
        if got != want:
            rep.violate('after the burst module was removed the fleet reads %r, a fleet built without it %r '
                        '(the removed module still has influence)' % (got, want), {'designed': 'two-fit-hardeners'})


def _reuse(rep, w, items, seed, pname, h):
    from eos import Ship, Skill, Implant, Booster, Subsystem, Rig, Drone, FighterSquad, ModuleHigh, ModuleMid, ModuleLow
    w2 = W.World(w.unis, w.src if w.src is not None else 0)
    w2.op_add_fit()
    f = list(w2.fits.values())[0]
    used = 0
    try:
        for it in items:
            if it._container is not None:
                continue
            cls = type(it)
            if cls is Ship and f.ship is None:
                f.ship = it
            elif cls is Skill:
                if it._type_id in f.skills:
                    continue
                f.skills.add(it)
            elif cls in (Implant, Booster, Subsystem, Rig, Drone, FighterSquad):
                getattr(f, W.SET_KINDS[{Implant: 'implant', Booster: 'booster', Subsystem: 'subsystem', Rig: 'rig',
                                         Drone: 'drone', FighterSquad: 'fighter'}[cls]]).add(it)
            elif cls in (ModuleHigh, ModuleMid, ModuleLow):
                getattr(f.modules, {ModuleHigh: 'high', ModuleMid: 'mid', ModuleLow: 'low'}[cls]).equip(it)
            else:
                continue
            w2.items[it._vid] = it
            used += 1
        lines = w2.uni.lines() + w2.snapshot_lines() + ['Q']
        ans = WC.split_answers(C.run_driver('drv_world', '\n'.join(lines) + '\n'))
        mv, mr = W.parse_model(ans[0])
        iv, ir = w2.observe()
    except ZeroDivisionError:
        return
    rep.dist['reused_items'] += used
    ties = [k for k, v in mv.items() if k[0] == 'unrounded'
            and abs(abs(float(v) * 100 - round(float(v) * 100)) - 0.5) < 1e-7]
    if ties:
        rep.fragile += 1
        return
    for key, val in iv.items():
        if not W.same_value(mv.get(key, 'missing'), val):
            rep.disagree('L1:reuse-value', mv.get(key, 'missing'), val,
                         dict(F.case_of(seed, pname, h['ops']), key=key, note='items re-used in a fresh fit after tear-down'))
            return
    for vid, r in ir.items():
        if mr.get(vid) != r:
            rep.disagree('L1:reuse-running', mr.get(vid), r, dict(F.case_of(seed, pname, h['ops']), key=vid))
            return


def _keyed_dump(ks):
    if not ks:
        return 'empty'
    return ';'.join('%d:%s' % (k, ','.join(map(str, sorted(ks[k]))) or '-') for k in sorted(ks))


def _keyed(ctx, rep, n, label='keyed'):
    """Register level: the real `KeyedStorage` and the Lean model (`EosModel/Keyed.lean`, theorems in
    `Props/C11Keyed.lean`) run the same call histories; the canonical dump is compared after every call, and the
    residue statement itself (all members gone => dict empty) is checked on the real object."""
    C.load_repo()
    from eos.util.keyed_storage import KeyedStorage
    rnd = ctx.sub_rnd(label)
    lines, want, cases = [], [], []
    for h in range(n):
        nk, nv = rnd.choice([(2, 3), (3, 5), (6, 8)])
        ks = KeyedStorage()
        lines.append('new')
        want.append('empty')
        ops = []
        guarded = True
        for _ in range(rnd.randint(4, 40)):
            k = rnd.randrange(nk)
            r = rnd.random()
            if r < 0.22:
                d = [rnd.randrange(nv) for _ in range(rnd.randint(0 if rnd.random() < 0.15 else 1, 4))]
                # the argument may be any iterable, and the very bucket stored in the register
                ks.add_data_set(k, rnd.choice([list, tuple, set, iter])(d))
                if not d:
                    guarded = False
                ops.append('as %d %s' % (k, ','.join(map(str, d)) or '-'))
            elif r < 0.44:
                if k in ks and rnd.random() < 0.25:
                    d = sorted(ks[k])
                    ks.rm_data_set(k, ks[k])          # aliasing: passed set is the stored one
                else:
                    d = [rnd.randrange(nv) for _ in range(rnd.randint(0, 4))]
                    ks.rm_data_set(k, rnd.choice([list, tuple, set])(d))
                ops.append('rs %d %s' % (k, ','.join(map(str, d)) or '-'))
            elif r < 0.68:
                v = rnd.randrange(nv)
                ks.add_data_entry(k, v)
                ops.append('ae %d %d' % (k, v))
            elif r < 0.94:
                v = rnd.randrange(nv)
                ks.rm_data_entry(k, v)
                ops.append('re %d %d' % (k, v))
            else:
                ks.pop(k, None)
                ops.append('dk %d' % k)
            lines.append(ops[-1])
            want.append(_keyed_dump(ks))
            if guarded and any(not b for b in ks.values()):
                rep.violate('KeyedStorage holds an empty bucket after a history without empty add_data_set',
                            {'keyed_ops': list(ops)})
                return
        # drain: remove everything that is still a member; the dict itself must be empty afterwards
        for k in sorted(ks):
            for v in sorted(ks[k]):
                ops.append('re %d %d' % (k, v))
                lines.append(ops[-1])
                ks.rm_data_entry(k, v)
                want.append(_keyed_dump(ks))
        if guarded and len(ks):
            rep.violate('KeyedStorage keeps %d keys after every member was removed' % len(ks), {'keyed_ops': list(ops)})
            return
        cases.append((h, ops, guarded))
        rep.case(sig=('keyed', tuple(ops)) if len(ops) >= 8 else None, sample={'keyed_ops': ops[:12]},
                 kind='keyed-guarded' if guarded else 'keyed-empty-add')
    got = C.run_driver('drv_keyed', '\n'.join(lines) + '\n')
    if len(got) != len(want):
        raise C.InfraError('drv_keyed: %d lines for %d ops' % (len(got), len(want)))
    pos = 0
    for i, (g, w) in enumerate(zip(got, want)):
        if lines[i] == 'new':
            pos = i
        if g != w:
            rep.disagree('L2:keyed-storage', g, w, {'keyed_ops': lines[pos + 1:i + 1]})
            return
    # the excluded point of `run_no_residue` (theorem unguarded_add_creates_empty_bucket), replayed on the class
    ks = KeyedStorage()
    ks.add_data_set(7, ())
    rep.dist['keyed: add_data_set(k, ()) creates an empty bucket on impl'] = int(7 in ks and not ks[7])
    ks.rm_data_set(7, ())
    if len(ks):
        rep.violate('rm_data_set does not drop an empty bucket', {'keyed_ops': ['as 7 -', 'rs 7 -']})


def _projpair(ctx, rep, n, label='projpair'):
    """The real `ProjectionRegister.apply_projector` / `unapply_projector` against `ProjReg` (Keyed.lean); theorem
    `C11Proj.conv_run`: projector->targets and target->projectors stay converse relations after every history."""
    C.load_repo()
    from eos.calculator.projection import ProjectionRegister
    rnd = ctx.sub_rnd(label)
    pre = '_ProjectionRegister__'
    lines, want = [], []
    for h in range(n):
        reg = ProjectionRegister()
        a, b = getattr(reg, pre + 'projector_tgts'), getattr(reg, pre + 'tgt_projectors')
        lines.append('pnew')
        want.append('empty | empty')
        np_, nt = rnd.choice([(2, 3), (3, 4), (5, 6)])
        ops = []
        for _ in range(rnd.randint(3, 30)):
            pr = rnd.randrange(np_)
            if rnd.random() < 0.5:
                ts = [rnd.randrange(nt) for _ in range(rnd.randint(0 if rnd.random() < 0.1 else 1, 3))]
                reg.apply_projector(pr, rnd.choice([list, tuple])(ts))
                ops.append('pa %d %s' % (pr, ','.join(map(str, ts)) or '-'))
            else:
                if pr in a and rnd.random() < 0.4:
                    ts = sorted(a[pr])
                    reg.unapply_projector(pr, reg.get_projector_tgts(pr))       # the stored set itself (D17)
                else:
                    ts = [rnd.randrange(nt) for _ in range(rnd.randint(0, 3))]
                    reg.unapply_projector(pr, ts)
                ops.append('pu %d %s' % (pr, ','.join(map(str, ts)) or '-'))
            lines.append(ops[-1])
            want.append(_keyed_dump(a) + ' | ' + _keyed_dump(b))
            conv = ({(p_, t) for p_ in a for t in a[p_]} == {(p_, t) for t in b for p_ in b[t]})
            if not conv:
                rep.violate('projection register: projector->targets and target->projectors are no longer converse '
                            'relations: %s' % want[-1], {'keyed_ops': list(ops)})
                return
        rep.case(sig=('projpair', tuple(ops)) if len(ops) >= 6 else None, sample={'keyed_ops': ops[:12]}, kind='projpair')
    got = C.run_driver('drv_keyed', '\n'.join(lines) + '\n')
    if len(got) != len(want):
        raise C.InfraError('drv_keyed: %d lines for %d ops' % (len(got), len(want)))
    pos = 0
    for i, (g, w) in enumerate(zip(got, want)):
        if lines[i] == 'pnew':
            pos = i
        if g != w:
            rep.disagree('L2:projection-pair', g, w, {'keyed_ops': lines[pos + 1:i + 1]})
            return


def _parking(ctx, rep, n, label='parking'):
    """Real fits against `AffReg` (Keyed.lean; theorems `C11Park.*`): modules with a direct ship-domain modifier are
    added / removed while the ship is set, replaced and cleared; the two private stores of the real affection
    register (`__affectors_item_awaiting`, `__affectors_item_active`) are dumped after every operation."""
    C.load_repo()
    from eos import Fit, ModuleHigh, Ship, SolarSystem, State
    from eos.const.eos import ModAffecteeFilter, ModDomain, ModOperator
    from eos.const.eve import EffectCategoryId
    from eos.eve_obj.modifier import DogmaModifier
    from harness import mem
    rnd = ctx.sub_rnd(label)
    ch = mem.MemCache()
    a = ch.mkattr()
    mod = DogmaModifier(affectee_filter=ModAffecteeFilter.item, affectee_domain=ModDomain.ship,
                        affectee_attr_id=a.id, operator=ModOperator.post_percent, affector_attr_id=a.id)
    e = ch.mkeffect(category_id=EffectCategoryId.passive, modifiers=(mod,))
    modt = ch.mktype(attrs={a.id: 10}, effects=[e])
    shipt = ch.mktype(attrs={a.id: 100})
    src = mem.source(ch)
    lines, want = [], []
    for h in range(n):
        ss = SolarSystem(source=src)
        fit = Fit(solar_system=ss)
        aff = ss._calculator._CalculationService__affections
        aw, ac = aff._AffectionRegister__affectors_item_awaiting, aff._AffectionRegister__affectors_item_active
        ids = {fit: 0}
        mods, nship = {}, [0]

        def dump(st):
            if not st:
                return 'empty'
            return ';'.join('%d:%s' % (k, ','.join(map(str, v))) for k, v in
                            sorted((ids[k], sorted(ids[sp.item] for sp in st[k])) for k in st))
        lines.append('anew')
        want.append('empty | empty')
        ops = []
        for _ in range(rnd.randint(4, 30)):
            r = rnd.random()
            new = []
            if r < 0.3:
                i = rnd.randrange(1, 7)
                if i in mods:
                    continue
                m = mods[i] = ModuleHigh(modt.id, state=State.offline)
                ids[m] = i
                fit.modules.high.append(m)
                new = ['sa %d' % i]
            elif r < 0.55:
                if not mods:
                    continue
                i = rnd.choice(sorted(mods))
                fit.modules.high.remove(mods.pop(i))
                new = ['su %d' % i]
            elif r < 0.85:
                nship[0] += 1
                sh = Ship(shipt.id)
                ids[sh] = 10 + nship[0]
                new = (['ush'] if fit.ship is not None else []) + ['rsh %d' % ids[sh]]
                fit.ship = sh
            else:
                if fit.ship is None:
                    continue
                fit.ship = None
                new = ['ush']
            for ln in new[:-1]:
                lines.append(ln)
                want.append(None)              # intermediate state of a replacement: not observable on impl
            lines.append(new[-1])
            ops += new
            want.append(dump(aw) + ' | ' + dump(ac))
            held = {ids[sp.item] for st in (aw, ac) for k in st for sp in st[k]}
            if held != set(mods):
                rep.violate('ship-domain specs held by the affection register %s differ from the fitted modules %s'
                            % (sorted(held), sorted(mods)), {'keyed_ops': list(ops)})
                return
        rep.case(sig=('parking', tuple(ops)) if len(ops) >= 6 else None, sample={'keyed_ops': ops[:12]}, kind='parking')
    got = C.run_driver('drv_keyed', '\n'.join(lines) + '\n')
    if len(got) != len(want):
        raise C.InfraError('drv_keyed: %d lines for %d ops' % (len(got), len(want)))
    pos = 0
    for i, (g, w) in enumerate(zip(got, want)):
        if lines[i] == 'anew':
            pos = i
        if w is not None and g != w:
            rep.disagree('L2:spec-parking', g, w, {'keyed_ops': lines[pos + 1:i + 1]})
            return


def correspondence(ctx):
    rep = ctx.report
    rep.rules.append(RULE)
    _keyed(ctx, rep, ctx.n(400, 8000))
    _parking(ctx, rep, ctx.n(200, 3000))
    _projpair(ctx, rep, ctx.n(300, 6000))
    _teardown(ctx, rep, ['basic', 'fleet', 'fleetheavy', 'projheavy', 'long', 'three-fits-decimal', 'pymods'], ctx.n(35, 700), 'teardown')
    _teardown_restr(ctx, rep, ctx.n(150, 3000))


def _k1_residue_witness(rep):
    """Known finding K1 seen at removal: the target ship leaves its fit while targeted."""
    from eos import Fit, ModuleHigh, Ship, SolarSystem, State
    from eos.const.eos import ModAffecteeFilter, ModAggregateMode, ModDomain, ModOperator
    from eos.const.eve import EffectCategoryId
    from eos.eve_obj.modifier import DogmaModifier
    from harness import mem
    ch = mem.MemCache()
    a = ch.mkattr()
    mod = DogmaModifier(affectee_filter=ModAffecteeFilter.domain, affectee_domain=ModDomain.target,
                        affectee_attr_id=a.id, operator=ModOperator.post_percent,
                        aggregate_mode=ModAggregateMode.stack, affector_attr_id=a.id)
    e = ch.mkeffect(category_id=EffectCategoryId.target, modifiers=(mod,))
    modt = ch.mktype(attrs={a.id: 10}, effects=[e], default_effect=e)
    shipt = ch.mktype(attrs={a.id: 100})
    ss = SolarSystem(source=mem.source(ch))
    f, g = Fit(solar_system=ss), Fit(solar_system=ss)
    m = ModuleHigh(modt.id, state=State.active)
    f.modules.high.append(m)
    s = Ship(shipt.id)
    g.ship = s
    m.target = s
    g.ship = None                 # the target leaves while targeted
    f.modules.high.remove(m)
    f.character = None
    g.character = None
    ss.fits.clear()
    res = R.residue(ss)
    rep.case(kind='k1-witness')
    if res:
        rep.violate('K1 witness: target removed while targeted leaves %d stale register entries' % len(res),
                    {'witness': 'target-leaves-while-targeted', 'residue': [r[0] for r in res[:3]]}, cls='K1')


def oracle(ctx):
    # the emptiness walk itself runs inside `correspondence` (it needs the same histories)
    _k1_residue_witness(ctx.report)
    _designed_two_fit_hardeners(ctx.report)
    _partial_removal(ctx, ctx.report, ['projheavy', 'fleetheavy', 'basic', 'pymods'], ctx.n(35, 500))


def search(ctx, broken):
    _teardown(ctx, ctx.report, ['basic', 'fleet', 'noswitch-projected', 'long'], 250, 'search')


def _replay_keyed(ops):
    """Re-run a KeyedStorage call history on the real class and on the Lean model."""
    C.load_repo()
    from eos.util.keyed_storage import KeyedStorage
    ks, want = KeyedStorage(), []
    if ops and ops[0][:2] in ('pa', 'pu'):
        from eos.calculator.projection import ProjectionRegister
        reg = ProjectionRegister()
        a, b = reg._ProjectionRegister__projector_tgts, reg._ProjectionRegister__tgt_projectors
        for op in ops:
            t = op.split()
            d = [] if t[2] == '-' else [int(x) for x in t[2].split(',')]
            pr = int(t[1])
            if t[0] == 'pu' and pr in a and set(d) == a[pr]:
                d = reg.get_projector_tgts(pr)          # the generator passes the stored set itself in this case
            (reg.apply_projector if t[0] == 'pa' else reg.unapply_projector)(pr, d)
            want.append(_keyed_dump(a) + ' | ' + _keyed_dump(b))
        got = C.run_driver('drv_keyed', '\n'.join(ops) + '\n')
        bad = 0
        for op, g, w in zip(ops, got, want):
            print('%-14s model %-34s impl %s' % (op, g, w))
            bad |= g != w
        bad |= {(p_, t) for p_ in a for t in a[p_]} != {(p_, t) for t in b for p_ in b[t]}
        return 1 if bad else 0
    for op in ops:
        t = op.split()
        d = [] if len(t) < 3 or t[2] == '-' else [int(x) for x in t[2].split(',')]
        k = int(t[1])
        {'as': lambda: ks.add_data_set(k, d), 'rs': lambda: ks.rm_data_set(k, ks[k] if k in ks and set(d) == ks[k] else d),
         'ae': lambda: ks.add_data_entry(k, d[0]), 're': lambda: ks.rm_data_entry(k, d[0]),
         'dk': lambda: ks.pop(k, None)}[t[0]]()
        want.append(_keyed_dump(ks))
    got = C.run_driver('drv_keyed', '\n'.join(ops) + '\n')
    bad = 0
    for op, g, w in zip(ops, got, want):
        print('%-14s model %-30s impl %s' % (op, g, w))
        bad |= g != w
    guarded = not any(o.startswith('as ') and o.endswith(' -') for o in ops)
    if guarded and any(not b for b in ks.values()):
        print('impl: empty bucket left')
        bad = 1
    return 1 if bad else 0


def _replay_parking(ops):
    C.load_repo()
    from eos import Fit, ModuleHigh, Ship, SolarSystem, State
    from eos.const.eos import ModAffecteeFilter, ModDomain, ModOperator
    from eos.const.eve import EffectCategoryId
    from eos.eve_obj.modifier import DogmaModifier
    from harness import mem
    ch = mem.MemCache()
    a = ch.mkattr()
    mod = DogmaModifier(affectee_filter=ModAffecteeFilter.item, affectee_domain=ModDomain.ship,
                        affectee_attr_id=a.id, operator=ModOperator.post_percent, affector_attr_id=a.id)
    e = ch.mkeffect(category_id=EffectCategoryId.passive, modifiers=(mod,))
    modt = ch.mktype(attrs={a.id: 10}, effects=[e])
    shipt = ch.mktype(attrs={a.id: 100})
    ss = SolarSystem(source=mem.source(ch))
    fit = Fit(solar_system=ss)
    aff = ss._calculator._CalculationService__affections
    aw, ac = aff._AffectionRegister__affectors_item_awaiting, aff._AffectionRegister__affectors_item_active
    ids, mods = {fit: 0}, {}

    def dump(st):
        if not st:
            return 'empty'
        return ';'.join('%d:%s' % (k, ','.join(map(str, v))) for k, v in
                        sorted((ids[k], sorted(ids[sp.item] for sp in st[k])) for k in st))
    got = C.run_driver('drv_keyed', '\n'.join(ops) + '\n')
    bad = 0
    for n, op in enumerate(ops):
        t = op.split()
        if t[0] == 'sa':
            m = mods[int(t[1])] = ModuleHigh(modt.id, state=State.offline)
            ids[m] = int(t[1])
            fit.modules.high.append(m)
        elif t[0] == 'su':
            fit.modules.high.remove(mods.pop(int(t[1])))
        elif t[0] == 'rsh':
            sh = Ship(shipt.id)
            ids[sh] = int(t[1])
            fit.ship = sh
        elif t[0] == 'ush':
            if n + 1 < len(ops) and ops[n + 1].startswith('rsh'):
                print('%-8s model %-30s (replacement, not observable)' % (op, got[n]))
                continue
            fit.ship = None
        w = dump(aw) + ' | ' + dump(ac)
        print('%-8s model %-30s impl %s' % (op, got[n], w))
        bad |= got[n] != w
    held = {ids[sp.item] for st in (aw, ac) for k in st for sp in st[k]}
    bad |= held != set(mods)
    return 1 if bad else 0


def replay(path):
    import json
    p = C.VERIF / path if not str(path).startswith('/') else path
    data = json.load(open(p))
    v = data.get('violation') or (data.get('broken') or [{}])[0].get('detail')
    case = (v or {}).get('case') if isinstance(v, dict) else None
    if isinstance(case, dict) and 'keyed_ops' in case:
        if case['keyed_ops'] and case['keyed_ops'][0].split()[0] in ('sa', 'su', 'rsh', 'ush'):
            return _replay_parking(case['keyed_ops'])
        return _replay_keyed(case['keyed_ops'])
    return F.generic_replay(PID, path)
