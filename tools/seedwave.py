"""Process a wave of independently written changes in parallel.

usage: seedwave.py <root with <PROP>/<k>/{patch.diff,demo.py,note.txt}> <first seed index> [-j N] [PROP ...]

Every worker owns a private copy of /verif (with its Lean build directory) under /dev/shm, so that the
regenerated `lean/EosGen` of one changed tree never meets the build of another; `tools/seedtool.py` runs inside
that copy and the resulting `seeded/<id>/` is copied back here.  Development aid, not part of any check.
"""
import os
import shutil
import subprocess
import sys
from concurrent.futures import ThreadPoolExecutor

VERIF = os.path.dirname(os.path.dirname(os.path.abspath(__file__)))
# which checks see a change written against a property
ALSO = {'C01': ['C13'], 'C02': ['C01', 'C08'], 'C09': ['C01', 'C12'], 'C10': ['C01', 'C11'], 'C11': ['C01'],
        'C13': ['C01'], 'C14': ['C01'], 'C12': ['C09'], 'C03': [], 'C04': [], 'C05': ['C10'], 'C06': ['C07'],
        'C07': ['C06'], 'C08': ['C02', 'C01'], 'C15': ['C16', 'C17'], 'C16': ['C15', 'C17'], 'C17': ['C15', 'C16']}


def work(args):
    k, jobs = args
    copy = '/dev/shm/vw%s_%d' % (os.environ.get('SEEDWAVE_TAG', 'a'), k)
    shutil.rmtree(copy, ignore_errors=True)
    subprocess.run(['rsync', '-a', '--exclude', '.git', '--exclude', 'replays', '--exclude', 'evidence_scratch',
                    VERIF + '/', copy + '/'], check=True)
    out = []
    for src, sid, prop in jobs:
        checks = [prop] + ALSO.get(prop, [])
        p = subprocess.run(['/venv/bin/python', 'tools/seedtool.py', src, sid, prop] + checks, cwd=copy,
                           stdout=subprocess.PIPE, stderr=subprocess.STDOUT, text=True)
        out.append('== %s\n%s' % (sid, p.stdout))
        dst = os.path.join(VERIF, 'seeded', sid)
        if os.path.isdir(os.path.join(copy, 'seeded', sid)):
            shutil.rmtree(dst, ignore_errors=True)
            shutil.copytree(os.path.join(copy, 'seeded', sid), dst)
        print(out[-1], flush=True)
    shutil.rmtree(copy, ignore_errors=True)
    return out


def main():
    argv = sys.argv[1:]
    j = 4
    if '-j' in argv:
        i = argv.index('-j')
        j = int(argv[i + 1])
        del argv[i:i + 2]
    if argv[0] == '--seeded':
        # re-run every recorded change of seeded/ (optionally only some properties) with the current checks
        root = os.path.join(VERIF, 'seeded')
        only = set(argv[1:])
        jobs = [(os.path.join(root, d), d, d.split('-')[0]) for d in sorted(os.listdir(root))
                if os.path.exists(os.path.join(root, d, 'patch.diff')) and os.path.exists(os.path.join(root, d, 'demo.py'))
                and (not only or d.split('-')[0] in only)]
        buckets = [jobs[i::j] for i in range(j)]
        with ThreadPoolExecutor(j) as ex:
            list(ex.map(work, [(k, b) for k, b in enumerate(buckets) if b]))
        return
    root, first = argv[0], int(argv[1])
    props = argv[2:] or sorted(d for d in os.listdir(root) if os.path.isdir(os.path.join(root, d)))
    jobs = []
    for prop in props:
        ks = sorted(d for d in os.listdir(os.path.join(root, prop)) if d.isdigit())
        for n, k in enumerate(ks):
            src = os.path.join(root, prop, k)
            if os.path.exists(os.path.join(src, 'patch.diff')) and os.path.exists(os.path.join(src, 'demo.py')):
                jobs.append((src, '%s-%d' % (prop, first + n), prop))
    buckets = [jobs[i::j] for i in range(j)]
    with ThreadPoolExecutor(j) as ex:
        list(ex.map(work, [(k, b) for k, b in enumerate(buckets) if b]))


if __name__ == '__main__':
    main()
