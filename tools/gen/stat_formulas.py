"""EosGen/StatFormulas.lean: the straight-line numeric formulas behind fit statistics (property C04),
translated from the Python AST, and the complete decision table of `Effect.get_cycle_parameters`
obtained by running the real method over a grid of stubbed effect parameters."""
import ast
import itertools
import math
import os
import sys

sys.path.insert(0, os.path.dirname(os.path.dirname(os.path.abspath(__file__))))
import common as C  # noqa: E402
from gen._ast2lean import Tr, Unsupported, func_ast, dotted  # noqa: E402

D4 = ('em', 'thermal', 'kinetic', 'explosive')
P = {'dmg_profile.%s' % t: 'p_%s' % t[:2] for t in D4}
R = {'resists.%s' % t: 'r_%s' % t[:2] for t in D4}
LR = {'layer_resists.%s' % t: 'r_%s' % t[:2] for t in D4}
PARGS = ' '.join(P.values())
RARGS = ' '.join(R.values())


def _body(fn):
    return fn.body


def _div(side):
    def pick(n):
        if not (isinstance(n, ast.BinOp) and isinstance(n.op, ast.Div)):
            raise Unsupported('return is not a division: ' + ast.dump(n)[:60])
        return getattr(n, side)
    return pick


def _attr_get_hook(var, default_out):
    """`<x>.attrs.get(<anything>, <const>)` -> variable `var`; the literal default is recorded."""
    def hook(n):
        if (isinstance(n, ast.Call) and isinstance(n.func, ast.Attribute) and n.func.attr == 'get'
                and dotted(n.func.value) == 'self.attrs' and len(n.args) == 2 and isinstance(n.args[1], ast.Constant)):
            default_out.append(n.args[1].value)
            return var
        return None
    return hook


def _method_hook(mapping):
    """calls `self.<name>(args...)` / `<obj>.<name>()` named in mapping -> given lean term."""
    def hook(n):
        if isinstance(n, ast.Call) and isinstance(n.func, ast.Attribute) and not n.keywords:
            key = (n.func.attr, tuple(dotted(a) for a in n.args))
            if key in mapping:
                return mapping[key]
        return None
    return hook


def _loop_sum(fn, acc, call):
    """Shape `acc = 0; for item in self.sequence: acc += item.<call>(); return acc`."""
    b = _body(fn)
    ok = (len(b) == 3 and isinstance(b[0], ast.Assign) and dotted(b[0].targets[0]) == acc
          and isinstance(b[0].value, ast.Constant) and b[0].value.value == 0
          and isinstance(b[1], ast.For) and dotted(b[1].iter) == 'self.sequence' and len(b[1].body) == 1
          and isinstance(b[1].body[0], ast.AugAssign) and isinstance(b[1].body[0].op, ast.Add)
          and dotted(b[1].body[0].target) == acc and isinstance(b[1].body[0].value, ast.Call)
          and dotted(b[1].body[0].value.func) == '%s.%s' % (dotted(b[1].target), call)
          and isinstance(b[2], ast.Return) and dotted(b[2].value) == acc)
    if not ok:
        raise Unsupported('%s is not a plain sum over self.sequence' % fn.name)


def _try_return(fn):
    for node in ast.walk(fn):
        if isinstance(node, ast.Try):
            rets = [s for s in node.body if isinstance(s, ast.Return)]
            if len(rets) == 1:
                return rets[0].value
    raise Unsupported('%s: no try/return' % fn.name)


def _combine_parts(fn):
    b = [s for s in _body(fn) if not (isinstance(s, ast.Expr) and isinstance(s.value, ast.Constant))]
    names = []
    i = 0
    while i < len(b) and isinstance(b[i], ast.Assign):
        if not (isinstance(b[i].value, ast.Constant) and b[i].value.value == 0):
            raise Unsupported('_combine: accumulator not initialised to 0')
        names.append(dotted(b[i].targets[0]))
        i += 1
    if len(names) != 4 or len(b) != 7:
        raise Unsupported('_combine: unexpected shape')
    loop, cond, ret = b[4], b[5], b[6]
    if not (isinstance(loop, ast.For) and dotted(loop.iter) == 'dmg_containers' and not loop.orelse):
        raise Unsupported('_combine: loop')
    cvar = dotted(loop.target)
    if not (isinstance(cond, ast.If) and not cond.orelse and isinstance(cond.test, ast.Compare)
            and dotted(cond.test.left) == 'tgt_resists' and isinstance(cond.test.ops[0], ast.IsNot)
            and isinstance(cond.test.comparators[0], ast.Constant) and cond.test.comparators[0].value is None):
        raise Unsupported('_combine: resist guard')
    if not (isinstance(ret, ast.Return) and isinstance(ret.value, ast.Call) and dotted(ret.value.func) == 'cls'
            and [dotted(a) for a in ret.value.args] == names):
        raise Unsupported('_combine: return')
    tup = ast.Return(value=None)
    out = tuple(ast.Name(id=n) for n in names)
    step = Tr(dict({n: n for n in names}, **{'%s.%s' % (cvar, t): 'c_%s' % t[:2] for t in D4})).body(
        loop.body + [tup], ret=lambda _: out)
    resist = Tr(dict({n: n for n in names}, **{'tgt_resists.%s' % t: 'r_%s' % t[:2] for t in D4})).body(
        cond.body + [tup], ret=lambda _: out)
    return names, step, resist


def _scale_parts(fn):
    """DmgStats.__init__: the `if mult is not None:` block and the order handed to the parent constructor."""
    blk = None
    for s in _body(fn):
        if (isinstance(s, ast.If) and isinstance(s.test, ast.Compare) and dotted(s.test.left) == 'mult'
                and isinstance(s.test.ops[0], ast.IsNot)):
            blk = s
    last = _body(fn)[-1]
    if blk is None or not (isinstance(last, ast.Expr) and isinstance(last.value, ast.Call)
                           and dotted(last.value.func) == 'DmgTypesTotal.__init__'):
        raise Unsupported('DmgStats.__init__: unexpected shape')
    args = [dotted(a) for a in last.value.args[1:]]
    if args != list(D4):
        raise Unsupported('DmgStats.__init__: constructor argument order %r' % (args,))
    out = tuple(ast.Name(id=n) for n in D4)
    return Tr({n: n for n in D4 + ('mult',)}).body(blk.body + [ast.Return(value=None)], ret=lambda _: out)


class _Grid:
    CYCLES = [None, 0, -1, 0.5, 1, 2, 3, math.inf]
    DUR = [None, 0, 4]
    INACT = [None, 0, 2, 7]
    RELOAD = [None, 0, 2, 5]


def _cycle_table():
    from eos.eve_obj.effect import Effect
    from eos.eve_obj.effect.cycle import CycleInfo, CycleSequence

    class Stub(Effect):
        def __init__(self, c, d, i, r):
            Effect.__init__(self, 1)
            self.p = (c, d, i, r)

        def get_cycles_until_reload(self, item):
            return self.p[0]

        def get_duration(self, item):
            return self.p[1]

        def get_forced_inactive_time(self, item):
            return self.p[2]

        def get_reload_time(self, item):
            return self.p[3]

    def num(v):
        if v is None:
            return 'none'
        if v == math.inf:
            return '(some .inf)'
        n, d = float(v).as_integer_ratio()
        return '(some (.fin (%s)))' % ('%d' % n if d == 1 else '(%d : Rat)/%d' % (n, d))

    def rat(v):
        n, d = float(v).as_integer_ratio()
        return '(%d)' % n if d == 1 else '((%d : Rat)/%d)' % (n, d)

    def orat(v):
        return 'none' if v is None else '(some %s)' % rat(v)

    def info(ci):
        if type(ci) is not CycleInfo:
            raise Unsupported('cycle sequence member %r' % (ci,))
        q = '.inf' if ci.quantity == math.inf else '(.fin %s)' % rat(ci.quantity)
        return '⟨%s, %s, %s⟩' % (rat(ci.active_time), rat(ci.inactive_time), q)

    rows = []
    for c, d, i, r, flag in itertools.product(_Grid.CYCLES, _Grid.DUR, _Grid.INACT, _Grid.RELOAD, (False, True)):
        out = Stub(c, d, i, r).get_cycle_parameters(None, flag)
        if out is None:
            o = 'none'
        elif type(out) is CycleInfo:
            o = '(some (.info %s))' % info(out)
        elif type(out) is CycleSequence:
            q = '.inf' if out.quantity == math.inf else '(.fin %s)' % rat(out.quantity)
            o = '(some (.seq [%s] %s))' % (', '.join(info(x) for x in out.sequence), q)
        else:
            raise Unsupported('get_cycle_parameters returned %r' % (out,))
        rows.append('  (%s, %s, %s, %s, %s, %s)' % (num(c), orat(d), orat(i), orat(r), 'true' if flag else 'false', o))
    return rows


def generate():
    C.load_repo()
    from eos.item.mixin.tanking import BufferTankingMixin as T
    from eos.stats_container.dmg_types import DmgStats
    from eos.eve_obj.effect.cycle import CycleInfo, CycleSequence
    from eos.eve_obj.effect.effect import Effect
    from eos.eve_obj.effect.dmg_dealer.base import DmgDealerEffect
    from eos.eve_obj.effect.repairs.base import BaseRepairEffect
    from eos.item.module import Module
    mm = lambda n: getattr(T, '_BufferTankingMixin' + n)  # noqa: E731
    # resist from resonance
    dflt = []
    resist = Tr({}, hook=_attr_get_hook('res', dflt)).body(_body(func_ast(mm('__get_resist_by_attr'))))
    if len(dflt) != 1:
        raise Unsupported('__get_resist_by_attr: expected one attrs.get with a literal default')
    # tanking efficiency and its parts
    eff = func_ast(T._get_tanking_efficiency)
    names = dict(P, **R)
    tank = Tr(names).body(_body(eff))
    tank_dealt = Tr(names).body(_body(eff), ret=_div('left'))
    tank_recv = Tr(names).body(_body(eff), ret=_div('right'))
    # layer EHP
    call = '(tankEff %s %s)' % (PARGS, RARGS)
    layer = Tr({'layer_hp': 'hp'}, hook=_method_hook(
        {('_get_tanking_efficiency', ('dmg_profile', 'layer_resists')): call})).body(_body(func_ast(mm('__get_layer_ehp'))))
    wc_fn = func_ast(mm('__get_layer_worst_case_ehp'))
    wc_names = dict({'layer_hp': 'hp'}, **LR)
    worst = Tr(wc_names, {'min': 'min'}).body(_body(wc_fn))
    worst_div = Tr(wc_names, {'min': 'min'}).body(_body(wc_fn), ret=_div('right'))
    # DmgStats
    scale = _scale_parts(func_ast(DmgStats.__init__))
    acc, step, res = _combine_parts(func_ast(DmgStats._combine.__func__))
    # cycles
    ci = {'self.active_time': 'a', 'self.inactive_time': 'i', 'self.quantity': 'q'}
    info_avg = Tr(ci).body(_body(func_ast(CycleInfo.average_time.fget)))
    info_time = Tr(ci).body(_body(func_ast(CycleInfo._get_time)))
    info_qty = Tr(ci).body(_body(func_ast(CycleInfo._get_cycle_quantity)))
    seq_avg = Tr({}, hook=_method_hook({('_get_time', ()): 'time', ('_get_cycle_quantity', ()): 'qty'})).body(
        _body(func_ast(CycleSequence.average_time.fget)))
    _loop_sum(func_ast(CycleSequence._get_time), 'time', '_get_time')
    _loop_sum(func_ast(CycleSequence._get_cycle_quantity), 'quantity', '_get_cycle_quantity')
    # per-second rates
    dps_fn = func_ast(DmgDealerEffect.get_dps)
    rets = [n.value for n in ast.walk(dps_fn) if isinstance(n, ast.Return)]
    full = [r for r in rets if isinstance(r, ast.Call) and dotted(r.func) == 'DmgStats' and len(r.args) == 5]
    if len(full) != 1 or [dotted(a) for a in full[0].args[:4]] != ['volley.%s' % t for t in D4]:
        raise Unsupported('DmgDealerEffect.get_dps: unexpected return')
    dps_mult = Tr({'cycle_parameters.average_time': 'avg'}).e(full[0].args[4])
    rps_fn = func_ast(BaseRepairEffect.get_rps)
    rps = Tr({'cycle_parameters.average_time': 'avg'},
             hook=_method_hook({('get_rep_amount', ('item',)): 'amount'})).e(_body(rps_fn)[-1].value)
    for fn in (dps_fn, rps_fn):
        if 'if cycle_parameters is None:' not in ast.unparse(fn):
            raise Unsupported('%s: guard for effects which cannot cycle is gone' % fn.name)
    ms = {'time_ms': 't'}
    duration = Tr(ms).e(_try_return(func_ast(Effect.get_duration)))
    inactive = Tr(ms).e(_try_return(func_ast(Effect.get_forced_inactive_time)))
    reload_s = Tr(ms).e(_try_return(func_ast(Module.reload_time.fget)))
    rows = _cycle_table()
    t4 = 'Rat × Rat × Rat × Rat'
    a4 = ' '.join(acc)
    text = '''/- GENERATED by tools/gen/stat_formulas.py from eos/item/mixin/tanking.py, eos/stats_container/dmg_types.py,
   eos/eve_obj/effect/{cycle,effect}.py, dmg_dealer/base.py, repairs/base.py, eos/item/module.py. Do not edit. -/
import EosModel.Cycle
set_option linter.unusedVariables false
namespace EosGen.StatFormulas
open Eos.Cycle

/-- `__get_resist_by_attr`: `res` stands for `self.attrs.get(attr_id, resistDefault)`. -/
def resist (res : Rat) : Rat := %(resist)s
def resistDefault : Rat := %(dflt)s

/-- `_get_tanking_efficiency` (AST translation); `tankDealt` / `tankReceived` are the two sides of its final division. -/
def tankEff (%(pa)s %(ra)s : Rat) : Rat := %(tank)s
def tankDealt (%(pa)s %(ra)s : Rat) : Rat := %(tank_dealt)s
def tankReceived (%(pa)s %(ra)s : Rat) : Rat := %(tank_recv)s

/-- `__get_layer_ehp`. -/
def layerEhp (hp %(pa)s %(ra)s : Rat) : Rat := %(layer)s

/-- `__get_layer_worst_case_ehp` and the divisor of its final division. -/
def layerWorstEhp (hp %(ra)s : Rat) : Rat := %(worst)s
def worstDivisor (hp %(ra)s : Rat) : Rat := %(worst_div)s

/-- `DmgStats.__init__`: the block executed when `mult is not None`. -/
def statScale (em thermal kinetic explosive mult : Rat) : %(t4)s := %(scale)s

/-- `DmgStats._combine`: accumulator start, loop body, and the block executed when `tgt_resists is not None`. -/
def combineInit : %(t4)s := (0, 0, 0, 0)
def combineStep (%(a4)s c_em c_th c_ki c_ex : Rat) : %(t4)s := %(step)s
def combineResist (%(a4)s r_em r_th r_ki r_ex : Rat) : %(t4)s := %(res)s

/-- `CycleInfo.average_time`, `_get_time`, `_get_cycle_quantity`; `CycleSequence.average_time` over the plain sums
    `time` / `qty` of its members (the generator checks both loops are plain sums over `self.sequence`). -/
def infoAvg (a i : Rat) : Rat := %(info_avg)s
def infoTime (a i q : Rat) : Rat := %(info_time)s
def infoQty (q : Rat) : Rat := %(info_qty)s
def seqAvg (time qty : Rat) : Rat := %(seq_avg)s

/-- Fifth argument of the `DmgStats(...)` returned by `DmgDealerEffect.get_dps`; return of `BaseRepairEffect.get_rps`. -/
def dpsMult (avg : Rat) : Rat := %(dps_mult)s
def rps (amount avg : Rat) : Rat := %(rps)s

/-- millisecond attributes to seconds: `Effect.get_duration`, `Effect.get_forced_inactive_time`, `Module.reload_time`. -/
def durationS (t : Rat) : Rat := %(duration)s
def inactiveS (t : Rat) : Rat := %(inactive)s
def reloadS (t : Rat) : Rat := %(reload_s)s

/-- `Effect.get_cycle_parameters` run on a stub effect for every combination of
    (cycles until reload, duration, forced inactive time, reload time, reload flag) of the grid. -/
def cycleTable : List (Option ERat × Option Rat × Option Rat × Option Rat × Bool × Option Cyc) := [
%(rows)s]

end EosGen.StatFormulas
''' % dict(resist=resist, dflt=Tr({}).num(dflt[0]), pa=PARGS, ra=RARGS, tank=tank, tank_dealt=tank_dealt,
           tank_recv=tank_recv, layer=layer, worst=worst, worst_div=worst_div, t4=t4, scale=scale, a4=a4, step=step,
           res=res, info_avg=info_avg, info_time=info_time, info_qty=info_qty, seq_avg=seq_avg, dps_mult=dps_mult,
           rps=rps, duration=duration, inactive=inactive, reload_s=reload_s, rows=',\n'.join(rows))
    return {'EosGen/StatFormulas.lean': text}


if __name__ == '__main__':
    for k, v in generate().items():
        print(v)
