"""EosGen/CleanerRefs.lean: what the data stage of eos/eve_obj_builder effectively does, obtained by
running the real code on minimal data sets:

* the EFFECTIVE single-edge reference relation of `Cleaner`: for every (table, field) named in the data
  handler docstrings or read by Converter / ModBuilder / WarfareBuffTemplateBuilder (key-logging rows),
  every modifier-info key, every attribute id of `AttrId` as a value carrier and every buff sub-field, a data
  set in which the only link from a kept row to five weak rows (one per entity table) is that field;
  the rows that survive `Cleaner().clean` are the edges;
* the auxiliary tables, the strong categories and groups (`_pump_evetypes`);
* the fields whose value the converter puts into an id slot of a built object (sentinel 9777);
* primary keys (`ValidatorPreClean`), the normalizer's field -> attribute map, the rack effect ids.
"""
import copy
import os
import re
import sys

sys.path.insert(0, os.path.dirname(os.path.dirname(os.path.abspath(__file__))))
import common as C  # noqa: E402

TABLES = ['evetypes', 'evegroups', 'dgmattribs', 'dgmtypeattribs', 'dgmeffects', 'dgmtypeeffects',
          'dbuffcollections', 'skillreqs', 'typefighterabils']
ENTITY_PK = {'evetypes': 'typeID', 'evegroups': 'groupID', 'dgmattribs': 'attributeID', 'dgmeffects': 'effectID',
             'dbuffcollections': 'buffID'}
T, G, A, E, B, W, X, Y = 9001, 9002, 9003, 9004, 9005, 9006, 9777, 9778   # carriers, the weak target id, a weak group
FUNCS = ['ItemModifier', 'LocationModifier', 'LocationGroupModifier', 'LocationRequiredSkillModifier',
         'OwnerRequiredSkillModifier']


class Unsupported(Exception):
    pass


def doc_fields():
    """{table: [field]}, {table: {section: [sub-field]}} from the BaseDataHandler docstrings."""
    from eos.data_handler.base import BaseDataHandler
    top, sub = {}, {}
    for t in TABLES:
        doc = getattr(BaseDataHandler, 'get_' + t).__doc__ or ''
        m = re.search(r'Fields:\n((?:[ ]+\w+\n)+)', doc)
        if not m:
            raise Unsupported('no field list in the docstring of get_%s' % t)
        lines = m.group(1).splitlines()
        base = len(lines[0]) - len(lines[0].lstrip())
        top[t], sub[t] = [], {}
        for ln in lines:
            ind = len(ln) - len(ln.lstrip())
            if ind == base:
                top[t].append(ln.strip())
            else:
                sub[t].setdefault(top[t][-1], []).append(ln.strip())
    return top, sub


def frozen(tables):
    from eos.eve_obj_builder import EveObjBuilder
    data = {}
    for t in TABLES:
        rows = set()
        for i, row in enumerate(tables.get(t, [])):
            row = dict(row)
            row['table_pos'] = i
            rows.add(EveObjBuilder._freeze_data(row))
        data[t] = rows
    return data


def strong_sets():
    """Categories 0..255 and groups 0..2047 (plus every enum member) whose types `_pump_evetypes` marks strong."""
    from eos.const.eve import TypeCategoryId, TypeGroupId
    from eos.eve_obj_builder.cleaner import Cleaner
    cats = sorted(set(range(256)) | {int(c) for c in TypeCategoryId})
    grps = sorted(set(range(2048)) | {int(g) for g in TypeGroupId})
    off = 100000
    c = Cleaner()
    c.data = frozen({'evegroups': [{'groupID': off + k, 'categoryID': k} for k in cats],
                     'evetypes': [{'typeID': off + k, 'groupID': off + k} for k in cats] +
                                 [{'typeID': g, 'groupID': g} for g in grps]})
    c.strong_data = {}
    c._pump_evetypes()
    strong = {r['typeID'] for r in c.strong_data.get('evetypes', ())}
    return [k for k in cats if off + k in strong], [g for g in grps if g in strong]


class Probe:
    """Single-link experiments on the real Cleaner. In every table row 0 is the kept source row of the
    experiments; in the entity tables row 1 is the weak target. The evetypes source is the weak type W,
    kept through a skill requirement (the strong type T must keep its group to stay strong)."""

    def __init__(self, strong_cat, weak_cat):
        self.base = {
            'evetypes': [{'typeID': W, 'groupID': Y}, {'typeID': X, 'groupID': Y}, {'typeID': T, 'groupID': G}],
            'evegroups': [{'groupID': G, 'categoryID': strong_cat}, {'groupID': X, 'categoryID': weak_cat}],
            'dgmattribs': [{'attributeID': A}, {'attributeID': X}],
            'dgmtypeattribs': [{'typeID': T, 'attributeID': A, 'value': 0}],
            'dgmeffects': [{'effectID': E}, {'effectID': X}],
            'dgmtypeeffects': [{'typeID': T, 'effectID': E}],
            'dbuffcollections': [{'buffID': B}, {'buffID': X}],
            'skillreqs': [{'typeID': T, 'skillTypeID': T, 'level': 1}, {'typeID': T, 'skillTypeID': W, 'level': 1}],
            'typefighterabils': [{'typeID': T, 'abilityID': 9}]}

    def run(self, tables):
        from eos.eve_obj_builder.cleaner import Cleaner
        data = frozen(tables)
        Cleaner().clean(data)
        return data

    def survivors(self, src, change):
        """Entity tables whose weak row X is kept when the first row of `src` is changed; None if that
        row itself does not stay alive (nothing can be observed through it)."""
        tables = copy.deepcopy(self.base)
        change(tables[src][0])
        data = self.run(tables)
        if not any(r['table_pos'] == 0 for r in data[src]):
            return None
        return [t for t in ENTITY_PK if any(r['table_pos'] == 1 for r in data[t])]

    def check_baseline(self, tables=TABLES):
        for t in tables:
            if self.survivors(t, lambda row: None) != []:
                raise Unsupported('baseline of the single-link experiment is not clean for %s' % t)


class LogRow(dict):
    """Row that records which keys are read from it."""

    def __init__(self, tag, log, *a, **k):
        dict.__init__(self, *a, **k)
        self.tag, self.log = tag, log

    def __getitem__(self, k):
        self.log.add((self.tag, k))
        return dict.__getitem__(self, k)

    def get(self, k, d=None):
        self.log.add((self.tag, k))
        return dict.get(self, k, d)


def conv_data(sections, log=None, change=None):
    """A consistent one-of-everything data set for Converter.run (ids X exist in every entity table)."""
    tables = {
        'evetypes': [{'typeID': T, 'groupID': G}, {'typeID': X}],
        'evegroups': [{'groupID': G, 'categoryID': 6}, {'groupID': X}],
        'dgmattribs': [{'attributeID': A}, {'attributeID': X}],
        'dgmtypeattribs': [{'typeID': T, 'attributeID': A, 'value': 1}],
        'dgmeffects': [{'effectID': E, 'modifierInfo': [
            {'func': f, 'domain': 'charID', 'operation': 6, 'modifiedAttributeID': A, 'modifyingAttributeID': A,
             'groupID': G, 'skillTypeID': T} for f in FUNCS]}, {'effectID': X}],
        'dgmtypeeffects': [{'typeID': T, 'effectID': E, 'isDefault': True}],
        'dbuffcollections': [dict({'buffID': B, 'operationName': 'PostPercent', 'aggregateMode': 'Maximum'},
                                  **{s: [{'dogmaAttributeID': A, 'groupID': G, 'skillID': T}] for s in sections})],
        'skillreqs': [{'typeID': T, 'skillTypeID': T, 'level': 1}],
        'typefighterabils': [{'typeID': T, 'abilityID': 9}]}
    if change:
        change(tables)
    if log is None:
        return tables
    out = {}
    for t, rows in tables.items():
        out[t] = []
        for row in rows:
            row = dict(row)
            if 'modifierInfo' in row:
                row['modifierInfo'] = [LogRow('modifierInfo', log, e) for e in row['modifierInfo']]
            for s in sections:
                if s in row:
                    row[s] = [LogRow(s, log, m) for m in row[s]]
            out[t].append(LogRow(t, log, row))
    return out


def id_slots(built):
    """{target table: set of values found in id slots of the built objects}."""
    from eos.const.eos import ModAffecteeFilter as F
    types, attrs, effects, buffs = built
    out = {t: set() for t in ENTITY_PK}

    def extra(flt, v):
        if flt == F.domain_group:
            out['evegroups'].add(v)
        elif flt in (F.domain_skillrq, F.owner_skillrq):
            out['evetypes'].add(v)
    for a in attrs:
        out['dgmattribs'].add(a.max_attr_id)
    for e in effects:
        for slot in ('duration_attr_id', 'discharge_attr_id', 'range_attr_id', 'falloff_attr_id',
                     'tracking_speed_attr_id', 'fitting_usage_chance_attr_id', 'resist_attr_id'):
            out['dgmattribs'].add(getattr(e, slot))
        for m in e.modifiers:
            out['dgmattribs'].update((m.affectee_attr_id, m.affector_attr_id))
            extra(m.affectee_filter, m.affectee_filter_extra_arg)
    for t in types:
        out['evegroups'].add(t.group_id)
        out['dgmattribs'].update(t.attrs)
        out['dgmeffects'].update(t.effects)
        if t.default_effect is not None:
            out['dgmeffects'].add(t.default_effect.id)
        out['evetypes'].update(t.required_skills)
    for b in buffs:
        out['dgmattribs'].add(b.affectee_attr_id)
        extra(b.affectee_filter, b.affectee_filter_extra_arg)
    return out


def lean_str(s):
    if not re.fullmatch(r'[A-Za-z_][A-Za-z0-9_]*', s):
        raise Unsupported('field name %r is not an identifier' % (s,))
    return '"%s"' % s


def lean_ref(src, path, tgt):
    kind = path[0]
    if kind == 'attrval':
        p = '.attrval [%s]' % ', '.join(str(i) for i in path[1])
    else:
        p = '.%s %s' % (kind, ' '.join(lean_str(x) for x in path[1:]))
    return '⟨.%s, %s, .%s⟩' % (src, p, tgt)


def generate():
    C.load_repo()
    from eos.const.eve import AttrId, EffectId
    from eos.eve_obj_builder.converter import Converter
    from eos.eve_obj_builder.normalizer import Normalizer
    from eos.eve_obj_builder.validator_preclean import ValidatorPreClean
    from eos.eve_obj_builder.validator_preconv import ValidatorPreConv
    top, sub = doc_fields()
    sections = sorted(s for s in sub['dbuffcollections'])
    strong_cats, strong_groups = strong_sets()
    if not strong_cats:
        raise Unsupported('no strong category found')
    weak_cat = min(c for c in range(256) if c not in strong_cats)
    probe = Probe(strong_cats[0], weak_cat)
    probe.check_baseline([t for t in TABLES if t != 'dbuffcollections'])

    # --- keys the converter reads
    log = set()
    Converter.run(conv_data(sections, log))
    reads = {t: sorted(k for tag, k in log if tag == t) for t in TABLES + ['modifierInfo'] + sections}

    # --- reference relation of the cleaner
    refs = []
    # value carriers first: a buff attribute is needed to keep the buff row of the other experiments alive
    carriers = {}
    for a in sorted({int(x) for x in AttrId}):
        def ch(row, a=a):
            row['attributeID'] = a
            row['value'] = X
        for tgt in probe.survivors('dgmtypeattribs', ch) or []:
            carriers.setdefault(tgt, []).append(a)
    for tgt, ids in carriers.items():
        refs.append(('dgmtypeattribs', ('attrval', ids), tgt))
    if 'dbuffcollections' in carriers:
        probe.base['dgmtypeattribs'].append({'typeID': T, 'attributeID': carriers['dbuffcollections'][0], 'value': B})
        probe.check_baseline()
    for t in TABLES:
        for f in sorted(set(top[t]) | set(reads[t])):
            if f == 'modifierInfo' or f in sections:
                continue
            for tgt in probe.survivors(t, lambda row, f=f: row.__setitem__(f, X)) or []:
                refs.append((t, ('fk', f), tgt))
    for k in reads['modifierInfo']:
        for tgt in probe.survivors('dgmeffects', lambda row, k=k: row.__setitem__('modifierInfo', [{k: X}])) or []:
            refs.append(('dgmeffects', ('modinfo', k), tgt))
    for s in sections:
        for k in sorted(set(sub['dbuffcollections'][s]) | set(reads[s])):
            for tgt in probe.survivors('dbuffcollections', lambda row, s=s, k=k: row.__setitem__(s, [{k: X}])) or []:
                refs.append(('dbuffcollections', ('buff', s, k), tgt))

    # --- auxiliary tables: a row that carries the strong type's id is restored although nothing refers to it
    aux = []
    for t in TABLES[1:]:
        tables = copy.deepcopy(probe.base)
        row = dict(tables[t][0], typeID=T)
        for k in row:
            if k != 'typeID' and k.endswith('ID'):
                row[k] = 9888
        tables[t].append(row)
        if any(r['table_pos'] == len(tables[t]) - 1 for r in probe.run(tables)[t]):
            aux.append(t)

    # --- id slots of the converter
    base_slots = id_slots(Converter.run(conv_data(sections)))
    conv = []

    def slot_refs(src, path, change):
        try:
            got = id_slots(Converter.run(conv_data(sections, change=change)))
        except KeyError:    # the field selects among named alternatives (operationName ...), it is no id
            return
        for tgt in ENTITY_PK:
            if X in got[tgt] and X not in base_slots[tgt]:
                conv.append((src, path, tgt))
    for t in TABLES:
        for f in reads[t]:
            if f == 'modifierInfo' or f in sections:
                continue
            slot_refs(t, ('fk', f), lambda tb, t=t, f=f: tb[t][0].__setitem__(f, X))
    for k in reads['modifierInfo']:
        def ch(tb, k=k):
            for e in tb['dgmeffects'][0]['modifierInfo']:
                e[k] = X
        slot_refs('dgmeffects', ('modinfo', k), ch)
    for s in sections:
        for k in reads[s]:
            slot_refs('dbuffcollections', ('buff', s, k), lambda tb, s=s, k=k: tb['dbuffcollections'][0][s][0].__setitem__(k, X))

    # --- primary keys: a second row differing only in field f survives iff f is part of the key
    pks = []
    for t in TABLES:
        cols = []
        for f in top[t]:
            r1 = {g: 1 for g in top[t]}
            data = frozen({t: [r1, dict(r1, **{f: 2})]})
            ValidatorPreClean.run(data)
            if len(data[t]) == 2:
                cols.append(f)
        pks.append((t, cols))

    # --- normalizer map
    fields = [f for f in top['evetypes'] if f != 'typeID']
    data = frozen({'evetypes': [dict({'typeID': T}, **{f: 100 + i for i, f in enumerate(fields)})]})
    Normalizer.run(data)
    norm = sorted((fields[r['value'] - 100], int(r['attributeID'])) for r in data['dgmtypeattribs'])

    # --- rack effects: of all effects on one type only the first rack effect survives
    cands = sorted({int(e) for e in EffectId} | set(range(64)))
    racks = set()
    for order in (cands, cands[::-1]):
        rows = frozen({'dgmtypeeffects': [{'typeID': T, 'effectID': e} for e in order]})['dgmtypeeffects']
        before = {r['effectID'] for r in rows}
        ValidatorPreConv._colliding_module_racks(rows)
        racks |= before - {r['effectID'] for r in rows}

    def lst(items):
        return '[' + ',\n   '.join(items) + ']'
    text = '''/- GENERATED by tools/gen/cleaner_refs.py by running eos/eve_obj_builder on minimal data sets. Do not edit. -/
import EosModel.Cleaner
namespace EosGen.Cleaner
open Eos.Cleaner

/-- (source table, how the id is read, target table): the weak target row survived `Cleaner().clean`
    when this was the only link from a kept row. -/
def cleanerRefs : List Ref :=
  %s

/-- Tables whose rows are restored because they carry the typeID of a kept type. -/
def auxTables : List Tbl := [%s]

/-- Categories (of 0..255 and the enum) whose item types `_pump_evetypes` marks strong. -/
def strongCategories : List Int := %s

/-- Groups (of 0..2047 and the enum) whose item types are strong without a group row. -/
def strongGroups : List Int := %s

/-- Fields whose value shows up in an id slot of an object built by `Converter.run`. -/
def converterIdRefs : List Ref :=
  %s

/-- Primary key columns observed on `ValidatorPreClean`. -/
def pkCols : List (Tbl × List String) :=
  %s

/-- evetypes field -> attribute id under which `Normalizer` files it. -/
def normAttrs : List (String × Int) := [%s]

/-- Effect ids of which `_colliding_module_racks` keeps one per type. -/
def rackEffects : List Int := %s

end EosGen.Cleaner
''' % (lst([lean_ref(*r) for r in refs]), ', '.join('.' + t for t in aux), sorted(strong_cats), sorted(strong_groups),
       lst([lean_ref(*r) for r in conv]),
       lst(['(.%s, [%s])' % (t, ', '.join(lean_str(c) for c in cols)) for t, cols in pks]),
       ', '.join('(%s, %d)' % (lean_str(f), a) for f, a in norm), sorted(racks))
    return {'EosGen/CleanerRefs.lean': text}


if __name__ == '__main__':
    for k, v in generate().items():
        print(v)
