"""EosGen/RestrictionMaps.lean: what the 34 restriction classes (and the 11 stat registers they read)
say about themselves in the current source - Restriction enum, `type`, `_handler_map` message names,
every AttrId/EffectId/State constant and module constant they reference, the stat / container each
slot restriction reads, and the CLASS_VALIDATORS table translated to expressions."""
import ast
import inspect
import os
import sys
import textwrap

sys.path.insert(0, os.path.dirname(os.path.dirname(os.path.abspath(__file__))))
import common as C  # noqa: E402
from gen._ast2lean import Unsupported, dotted  # noqa: E402

STAT_NAMES = ('cpu', 'powergrid', 'calibration', 'dronebay', 'drone_bandwidth', 'turret_slots', 'launcher_slots',
              'launched_drones', 'fighter_squads_support', 'fighter_squads_light', 'fighter_squads_heavy')
SLOT_PROPS = ('high_slots', 'mid_slots', 'low_slots', 'rig_slots', 'subsystem_slots', 'fighter_squads')


def _lstr(s):
    return '"%s"' % s.replace('\\', '\\\\').replace('"', '\\"')


def _describe(cls, pkg):
    """(numeric constants, symbolic references) mentioned by the class and its bases inside `pkg`."""
    from eos.const.eos import State
    from eos.const.eve import AttrId, EffectId
    enums = {'AttrId': AttrId, 'EffectId': EffectId, 'State': State}
    consts, refs = {}, set()
    for k in cls.__mro__:
        if not k.__module__.startswith(pkg) or k.__name__.startswith('Base'):
            continue
        glob = sys.modules[k.__module__].__dict__
        tree = ast.parse(textwrap.dedent(inspect.getsource(k)))
        for n in ast.walk(tree):
            d = dotted(n) if isinstance(n, ast.Attribute) else None
            if d and d.split('.')[0] in enums and d.count('.') == 1:
                consts[d] = [int(getattr(enums[d.split('.')[0]], d.split('.')[1]))]
            elif isinstance(n, ast.Name) and isinstance(n.ctx, ast.Load) and n.id in glob and n.id not in enums:
                v = glob[n.id]
                if isinstance(v, tuple) and v and all(isinstance(x, int) for x in v):
                    consts[n.id] = [int(x) for x in v]
                elif isinstance(v, tuple) and v and all(inspect.isclass(x) for x in v):
                    refs.add('%s=%s' % (n.id, '+'.join(x.__name__ for x in v)))
                elif isinstance(v, (int, float)) and not isinstance(v, bool):
                    if v != int(v):
                        raise Unsupported('non-integral module constant %s' % n.id)
                    consts[n.id] = [int(v)]
                elif inspect.isclass(v) and v.__module__.startswith('eos.item.'):
                    refs.add('class:' + v.__name__)
            elif isinstance(n, ast.Assign) and len(n.targets) == 1 and isinstance(n.targets[0], ast.Name) \
                    and isinstance(n.value, ast.Constant) and isinstance(n.value.value, str):
                refs.add('%s=%s' % (n.targets[0].id, n.value.value))
            elif isinstance(n, ast.FunctionDef) and n.name in ('_slot_stats', '_container'):
                rets = [x.value for x in ast.walk(n) if isinstance(x, ast.Return)]
                if len(rets) == 1 and dotted(rets[0]):
                    refs.add('%s=%s' % (n.name, dotted(rets[0])))
                elif rets:
                    raise Unsupported('%s.%s is not a plain attribute path' % (k.__name__, n.name))
    return sorted(consts.items()), sorted(refs)


def _handlers(cls):
    return sorted(m.__name__ for m in getattr(cls, '_handler_map', {}))


def _row(name, extra, cls, pkg):
    consts, refs = _describe(cls, pkg)
    return '  (%s, %s[%s], [%s], [%s])' % (
        _lstr(name), extra, ', '.join(_lstr(h) for h in _handlers(cls)),
        ', '.join('(%s, [%s])' % (_lstr(k), ', '.join(map(str, v))) for k, v in consts),
        ', '.join(_lstr(r) for r in refs))


def _vexpr(n):
    from eos.const.eve import AttrId, EffectId, TypeCategoryId, TypeGroupId
    if isinstance(n, ast.BoolOp):
        op = {ast.And: '.and', ast.Or: '.or'}[type(n.op)]
        out = _vexpr(n.values[0])
        for v in n.values[1:]:
            out = '(%s %s %s)' % (op, out, _vexpr(v))
        return out
    if isinstance(n, ast.Compare) and len(n.ops) == 1:
        left, right = dotted(n.left), dotted(n.comparators[0])
        if isinstance(n.ops[0], ast.Eq) and left == 'item_type.category_id' and right.startswith('TypeCategoryId.'):
            return '(.catEq %d)' % int(getattr(TypeCategoryId, right.split('.')[1]))
        if isinstance(n.ops[0], ast.Eq) and left == 'item_type.group_id' and right.startswith('TypeGroupId.'):
            return '(.groupEq %d)' % int(getattr(TypeGroupId, right.split('.')[1]))
        if isinstance(n.ops[0], ast.In) and right == 'item_type.attrs' and left.startswith('AttrId.'):
            return '(.hasAttr %d)' % int(getattr(AttrId, left.split('.')[1]))
        if isinstance(n.ops[0], ast.In) and right == 'item_type.effects' and left.startswith('EffectId.'):
            return '(.hasEffect %d)' % int(getattr(EffectId, left.split('.')[1]))
    raise Unsupported('class validator ' + ast.dump(n)[:120])


def _class_validators():
    from eos.restriction.restriction import item_class
    tree = ast.parse(inspect.getsource(item_class))
    for n in tree.body:
        if isinstance(n, ast.Assign) and dotted(n.targets[0]) == 'CLASS_VALIDATORS' and isinstance(n.value, ast.Dict):
            rows = []
            for k, v in zip(n.value.keys, n.value.values):
                if not (isinstance(v, ast.Lambda) and [a.arg for a in v.args.args] == ['item_type']):
                    raise Unsupported('class validator is not `lambda item_type: ...`')
                rows.append('  (%s, %s)' % (_lstr(dotted(k)), _vexpr(v.body)))
            if len(rows) != len(item_class.CLASS_VALIDATORS):
                raise Unsupported('CLASS_VALIDATORS is modified after its definition')
            return rows
    raise Unsupported('CLASS_VALIDATORS not found')


def _slot_stats(service_cls):
    from eos.const.eve import AttrId
    rows = []
    for name in SLOT_PROPS:
        fn = ast.parse(textwrap.dedent(inspect.getsource(getattr(service_cls, name).fget))).body[0]
        calls = [x for x in ast.walk(fn) if isinstance(x, ast.Call)]
        if len(calls) != 1 or len(calls[0].args) != 2 or not dotted(calls[0].func).endswith('get_slot_stats'):
            raise Unsupported('StatService.%s shape changed' % name)
        cont, attr = dotted(calls[0].args[0]), dotted(calls[0].args[1])
        rows.append('  (%s, %s, %d)' % (_lstr(name), _lstr(cont), int(getattr(AttrId, attr.split('.')[1]))))
    helper = inspect.getsource(service_cls._StatService__get_slot_stats)
    for needle in ('used = len(container)', 'total = int(self.__fit.ship.attrs[attr_id])',
                   'except (AttributeError, KeyError):', 'total = 0'):
        if needle not in helper:
            raise Unsupported('StatService.__get_slot_stats changed: %r missing' % needle)
    return rows


def generate():
    C.load_repo()
    from eos import Fit
    from eos.const.eos import Restriction
    from eos.restriction import service
    from eos.stats.service import StatService
    fit = Fit(solar_system=None)
    restrs = sorted(fit._restriction._RestrictionService__restrictions, key=lambda r: int(r.type))
    r_rows = [_row(type(r).__name__, '%d, ' % int(r.type), type(r), 'eos.restriction.restriction') for r in restrs]
    s_rows = [_row(n, '', type(getattr(fit.stats, n)), 'eos.stats.register') for n in STAT_NAMES]
    src = inspect.getsource(service.RestrictionService.validate)
    for needle in ('if restriction_type in skip_checks:', 'continue', 'except RestrictionValidationError as e:',
                   'item_errors = invalid_items.setdefault(item, {})', 'item_errors[restriction_type] = item_error',
                   'if invalid_items:', 'raise ValidationError(invalid_items)'):
        if needle not in src:
            raise Unsupported('RestrictionService.validate changed: %r missing' % needle)
    text = '''import EosModel.Restrictions
/- GENERATED by tools/gen/restriction_maps.py from eos/restriction/**, eos/stats/** and eos/const/eos.py.
   Do not edit. -/
namespace EosGen.RestrictionMaps
open Eos.Restr

/-- `eos.const.eos.Restriction`. -/
def restrictionEnum : List (String × Nat) :=
  [%s]

/-- Per restriction class registered by `RestrictionService`: class name, `type`, message names of
`_handler_map`, numeric constants and constant tuples it references (with bases), symbolic references. -/
def restrictions : List (String × Nat × List String × List (String × List Int) × List String) := [
%s]

/-- Per stat register the restrictions read (`fit.stats.<name>`): handler messages, constants, references. -/
def statRegisters : List (String × List String × List (String × List Int) × List String) := [
%s]

/-- `StatService` slot properties: container counted, ship attribute giving the total. -/
def slotStats : List (String × String × Nat) := [
%s]

/-- `CLASS_VALIDATORS` of the item class restriction. -/
def classValidators : List (String × VExpr) := [
%s]

end EosGen.RestrictionMaps
''' % (', '.join('(%s, %d)' % (_lstr(m.name), int(m)) for m in Restriction), ',\n'.join(r_rows),
       ',\n'.join(s_rows), ',\n'.join(_slot_stats(StatService)), ',\n'.join(_class_validators()))
    return {'EosGen/RestrictionMaps.lean': text}


if __name__ == '__main__':
    for k, v in generate().items():
        print(v)
