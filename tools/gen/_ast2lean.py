"""Straight-line numeric Python -> Lean expression translator (subset, see DESIGN 4.1).

Subset: numeric literals, names and attribute chains mapped by the caller, + - * /,
unary -, ** 2 (as e*e), min/max (n-ary, folded left), comparisons inside conditional
expressions; `Tr.body` adds straight-line statement lists (assignment / augmented
assignment to a plain name -> `let`, the guard `if not x: return x`, a final return).
A caller-supplied `hook(node)` may translate project-specific calls (attribute lookups,
calls of sibling methods).  Anything else raises Unsupported - the caller turns that into
a broken proof obligation, never into a silent default.
"""
import ast
import inspect
import textwrap


class Unsupported(Exception):
    pass


def func_ast(obj):
    src = textwrap.dedent(inspect.getsource(obj))
    tree = ast.parse(src)
    node = tree.body[0]
    if isinstance(node, (ast.FunctionDef, ast.Expr, ast.Assign)):
        return node
    raise Unsupported('not a function: %r' % obj)


def dotted(node):
    parts = []
    while isinstance(node, ast.Attribute):
        parts.append(node.attr)
        node = node.value
    if isinstance(node, ast.Name):
        parts.append(node.id)
        return '.'.join(reversed(parts))
    return None


class Tr:
    def __init__(self, names, calls=None, hook=None):
        """names: dotted python name -> lean term; calls: python function name -> lean function (binary);
        hook: node -> lean term or None, asked first."""
        self.names = dict(names)
        self.calls = calls or {}
        self.hook = hook
        self.divisors = []      # lean terms of non-constant divisors met (for explicit division guards)

    def num(self, v):
        if isinstance(v, bool) or not isinstance(v, (int, float)):
            raise Unsupported('literal %r' % (v,))
        if isinstance(v, int):
            return '(%d)' % v if v < 0 else '%d' % v
        n, d = float(v).as_integer_ratio()
        return '((%d : Int) / (%d : Int))' % (n, d) if d != 1 else '(%d)' % n

    def e(self, n):
        if self.hook is not None:
            h = self.hook(n)
            if h is not None:
                return h
        if isinstance(n, ast.Constant):
            return self.num(n.value)
        d = dotted(n)
        if d is not None:
            if d in self.names:
                return self.names[d]
            raise Unsupported('unknown name %s' % d)
        if isinstance(n, ast.UnaryOp) and isinstance(n.op, ast.USub):
            return '(-%s)' % self.e(n.operand)
        if isinstance(n, ast.BinOp):
            if isinstance(n.op, ast.Pow):
                if isinstance(n.right, ast.Constant) and n.right.value == 2:
                    a = self.e(n.left)
                    return '(%s * %s)' % (a, a)
                raise Unsupported('power other than 2')
            ops = {ast.Add: '+', ast.Sub: '-', ast.Mult: '*', ast.Div: '/'}
            for k, s in ops.items():
                if isinstance(n.op, k):
                    left, right = self.e(n.left), self.e(n.right)
                    if k is ast.Div and not (isinstance(n.right, ast.Constant) and n.right.value != 0):
                        self.divisors.append(right)
                    return '(%s %s %s)' % (left, s, right)
            raise Unsupported('operator %s' % type(n.op).__name__)
        if isinstance(n, ast.Call):
            f = dotted(n.func)
            if f in self.calls and not n.keywords and len(n.args) >= 2:
                args = [self.e(a) for a in n.args]
                acc = args[0]
                for a in args[1:]:
                    acc = '(%s %s %s)' % (self.calls[f], acc, a)
                return acc
            raise Unsupported('call %s' % f)
        if isinstance(n, ast.IfExp):
            return '(if %s then %s else %s)' % (self.c(n.test), self.e(n.body), self.e(n.orelse))
        raise Unsupported(ast.dump(n)[:80])

    def c(self, n):
        if isinstance(n, ast.Compare) and len(n.ops) == 1:
            ops = {ast.Lt: '<', ast.LtE: '≤', ast.Gt: '>', ast.GtE: '≥', ast.Eq: '=', ast.NotEq: '≠'}
            for k, s in ops.items():
                if isinstance(n.ops[0], k):
                    return '(%s %s %s)' % (self.e(n.left), s, self.e(n.comparators[0]))
        raise Unsupported('condition ' + ast.dump(n)[:80])

    AUG = {ast.Add: '+', ast.Sub: '-', ast.Mult: '*', ast.Div: '/'}

    def body(self, stmts, ret=None):
        """Straight-line statement list -> Lean term.  `ret` may rewrite the returned expression node
        (e.g. pick the divisor of the final division); a tuple of nodes becomes a Lean tuple."""
        stmts = [s for s in stmts
                 if not (isinstance(s, ast.Expr) and isinstance(s.value, ast.Constant) and isinstance(s.value.value, str))]
        if not stmts:
            raise Unsupported('statement list without return')
        s, rest = stmts[0], stmts[1:]
        if isinstance(s, ast.Return):
            if rest:
                raise Unsupported('statements after return')
            v = ret(s.value) if ret else s.value
            if isinstance(v, (tuple, list)):
                return '(%s)' % ', '.join(self.e(x) for x in v)
            return self.e(v)
        if isinstance(s, ast.Assign) and len(s.targets) == 1 and isinstance(s.targets[0], ast.Name):
            x = s.targets[0].id
            val = self.e(s.value)
        elif isinstance(s, ast.AugAssign) and isinstance(s.target, ast.Name) and type(s.op) in self.AUG:
            x = s.target.id
            val = '(%s %s %s)' % (self.e(s.target), self.AUG[type(s.op)], self.e(s.value))
        elif (isinstance(s, ast.If) and not s.orelse and isinstance(s.test, ast.UnaryOp)
              and isinstance(s.test.op, ast.Not) and isinstance(s.test.operand, ast.Name)
              and len(s.body) == 1 and isinstance(s.body[0], ast.Return)
              and isinstance(s.body[0].value, ast.Name) and s.body[0].value.id == s.test.operand.id):
            x = self.e(s.test.operand)
            return '(if %s = 0 then %s else %s)' % (x, x, self.body(rest, ret))
        else:
            raise Unsupported('statement ' + ast.dump(s)[:80])
        self.names[x] = x
        return '(let %s := %s; %s)' % (x, val, self.body(rest, ret))
