"""Straight-line numeric Python -> Lean expression translator (subset, see DESIGN 4.1).

Subset: numeric literals, names and attribute chains mapped by the caller, + - * /,
unary -, ** 2 (as e*e), min/max of two arguments, comparisons inside conditional
expressions.  Anything else raises Unsupported - the caller turns that into a broken
proof obligation, never into a silent default.
"""
import ast
import inspect
import textwrap


class Unsupported(Exception):
    pass


def func_ast(obj):
    src = textwrap.dedent(inspect.getsource(obj))
    tree = ast.parse(src)
    node = tree.body[0]
    if isinstance(node, (ast.FunctionDef, ast.Expr, ast.Assign)):
        return node
    raise Unsupported('not a function: %r' % obj)


def dotted(node):
    parts = []
    while isinstance(node, ast.Attribute):
        parts.append(node.attr)
        node = node.value
    if isinstance(node, ast.Name):
        parts.append(node.id)
        return '.'.join(reversed(parts))
    return None


class Tr:
    def __init__(self, names, calls=None):
        """names: dotted python name -> lean term; calls: python function name -> lean function (binary)."""
        self.names = names
        self.calls = calls or {}

    def num(self, v):
        if isinstance(v, bool) or not isinstance(v, (int, float)):
            raise Unsupported('literal %r' % (v,))
        if isinstance(v, int):
            return '(%d)' % v if v < 0 else '%d' % v
        n, d = float(v).as_integer_ratio()
        return '((%d : Int) / (%d : Int))' % (n, d) if d != 1 else '(%d)' % n

    def e(self, n):
        if isinstance(n, ast.Constant):
            return self.num(n.value)
        d = dotted(n)
        if d is not None:
            if d in self.names:
                return self.names[d]
            raise Unsupported('unknown name %s' % d)
        if isinstance(n, ast.UnaryOp) and isinstance(n.op, ast.USub):
            return '(-%s)' % self.e(n.operand)
        if isinstance(n, ast.BinOp):
            if isinstance(n.op, ast.Pow):
                if isinstance(n.right, ast.Constant) and n.right.value == 2:
                    a = self.e(n.left)
                    return '(%s * %s)' % (a, a)
                raise Unsupported('power other than 2')
            ops = {ast.Add: '+', ast.Sub: '-', ast.Mult: '*', ast.Div: '/'}
            for k, s in ops.items():
                if isinstance(n.op, k):
                    return '(%s %s %s)' % (self.e(n.left), s, self.e(n.right))
            raise Unsupported('operator %s' % type(n.op).__name__)
        if isinstance(n, ast.Call):
            f = dotted(n.func)
            if f in self.calls and not n.keywords:
                args = [self.e(a) for a in n.args]
                return '(%s %s)' % (self.calls[f], ' '.join(args))
            raise Unsupported('call %s' % f)
        if isinstance(n, ast.IfExp):
            return '(if %s then %s else %s)' % (self.c(n.test), self.e(n.body), self.e(n.orelse))
        raise Unsupported(ast.dump(n)[:80])

    def c(self, n):
        if isinstance(n, ast.Compare) and len(n.ops) == 1:
            ops = {ast.Lt: '<', ast.LtE: '≤', ast.Gt: '>', ast.GtE: '≥', ast.Eq: '=', ast.NotEq: '≠'}
            for k, s in ops.items():
                if isinstance(n.ops[0], k):
                    return '(%s %s %s)' % (self.e(n.left), s, self.e(n.comparators[0]))
        raise Unsupported('condition ' + ast.dump(n)[:80])
