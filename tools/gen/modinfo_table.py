"""EosGen/ModInfoTable.lean: the complete per-entry decision table of modifier-info conversion and the
build-status grid, obtained by running the real ModInfoconverter / ModBuilder (property C19).

For every one-entry modifierInfo list of the product function x domain x operation x id shapes the real
outcome (build failure, or the eight modifier fields and the `_valid` verdict) and what `ModBuilder().build`
returns are recorded as decimal-digit records; the layout is documented in the transport section of
lean/EosModel/ModInfo.lean (`decodeEntry`, `encodeOutcome`, `viewOf`, `idPatterns`, `blockSpec`).  This module
is the Python end of that transport and is also used by tools/props/c19.py.
"""
import os
import sys

sys.path.insert(0, os.path.dirname(os.path.dirname(os.path.abspath(__file__))))
import common as C  # noqa: E402

MISSING = object()
NAN = float('nan')
FUNC_NAMES = ['ItemModifier', 'LocationModifier', 'LocationGroupModifier', 'LocationRequiredSkillModifier',
              'OwnerRequiredSkillModifier']
ID_KEYS = [('groupID', 10), ('skillTypeID', 20), ('modifiedAttributeID', 30), ('modifyingAttributeID', 40)]

# digit -> Python values with that abstract meaning (first = representative of the main product)
FUNC_VALUES = {0: [FUNC_NAMES[0]], 1: [FUNC_NAMES[1]], 2: [FUNC_NAMES[2]], 3: [FUNC_NAMES[3]], 4: [FUNC_NAMES[4]],
               5: ['NoSuchModifier', 'itemmodifier', '', 7, 0.5, True], 6: [MISSING], 7: [MISSING],
               8: [[], {}, ['ItemModifier']], 9: [None]}
NONDICT_VALUES = [None, 5, 'ItemModifier', ['func'], 1.5, True, [{'func': 'ItemModifier'}]]
DOMAIN_VALUES = {0: [None], 1: ['itemID'], 2: ['charID'], 3: ['shipID'], 4: ['targetID'], 5: ['otherID'],
                 6: ['structureID', 'self', 'ItemID', '', 1, 3.0, False], 7: [MISSING], 8: [[], {}]}
OP_VALUES = {n: [n - 1] for n in range(10)}
OP_VALUES.update({10: [MISSING], 11: [-2, 9, 100], 12: [2.0], 13: [2.5, NAN], 14: ['2', '', 'mod_add', [], {}],
                  15: [True], 16: [None]})


def id_values(base, digit):
    return {0: [base + 1], 1: [str(base + 2), ' %d ' % (base + 2), '+%d' % (base + 2), '0%d' % (base + 2)],
            2: [base + 3.9], 3: ['abc', '', '%d.0' % base, '0x1f', '1e1'], 4: [None], 5: [MISSING],
            6: [NAN, float('inf'), [], {}, [base]], 7: [-(base + 4)], 8: [-(base + 5.9)], 9: [True]}[digit]


def uses(f):
    """Which of the four id fields a handled function reads."""
    return (f == 2, f in (3, 4), True, True)


def code_of(f, d, o, ids):
    return f * 10000000 + d * 1000000 + o * 10000 + ids[0] * 1000 + ids[1] * 100 + ids[2] * 10 + ids[3]


def entry_of(f, d, o, ids, variant=None):
    """Python modifier-info entry for the digits; `variant` = {position: index into the value list}."""
    variant = variant or {}
    if f == 7:
        return NONDICT_VALUES[variant.get('f', 0)]
    e = {}
    vals = [('func', FUNC_VALUES[f], 'f'), ('domain', DOMAIN_VALUES[d], 'd'), ('operation', OP_VALUES[o], 'o')]
    vals += [(k, id_values(b, ids[i]), i) for i, (k, b) in enumerate(ID_KEYS)]
    for key, vs, pos in vals:
        v = vs[variant.get(pos, 0)]
        if v is not MISSING:
            e[key] = v
    return e


def _icode(v):
    if type(v) is int and abs(v) < 100:
        return (100 if v < 0 else 0) + abs(v)
    return 999


def _ocode(v):
    return 0 if v is None else _icode(v)


def _enum(v, width):
    return int(v) if type(v) is not bool and isinstance(v, int) and 0 < int(v) < 10 ** width else 10 ** width - 1


def mod_tuple(m):
    return (m.affectee_filter, m.affectee_domain, m.affectee_filter_extra_arg, m.affectee_attr_id, m.operator,
            m.aggregate_mode, m.aggregate_key, m.affector_attr_id)


def outcome_code(mods, fails):
    """Outcome of converting a one-entry list, as `encodeOutcome` writes it (anything unexpected gets 9s)."""
    if not mods and fails == 1:
        return 0
    if len(mods) != 1 or fails != 0:
        return 9
    m = mods[0]
    c = 2 if m._valid is True else 1
    c = c * 10 + _enum(m.affectee_filter, 1)
    c = c * 10 + _enum(m.affectee_domain, 1)
    c = c * 1000 + _ocode(m.affectee_filter_extra_arg)
    c = c * 1000 + _icode(m.affectee_attr_id)
    c = c * 100 + _enum(m.operator, 2)
    c = c * 10 + _enum(m.aggregate_mode, 1)
    c = c * 1000 + _ocode(m.aggregate_key)
    c = c * 1000 + _icode(m.affector_attr_id)
    return c


def run_row(ModBuilder, conv, entry):
    """(outcome code, build view) of a one-entry modifierInfo list on the real code."""
    try:
        mods, fails = conv.convert([entry])
        out = outcome_code(mods, fails)
    except Exception:
        mods, out = [], 8
    try:
        emitted, status = ModBuilder().build({'effectID': 1, 'modifierInfo': [entry]})
        same = len(emitted) <= 1 and [mod_tuple(m) for m in emitted] == [mod_tuple(m) for m in mods[:len(emitted)]]
        view = _enum(status, 1) * 10 + (len(emitted) if same else 9)
    except Exception:
        view = 99
    return out, view


def good(f):
    return tuple(0 if x else 5 for x in uses(f)) if f < 5 else (0, 0, 0, 0)


def id_patterns(f):
    """Digit 4-tuples of a block, in the order of `Eos.ModInfo.idPatterns`."""
    u = uses(f)
    pats = [(g, s, t, m) for g in (range(6) if u[0] else [5]) for s in (range(6) if u[1] else [5])
            for t in range(6) for m in range(6)]
    for p in range(4):
        for dig in ([6, 7, 8, 9] if u[p] else [0, 1, 2, 3, 4, 6, 7, 8, 9]):
            ids = list(good(f))
            ids[p] = dig
            pats.append(tuple(ids))
    return pats


def row_entries():
    """Irregular part: (f, d, o, ids, variant) for the row table; the first 177 are required."""
    for f in (5, 6):
        for d in range(8):
            for o in range(11):
                yield f, d, o, (0, 0, 0, 0), None
    yield 7, 0, 0, (0, 0, 0, 0), None
    for f in range(5):          # further domain / operation values
        for d in range(9):
            for o in range(17):
                if d == 8 or o > 10:
                    yield f, d, o, good(f), None
    for f in (8, 9):            # unhashable / None function value
        for d in range(8):
            for o in range(11):
                yield f, d, o, (0, 0, 0, 0), None
    # every alternative Python value of each abstract digit
    for f in range(10):
        for i in range(1, len(NONDICT_VALUES if f == 7 else FUNC_VALUES[f])):
            yield f, 2, 3, good(f), {'f': i}
    for f in range(5):
        for d, vs in DOMAIN_VALUES.items():
            for i in range(1, len(vs)):
                yield f, d, 3, good(f), {'d': i}
        for o, vs in OP_VALUES.items():
            for i in range(1, len(vs)):
                yield f, 2, o, good(f), {'o': i}
        for p in range(4):
            for dig in range(10):
                for i in range(1, len(id_values(ID_KEYS[p][1], dig))):
                    ids = list(good(f))
                    ids[p] = dig
                    yield f, 2, 3, tuple(ids), {p: i}


def status_grid(ModBuilder):
    """Status and emitted count for lists of nOk valid, nInv convertible-but-invalid and nFail failing
    entries (two arrangements each), plus absent / None / empty modifierInfo."""
    ok = entry_of(0, 3, 3, (5, 5, 0, 0))
    inv = entry_of(1, 5, 3, (5, 5, 0, 0))          # LocationModifier on otherID: converts, fails validation
    bad = entry_of(0, 6, 3, (5, 5, 0, 0))
    rows = []
    for a in range(4):
        for b in range(4):
            for c in range(4):
                for arr in (0, 1):
                    lst = [ok] * a + [inv] * b + [bad] * c
                    if arr:
                        lst.reverse()
                    if not lst and arr:
                        continue
                    mods, st = ModBuilder().build({'effectID': 1, 'modifierInfo': lst})
                    rows.append((a, b, c, _enum(st, 1), len(mods)))
    empty = []
    for kind, row in enumerate([{'effectID': 1}, {'effectID': 1, 'modifierInfo': None},
                                {'effectID': 1, 'modifierInfo': []}, {'effectID': 1, 'modifierInfo': ()}]):
        mods, st = ModBuilder().build(row)
        empty.append((kind, _enum(st, 1), len(mods)))
    return rows, empty


def tables():
    """(blocks, rows, (status grid, empty cases)) from the real code."""
    C.load_repo()
    from eos.eve_obj_builder.mod_builder import ModBuilder
    from eos.eve_obj_builder.mod_builder.converter import ModInfoconverter
    blocks = []
    for f in range(5):
        pats = id_patterns(f)
        for d in range(8):
            for o in range(11):
                recs = [run_row(ModBuilder, ModInfoconverter, entry_of(f, d, o, ids)) for ids in pats]
                blocks.append((f * 1000 + d * 100 + o, recs))
    rows = [(code_of(f, d, o, ids),) + run_row(ModBuilder, ModInfoconverter, entry_of(f, d, o, ids, var))
            for f, d, o, ids, var in row_entries()]
    return blocks, rows, status_grid(ModBuilder)


HEAD = '/- GENERATED by tools/gen/modinfo_table.py by running eos/eve_obj_builder/mod_builder on every entry. Do not edit. -/\n'
PER_LINE = 32


def pack_rows(rows):
    """(count, decimal number whose 28-digit groups are the rows, first row most significant)."""
    return '(%d, %s)' % (len(rows), ''.join('%08d%018d%02d' % r for r in rows).lstrip('0') or '0')


def generate():
    blocks, rows, (grid, empty) = tables()
    defs = []
    for f in range(5):
        part = [b for b in blocks if b[0] // 1000 == f]
        defs.append('/-- blocks of %s: (header `f d oo`, 1 . 20-digit records `outcome (18) . build view (2)` of all %d id patterns) -/\n'
                    'def blocks%d : List (Nat × Nat) := [\n%s]\n' % (
                        FUNC_NAMES[f], len(part[0][1]), f,
                        ',\n'.join(' (%d, 1%s)' % (h, ''.join('%018d%02d' % r for r in recs)) for h, recs in part)))
    text = HEAD + '''namespace EosGen.ModInfoTable

/-! Encodings: see the transport section of `EosModel/ModInfo.lean`. -/

%s
/-- Irregular rows, packed `(k, k 28-digit records entry code (8) . outcome (18) . build view (2))`. -/
def rows : List (Nat × Nat) := [
%s]

/-- (valid entries, convertible-but-invalid entries, failing entries, status, emitted modifiers) by running
    `ModBuilder().build` on such lists. -/
def statusGrid : List (Nat × Nat × Nat × Nat × Nat) := [
%s]

/-- (0 absent / 1 None / 2 [] / 3 (), status, emitted modifiers) for an effect row without modifier info. -/
def emptyCases : List (Nat × Nat × Nat) := [%s]

end EosGen.ModInfoTable
''' % ('\n'.join(defs),
       ',\n'.join(' ' + pack_rows(rows[i:i + PER_LINE]) for i in range(0, len(rows), PER_LINE)),
       ',\n'.join(' ' + ', '.join('(%d, %d, %d, %d, %d)' % r for r in grid[i:i + 6]) for i in range(0, len(grid), 6)),
       ', '.join('(%d, %d, %d)' % r for r in empty))
    return {'EosGen/ModInfoTable.lean': text}


if __name__ == '__main__':
    fs = generate()
    for k in sorted(fs):
        print(k, len(fs[k]))
