"""EosGen/AffectsTable*.lean: the complete table of *which items a modifier selects*, obtained by running the
real code (eos/calculator/affection.py, eos/calculator/service.py, the `_modifier_domain` / `_owner_modifiable` /
`_others` properties of the item classes) on small designed worlds built through the public API.

Every world is built from scratch (fresh in-memory source, fresh solar system), holds exactly one item that
carries one effect with one dogma modifier (`mod_add`, source attribute SRC = 7, target attribute TGT), and every
item of the world has TGT = 100 as a type attribute.  After the build every item's TGT is read through the
public attribute map: 100 = not selected, 107 = selected; any other value makes the generator fail.  Each world is
observed twice (built from scratch; effect started / target set after every item was read), see HEADER.  The
configuration that goes into the Lean file is read BACK from the live objects (fits, ship / character slots,
containers, targets, type group and skill requirements), it is not the design repeated.

See HEADER below for the axes.  The Lean side (EosProofs/Lemmas/AffectsTable*.lean, Props/C02.lean) proves that
`Eos.World.affectsLocal` / `affectsProjected`, evaluated on the recorded configuration, give the recorded answer
for every case."""
import os
import sys

sys.path.insert(0, os.path.dirname(os.path.dirname(os.path.abspath(__file__))))
import common as C  # noqa: E402

TGT, SRC = 2001, 2002
BASE, DELTA = 100, 7
G1, G2 = 501, 502
S1, S2 = 3301, 3302
EFFECT_ID = 5001
P, Q, Z, M, AFF = 0, 1, 2, 3, 9          # type variants, see HEADER

# kind numbers are those of Eos.World.Kind.ofNat?
KINDS = ['character', 'ship', 'stance', 'subsystem', 'moduleHigh', 'moduleMid', 'moduleLow', 'rig', 'drone',
         'fighter', 'skill', 'implant', 'booster', 'beacon', 'charge']
SINGLE = (0, 1, 2, 13)                   # one slot per fit
MODULES = (4, 5, 6)
CHARGE = 14
PROJECTORS = (4, 5, 6, 8)                # the item classes with a `target`
OTHER_FIT = (0, 1, 4, 8, 10, 11)         # classes present in a fit that is only there to be *another* fit

HEADER = '''Every world holds exactly one item that carries one effect with one dogma modifier (mod_add, source attribute
2002 = 7 on the carrier's type, target attribute 2001 = 100 on every type).  After the build attribute 2001 of every
item is read through the public attribute map: 100 = not modified, 107 = modified, anything else makes the generator
fail.  Two observations per world, each on a fresh source and solar system:
  from scratch  the complete world is built, then every item is read;
  incremental   the world is built with the effect stopped (local: run mode force_stop) / with the projector not
                targeting anything (projected), every item is read (all 100, now cached), then the effect is started
                (run mode full_compliance) / the target is set, and every item is read again.
A row is (world, [target item,] modifier, valid, ids modified from scratch, ids modified incrementally); `valid` is
what the library's own validation says about the modifier (`DogmaModifier._valid`, the test `ModBuilder` applies before
it emits a modifier): the table deliberately contains modifiers the library rejects (a group / skill filter without
argument, an en-masse filter with domain other, owner_skillrq with a domain other than character).

Axes (complete product unless a restriction is stated).  Item ids are creation order; the configuration, the
types and the modifier are read back from the live objects after the world was built.

Type variants.  Every item class K has the types (K, v), type id 1000 + 10 K + v:
  P (v=0): group G1 = 501, required skills {S1 = 3301, S2 = 3302}
  Q (v=1): group G2 = 502, required skills {TA}   (TA = type id of the item carrying the modifier)
  Z (v=2): no group, no required skills
  M (v=3): group G1, required skills {S1, TA}      (matches every filter argument used below)
  A (v=9): the type of the item carrying the modifier: group G1, required skills {S1, TA}, the effect under test.
Filter arguments: item, domain: none;  domain_group: G1 | none;  domain_skillrq / owner_skillrq: S1 |
current_self (-1, stands for TA) | none.

LOCAL table (effect category passive, runs on every loaded item).
 affector class (15: character, ship, stance, subsystem, module high / mid / low, rig, drone, fighter squad, skill,
   implant, booster, effect beacon, charge)
 x modifier (34): filter (item | domain | domain_group | domain_skillrq | owner_skillrq) x domain (self | character |
   ship | other | target) x filter argument, where the argument varies over all its values for the domains self /
   character / ship except that "none" (for the three filters that take an argument) is used with domain ship only,
   and for the domains other and target only the first argument is used
 x world:
   w0  fit 1: the affector (a charge affector sits in a high module P; a module affector holds a charge P), one item P
       of every single-slot class (character, ship, stance, effect beacon; not the affector's own slot), items P, Q, Z
       of every other class (the three high modules hold the charges P, Q, Z);  fit 2: one item M of the classes
       character, ship, module high (holding a charge M), drone, skill, implant
   w1  fit 1: the affector (charge affector in a mid module Q; module affector holds a charge Q), single-slot items Q
   w2  fit 1: the affector (charge affector in a low module Z; module affector holds a charge Z), single-slot items Z
   w3  fit 1 WITHOUT ship (absent for the ship affector): the affector (as in w0), character P, high module P with
       charge P, rig P, drone P, implant P
 x affectee: every item of the world (the affector itself, its charge / its container, same fit, other fit; group
   G1 / G2 / none; required skills with / without the filter's skill, with / without the affector's own type).

PROJECTED table (effect category target, the effect is the projector type's default effect, projector in state
active, modifier domain target).
 projector class (4: module high / mid / low, drone: the item classes that have a target)
 x modifier (10): filter x filter argument (all values)
 x target (7): fit 1 = the projector's fit: ship, drone, fighter squad;  fit 2: ship, drone P, fighter squad P, high
   module P (an item that is no solar-system item)
 x affectee: every item of the world
   fit 1: the projector, one item M of the classes character, ship, module high (holding a charge M), drone, skill,
   implant, fighter squad;  fit 2: single-slot items P, items P, Q, Z of every other class (charges P, Q, Z in the
   high modules);  fit 3: character, ship, high module, drone M (a fit nobody targets).'''


def _classes():
    C.load_repo()
    from eos import (Booster, Charge, Drone, EffectBeacon, FighterSquad, Implant, ModuleHigh, ModuleLow, ModuleMid,
                     Rig, Ship, Skill, Stance, Subsystem)
    from eos.item import Character
    return [Character, Ship, Stance, Subsystem, ModuleHigh, ModuleMid, ModuleLow, Rig, Drone, FighterSquad, Skill,
            Implant, Booster, EffectBeacon, Charge]


def type_id(k, v):
    return 1000 + 10 * k + v


class Builder:
    """One world, built through the public API; remembers creation order (item ids)."""

    def __init__(self, ka, modifier, category, default, held=False, effect_id=EFFECT_ID, effect_kw=None,
                 attr_hook=None, extra_attrs=()):
        """`effect_kw`: further keyword arguments of the effect under test; `attr_hook(k, v, tid, attrs)` may add type
        attributes; `extra_attrs`: further attribute ids the source knows (used by gen/resist_table, gen/fleet_table)."""
        from harness import mem
        from eos import SolarSystem
        from eos.const.eve import TypeCategoryId as T
        self.cls = _classes()
        self.ka = ka
        self.ta = type_id(ka, AFF)
        self.cats = [None, T.ship, None, T.subsystem, T.module, T.module, T.module, T.module, T.drone, T.fighter,
                     T.skill, T.implant, T.implant, None, T.charge]
        self.ch = ch = mem.MemCache()
        ch.mkattr(attr_id=TGT)
        ch.mkattr(attr_id=SRC)
        for extra in extra_attrs:
            ch.mkattr(attr_id=extra)
        self.attr_hook = attr_hook
        self.effect = ch.mkeffect(effect_id=effect_id, category_id=category,
                                  modifiers=() if modifier is None else (modifier,), **(effect_kw or {}))
        self.fleets = []
        self.default = default
        self.held = held          # build with the effect under test stopped (local) / without target (projected)
        self.affector = None
        self.target = None
        self.ss = SolarSystem(source=mem.source(ch))
        self.fits = []
        self.items = []

    def _type(self, k, v):
        tid = type_id(k, v)
        if tid not in self.ch.types:
            grp, req = {P: (G1, (S1, S2)), Q: (G2, (self.ta,)), Z: (None, ()), M: (G1, (S1, self.ta)),
                        AFF: (G1, (S1, self.ta))}[v]
            attrs = {TGT: BASE}
            effects, default = (), None
            if v == AFF:
                if k != self.ka:
                    raise AssertionError('affector type of another class')
                attrs[SRC] = DELTA
                effects = (self.effect,)
                default = self.effect if self.default else None
            if self.attr_hook is not None:
                self.attr_hook(k, v, tid, attrs)
            self.ch.mktype(type_id=tid, group_id=grp, category_id=self.cats[k], attrs=attrs, effects=effects,
                           default_effect=default, required_skills={s: 1 for s in req})
        return tid

    def fit(self):
        from eos import Fit
        f = Fit(solar_system=self.ss)
        self.fits.append(f)
        return f

    def add(self, f, k, v, container=None, state=None):
        from eos import State
        cls = self.cls[k]
        tid = self._type(k, v)
        if k in (4, 5, 6, 8, 9):
            it = cls(tid, state=State.offline if state is None else state)
        elif k == 10:
            it = cls(tid, level=0)
        else:
            it = cls(tid)
        if v == AFF:
            self.affector = it
            if self.held and not self.default:
                from eos import EffectMode
                it.set_effect_mode(self.effect.id, EffectMode.force_stop)
        if k == 0:
            f.character = it
        elif k == 1:
            f.ship = it
        elif k == 2:
            f.stance = it
        elif k == 13:
            f.effect_beacon = it
        elif k == CHARGE:
            container.charge = it
        elif k in MODULES:
            {4: f.modules.high, 5: f.modules.mid, 6: f.modules.low}[k].append(it)
        else:
            {3: f.subsystems, 7: f.rigs, 8: f.drones, 9: f.fighters, 10: f.skills, 11: f.implants,
             12: f.boosters}[k].add(it)
        self.items.append(it)
        it._aid = len(self.items)
        return it

    def add_affector(self, f, variant, container_kind=4, state=None):
        """The item carrying the modifier, with its container (charge) / its charge (module)."""
        if self.ka == CHARGE:
            cont = self.add(f, container_kind, variant)
            return self.add(f, CHARGE, AFF, container=cont)
        a = self.add(f, self.ka, AFF, state=state)
        if self.ka in MODULES:
            self.add(f, CHARGE, variant, container=a)
        return a

    def aim(self, t):
        """Projected worlds: the projector's target (set at once, or by `release` when the world is held)."""
        self.target = t
        if not self.held:
            self.release()

    def release(self):
        """Start what a held world holds back: the effect under test (local) / the projection (projected)."""
        from eos import EffectMode
        if self.target is not None:
            self.affector.target = self.target
            if self.affector.target is not self.target:
                raise AssertionError('target not set')
        elif self.held:
            self.affector.set_effect_mode(self.effect.id, EffectMode.full_compliance)

    # -- reading back
    def snapshot(self):
        """(fits, items, types) read from the live objects."""
        from eos import Charge, Skill
        if set(self.ss.fits) != set(self.fits):
            raise AssertionError('fits of the solar system differ from the created ones')
        live = []
        fits = []
        for fi, f in enumerate(self.fits, 1):
            its = list(f._item_iter(skip_autoitems=True))
            for it in its:
                if not hasattr(it, '_aid'):
                    raise AssertionError('item that was not created by the builder: %r' % it)
                if not it._is_loaded:
                    raise AssertionError('unloaded item %r' % it)
                if int(it.get_effect_mode(self.effect.id)) != 1:
                    raise AssertionError('effect mode override left on %r' % it)
                live.append((it, fi))
            if f.fleet is not None and f.fleet not in self.fleets:
                raise AssertionError('fleet that was not created by the builder')
            fits.append((fi, getattr(f.ship, '_aid', None), getattr(f.character, '_aid', None),
                         None if f.fleet is None else 1 + self.fleets.index(f.fleet)))
        if sorted(it._aid for it, _ in live) != list(range(1, len(self.items) + 1)):
            raise AssertionError('items on the fits differ from the created ones')
        live.sort(key=lambda p: p[0]._aid)
        items = []
        for it, fi in live:
            cont = it._container if isinstance(it, Charge) else None
            tgt = getattr(it, 'target', None)
            st = it.state
            items.append((it._aid, self.cls.index(type(it)), it._type_id, fi, 0 if st is None else int(st),
                          getattr(cont, '_aid', None), getattr(tgt, '_aid', None),
                          int(it.level) if isinstance(it, Skill) else None))
        types = []
        held = {}
        for it, _ in live:
            if it._type.id != it._type_id or held.setdefault(it._type_id, it._type) is not it._type:
                raise AssertionError('type object of %r' % it)
        for tid in sorted(held):
            t = held[tid]          # the type object the item holds, as served by the source
            types.append((tid, t.group_id, None if t.category_id is None else int(t.category_id),
                          None if t.default_effect is None else t.default_effect.id,
                          sorted((int(a), v) for a, v in t.attrs.items()), sorted(t.effects),
                          sorted(int(s) for s in t.required_skills)))
        return fits, items, types

    def modified(self):
        """Ids of the items whose TGT is modified."""
        out = []
        for it in self.items:
            v = it.attrs[TGT]
            if v == BASE + DELTA:
                out.append(it._aid)
            elif v != BASE:
                raise AssertionError('item %d (%r): TGT = %r, neither %r nor %r' % (it._aid, it, v, BASE, BASE + DELTA))
        return out


ARGS = {1: (None,), 2: (None,), 3: (G1, None), 4: (S1, -1, None), 5: (S1, -1, None)}


def local_modifiers():
    """[(filter, domain, extra)] in canonical order: every filter x every domain; the filter argument varies over
    all its values for the domains self / character / ship, except that "no argument" is used with domain ship only;
    for the domains other and target (where no en-masse local modifier selects anything) the first argument."""
    out = []
    for flt in (1, 2, 3, 4, 5):
        for dom in (1, 2, 3, 5, 4):
            for extra in ARGS[flt]:
                if dom in (4, 5) and extra != ARGS[flt][0]:
                    continue
                if extra is None and len(ARGS[flt]) > 1 and dom != 3:
                    continue
                out.append((flt, dom, extra))
    return out


def projected_modifiers():
    return [(flt, 4, extra) for flt in (1, 2, 3, 4, 5) for extra in ARGS[flt]]


def mk_modifier(flt, dom, extra):
    from eos.const.eos import ModAffecteeFilter, ModAggregateMode, ModDomain, ModOperator, EosTypeId
    from eos.eve_obj.modifier import DogmaModifier
    if extra == -1:
        extra = EosTypeId.current_self
        if int(extra) != -1:
            raise AssertionError('EosTypeId.current_self is %r' % extra)
    return DogmaModifier(affectee_filter=ModAffecteeFilter(flt), affectee_domain=ModDomain(dom),
                         affectee_filter_extra_arg=extra, affectee_attr_id=TGT, operator=ModOperator.mod_add,
                         aggregate_mode=ModAggregateMode.stack, affector_attr_id=SRC)


def mod_valid(m):
    """What the library's own validation (`DogmaModifier._valid`, the test the modifier builder applies before it
    emits a modifier) says about the modifier."""
    v = m._valid
    if v is not True and v is not False:
        raise AssertionError('_valid returned %r' % (v,))
    return v


def mod_tuple(m):
    """The Lean `Modifier` fields, read from the real modifier object."""
    x = m.affectee_filter_extra_arg
    return (int(m.affectee_filter), int(m.affectee_domain), None if x is None else int(x), int(m.affectee_attr_id),
            int(m.operator), int(m.aggregate_mode), m.aggregate_key, int(m.affector_attr_id))


LOCAL_WORLDS = (0, 1, 2, 3)
LAST = None      # the tables of the last `tables()` call (the C02 oracle re-uses the generator's run)


def build_local(ka, w, modifier, held=False):
    """World `w` for affector class `ka`; returns (builder, affector) or None when the world does not exist."""
    from eos.const.eve import EffectCategoryId
    if w == 3 and ka == 1:
        return None
    b = Builder(ka, modifier, EffectCategoryId.passive, False, held)
    f1 = b.fit()
    if w == 0:
        a = b.add_affector(f1, P)
        for k in range(14):
            if k in SINGLE:
                if k != ka:
                    b.add(f1, k, P)
            else:
                for v in (P, Q, Z):
                    it = b.add(f1, k, v)
                    if k == 4:
                        b.add(f1, CHARGE, v, container=it)
        f2 = b.fit()
        for k in OTHER_FIT:
            it = b.add(f2, k, M)
            if k == 4:
                b.add(f2, CHARGE, M, container=it)
    elif w in (1, 2):
        v = (Q, Z)[w - 1]
        a = b.add_affector(f1, v, container_kind=(5, 6)[w - 1])
        for k in SINGLE:
            if k != ka:
                b.add(f1, k, v)
    else:
        a = b.add_affector(f1, P)
        if ka != 0:
            b.add(f1, 0, P)
        it = b.add(f1, 4, P)
        b.add(f1, CHARGE, P, container=it)
        for k in (7, 8, 11):
            b.add(f1, k, P)
        if f1.ship is not None:
            raise AssertionError('ship in the ship-less world')
    return b, a


PROJ_TARGETS = ((1, 1), (1, 8), (1, 9), (2, 1), (2, 8), (2, 9), (2, 4))    # (fit, class)


def build_projected(kp, tgt, modifier, held=False):
    from eos import State
    from eos.const.eve import EffectCategoryId
    b = Builder(kp, modifier, EffectCategoryId.target, True, held)
    f1 = b.fit()
    a = b.add(f1, kp, AFF, state=State.active)
    cand = {}
    for k in OTHER_FIT + (9,):
        it = b.add(f1, k, M)
        cand[(1, k)] = it
        if k == 4:
            b.add(f1, CHARGE, M, container=it)
    f2 = b.fit()
    for k in range(14):
        if k in SINGLE:
            cand[(2, k)] = b.add(f2, k, P)
        else:
            for v in (P, Q, Z):
                it = b.add(f2, k, v)
                if v == P:
                    cand[(2, k)] = it
                if k == 4:
                    b.add(f2, CHARGE, v, container=it)
    f3 = b.fit()
    for k in (0, 1, 4, 8):
        b.add(f3, k, M)
    t = cand[tgt]
    b.aim(t)
    return b, a, t


def observe(kind, k, w, spec):
    """Both observations of one world: kind 'L' (k affector class, w world) / 'P' (k projector class, w target index),
    modifier spec (filter, domain, extra).  Returns None when the world does not exist, else
    (snapshot, affector id, target id | None, modifier tuple, valid, modified ids from scratch, modified ids
    incremental); `valid` is the verdict of the library's own modifier validation.

    from scratch: the world is built complete, then every item's attribute is read.
    incremental:  the world is built with the effect under test stopped (local; run mode force_stop) / with the
                  projector not yet targeting anything (projected), every item's attribute is read (all unmodified,
                  now cached), then the effect is started (run mode back to full_compliance) / the target is set, and
                  every item's attribute is read again."""
    C.load_repo()
    out = []
    for held in (False, True):
        m = mk_modifier(*spec)
        if kind == 'L':
            r = build_local(k, w, m, held)
            if r is None:
                return None
            b, a = r
            t = None
        else:
            b, a, t = build_projected(k, PROJ_TARGETS[w], m, held)
        if held:
            pre = b.modified()
            if pre:
                raise AssertionError('items %r modified before the effect runs / is applied' % pre)
            b.release()
        out.append((b.snapshot(), a._aid, None if t is None else t._aid, mod_tuple(m), mod_valid(m), b.modified()))
    if out[0][:5] != out[1][:5]:
        raise AssertionError('the held world differs from the world built at once')
    return out[0] + (out[1][5],)


def tables():
    """(local, projected): lists of (affector class, world key, snapshot, affector id, target id | None,
    [(modifier tuple, valid, modified ids from scratch, modified ids incremental)])."""
    global LAST
    C.load_repo()
    res = []
    for kind, classes, worlds, mods in (('L', range(15), LOCAL_WORLDS, local_modifiers()),
                                        ('P', PROJECTORS, range(len(PROJ_TARGETS)), projected_modifiers())):
        table = []
        for k in classes:
            for w in worlds:
                head = None
                rows = []
                for spec in mods:
                    o = observe(kind, k, w, spec)
                    if o is None:
                        break
                    if head is None:
                        head = o[:3]
                    elif o[:3] != head:
                        raise AssertionError('the world depends on the modifier')
                    rows.append((o[3], o[4], o[5], o[6]))
                if head is not None:
                    table.append((k, w) + head + (rows,))
        res.append(table)
    LAST = tuple(res)
    return LAST


# ------------------------------------------------------------------------------------------------ Lean text
def _o(x):
    if x is None:
        return 'none'
    return 'some (%d)' % x if x < 0 else 'some %d' % x


def _ints(xs):
    return '[%s]' % ', '.join(str(x) for x in xs)


def lean_world(name, snap, affector, tprefix):
    fits, items, _ = snap
    fl = ', '.join('⟨%d, %s, %s, %s⟩' % (f[0], _o(f[1]), _o(f[2]), _o(f[3])) for f in fits)
    il = ',\n    '.join('⟨%d, .%s, %d, %d, %d, %s, %s, %s, []⟩' % (
        i[0], KINDS[i[1]], i[2], i[3], i[4], _o(i[5]), _o(i[6]), _o(i[7])) for i in items)
    tl = ', '.join('%s%d' % (tprefix, i[2]) for i in items)
    return ('def %s : AWorld :=\n  { cfg := { hasSource := true, fits := [%s], items := [\n    %s] },\n'
            '    types := [%s],\n    affector := %d }\n' % (name, fl, il, tl, affector))


def _num(v):
    """Exact Lean numeral of a type attribute value (ints as they are, floats as their exact ratio)."""
    import fractions
    fr = fractions.Fraction(v)
    return '%d' % fr.numerator if fr.denominator == 1 else '%d/%d' % (fr.numerator, fr.denominator)


def lean_types(tprefix, types):
    return ''.join('def %s%d : ItemType := ⟨%d, %s, %s, %s, [%s], %s, %s⟩\n' % (
        tprefix, t[0], t[0], _o(t[1]), _o(t[2]), _o(t[3]), ', '.join('(%d, %s)' % (a, _num(v)) for a, v in t[4]),
        _ints(t[5]), _ints(t[6])) for t in types)


def lean_mod(m):
    return '⟨%d, %d, %s, %d, %d, %d, %s, %d⟩' % (m[0], m[1], _o(m[2]), m[3], m[4], m[5], _o(m[6]), m[7])


def block_text(kind, key, entries, header):
    """One generated module: the item types, the worlds of one affector / projector class and their rows."""
    out = []
    names = []
    ncases = npos = nvalid = 0
    tprefix = 'ty%s%02d_' % (kind, key)
    types = {}
    for e in entries:
        for t in e[2][2]:
            if types.setdefault(t[0], t) != t:
                raise AssertionError('type %d differs between the worlds of a block' % t[0])
    out.append(lean_types(tprefix, [types[k] for k in sorted(types)]))
    for (k, w, snap, aid, tid, rows) in entries:
        wn = 'w%s%d_%d' % (kind, k, w)
        out.append(lean_world(wn, snap, aid, tprefix))
        rn = 'r%s%d_%d' % (kind, k, w)
        names.append(rn)
        tgt = '' if tid is None else '%d, ' % tid
        out.append('def %s : List %s := [\n  %s]\n' % (
            rn, 'LocalRow' if tid is None else 'ProjRow',
            ',\n  '.join('⟨%s, %s%s, %s, %s, %s⟩' % (wn, tgt, lean_mod(m), 'true' if ok else 'false', _ints(ids),
                                                      _ints(inc)) for m, ok, ids, inc in rows)))
        ncases += len(rows) * len(snap[1])
        npos += sum(len(ids) for _, _, ids, _ in rows)
        nvalid += sum(len(snap[1]) for _, ok, _, _ in rows if ok)
    return header + '\n'.join(out), names, ncases, npos, nvalid


def generate():
    local, proj = tables()
    files = {}
    index = []
    totals = {'L': [0, 0, 0], 'P': [0, 0, 0]}
    blocks = {'L': [], 'P': []}
    for kind, table in (('L', local), ('P', proj)):
        for k in sorted({e[0] for e in table}):
            entries = [e for e in table if e[0] == k]
            mod = 'AffectsTable%s%02d' % (kind, k)
            head = ('import EosModel.AffectsSpec\n/- GENERATED by tools/gen/affects_table.py by running the real '
                    'calculator on designed worlds. Do not edit.\n   %s table, %s class %s; axes: see '
                    'EosGen/AffectsTable.lean. A row is (world, %smodifier, valid (the library\'s `_valid`), ids modified '
                    'from scratch, ids modified incrementally). -/\nnamespace EosGen.AffectsTable\nopen Eos.World Eos.AffectsSpec\n\n' % (
                        'local' if kind == 'L' else 'projected', 'affector' if kind == 'L' else 'projector',
                        KINDS[k], '' if kind == 'L' else 'target item, '))
            text, names, nc, npos, nv = block_text(kind, k, entries, head)
            bn = 'block%s%02d' % (kind, k)
            text += '\ndef %s : List %s := %s\n' % (bn, 'LocalRow' if kind == 'L' else 'ProjRow', ' ++ '.join(names))
            text += 'def %sCases : Nat := %d\ndef %sModified : Nat := %d\ndef %sValid : Nat := %d\n' % (
                bn, nc, bn, npos, bn, nv)
            text += '\nend EosGen.AffectsTable\n'
            files['EosGen/%s.lean' % mod] = text
            index.append(mod)
            blocks[kind].append(bn)
            totals[kind][0] += nc
            totals[kind][1] += npos
            totals[kind][2] += nv
    files['EosGen/AffectsTable.lean'] = '''%s
/- GENERATED by tools/gen/affects_table.py by running eos/calculator (affection.py, service.py) and the item
   classes of eos/item on designed worlds built through the public API. Do not edit.

%s
-/
namespace EosGen.AffectsTable
open Eos.World Eos.AffectsSpec

/-- One list of rows per affector class. -/
def localBlocks : List (List LocalRow) := [%s]
/-- One list of rows per projector class. -/
def projectedBlocks : List (List ProjRow) := [%s]
def localCases : List LocalCase := localBlocks.flatMap localCasesOf
def projectedCases : List ProjCase := projectedBlocks.flatMap projCasesOf
/-- Number of (world, modifier, item) observations made by the generator, how many were "modified" (from
scratch), and how many belong to a modifier the library's validation accepts. -/
def localCaseCount : Nat := %d
def localModifiedCount : Nat := %d
def localValidCount : Nat := %d
def projectedCaseCount : Nat := %d
def projectedModifiedCount : Nat := %d
def projectedValidCount : Nat := %d
def localBlockCounts : List (Nat × Nat) := [%s]
def projectedBlockCounts : List (Nat × Nat) := [%s]

end EosGen.AffectsTable
''' % (''.join('import EosGen.%s\n' % m for m in index), HEADER,
       ', '.join(blocks['L']), ', '.join(blocks['P']),
       totals['L'][0], totals['L'][1], totals['L'][2], totals['P'][0], totals['P'][1], totals['P'][2],
       ', '.join('(%sCases, %sModified)' % (b, b) for b in blocks['L']),
       ', '.join('(%sCases, %sModified)' % (b, b) for b in blocks['P']))
    return files


if __name__ == '__main__':
    import time
    t0 = time.time()
    out = generate()
    for k in sorted(out):
        print(k, len(out[k]))
    print('%.1fs' % (time.time() - t0))
