"""EosGen/FleetTable*.lean: which items of which fits a running fleet boost modifies, obtained by running the real
code (eos/calculator/service.py: the warfare-buff parts of `_handle_effects_started`, `__generate_projected_affectors`,
`get_projected_affectee_items`) on designed worlds built through the public API (builder of gen/affects_table).

See HEADER for the axes and the build order (outside the known finding K1).  Lean side: EosModel/GatherTableSpec.lean,
EosProofs/Lemmas/FleetTable*.lean, Props/C13.lean."""
import itertools
import os
import sys

sys.path.insert(0, os.path.dirname(os.path.dirname(os.path.abspath(__file__))))
import common as C  # noqa: E402
from gen import affects_table as AT  # noqa: E402

BUFF_ID, UNKNOWN_BUFF_ID = 11, 12
BUFF_VALUE = AT.DELTA                    # 7
TGTS = (2011, 2012, 2013, 2014)          # one target attribute per template
FIT_STATES = [(fl, ship) for fl in (1, 2, None) for ship in (True, False)]     # fleet A / B / none x ship / no ship
M, Z, AFF = AT.M, AT.Z, AT.AFF
LAST = None

HEADER = '''The booster: a high module in state active on fit 1 whose type's default effect is the warfare-buff effect
`moduleBonusWarfareLinkArmor` (category active, no modifiers of its own) and whose type has warfareBuff1ID = 11,
warfareBuff1Value = 7, warfareBuff2ID = 12 (a buff id the source has no templates for), warfareBuff2Value = 9.  The
source serves four templates for buff 11 (operator mod_add, aggregate mode stack), one per filter kind, each with its
own target attribute (base value 100 on every type):
  item -> 2011,  domain -> 2012,  domain_group 501 -> 2013,  domain_skillrq 3301 -> 2014.
The four attributes of every item are read through the public attribute map: 100 = not boosted, 107 = boosted, anything
else makes the generator fail.  A row is (world, the modifier `DogmaModifier._make_from_buff_template` makes of one
template, ids boosted from scratch, ids boosted incrementally); configuration, types, effect and templates are read
back from the live objects.

Build order of every world (both observations): the fits with all their items, then the fleets are joined, the booster
is added LAST.  This stays outside the known finding K1 (a ship assigned / loaded after the boost started, or a fleet
joined before the ship exists, is not boosted).
  from scratch: the booster is added in state active, then every item is read;
  incremental:  the booster is added in state offline, every item is read (all 100, now cached), the booster is set
                active, every item is read again.

 number of fits in the solar system (1 | 2 | 3; the booster is on fit 1)
 x for every fit: fleet A | fleet B | no fleet  x  with ship | without ship        (6 + 36 + 216 = 258 worlds)
 x template (4)
 x affectee: every item of the world
   every fit: character M, ship M (if any), high module M holding a charge M, drone M, rig Z;  fit 1: the booster.
   (M: group 501, required skills {3301, TA}; Z: no group, no skills; TA the booster's type id.)'''


def build(states, held):
    from eos import Fleet, State
    from eos.const.eve import AttrId, EffectCategoryId, EffectId
    from eos.const.eos import ModAffecteeFilter, ModAggregateMode, ModOperator
    from eos.eve_obj.buff_template import WarfareBuffTemplate

    def hook(k, v, tid, attrs):
        for t in TGTS:
            attrs[t] = AT.BASE
        if v == AFF:
            attrs[int(AttrId.warfare_buff_1_id)] = BUFF_ID
            attrs[int(AttrId.warfare_buff_1_value)] = BUFF_VALUE
            attrs[int(AttrId.warfare_buff_2_id)] = UNKNOWN_BUFF_ID
            attrs[int(AttrId.warfare_buff_2_value)] = 9
    b = AT.Builder(4, None, EffectCategoryId.active, True, False,
                   effect_id=int(EffectId.module_bonus_warfare_link_armor), attr_hook=hook,
                   extra_attrs=TGTS + tuple(int(a) for a in (AttrId.warfare_buff_1_id, AttrId.warfare_buff_1_value,
                                                              AttrId.warfare_buff_2_id, AttrId.warfare_buff_2_value)))
    b.ch.buffs[BUFF_ID] = [
        WarfareBuffTemplate(buff_id=BUFF_ID, affectee_filter=flt, affectee_filter_extra_arg=arg, affectee_attr_id=tgt,
                            operator=ModOperator.mod_add, aggregate_mode=ModAggregateMode.stack)
        for flt, arg, tgt in ((ModAffecteeFilter.item, None, TGTS[0]), (ModAffecteeFilter.domain, None, TGTS[1]),
                              (ModAffecteeFilter.domain_group, AT.G1, TGTS[2]),
                              (ModAffecteeFilter.domain_skillrq, AT.S1, TGTS[3]))]
    b.fleets = [Fleet(), Fleet()]
    fits = []
    for fl, ship in states:
        f = b.fit()
        fits.append(f)
        b.add(f, 0, M)
        if ship:
            b.add(f, 1, M)
        it = b.add(f, 4, M)
        b.add(f, AT.CHARGE, M, container=it)
        b.add(f, 8, M)
        b.add(f, 7, Z)
    for f, (fl, ship) in zip(fits, states):
        if fl is not None:
            b.fleets[fl - 1].fits.add(f)
    a = b.add(fits[0], 4, AFF, state=State.offline if held else State.active)
    return b, a


def boosted(b):
    """{target attribute: ids of the items on which it is boosted}."""
    out = {t: [] for t in TGTS}
    for it in b.items:
        for t in TGTS:
            v = it.attrs[t]
            if v == AT.BASE + BUFF_VALUE:
                out[t].append(it._aid)
            elif v != AT.BASE:
                raise AssertionError('item %d (%r): attribute %d = %r, neither 100 nor 107' % (it._aid, it, t, v))
    return out


def templates_of(b):
    """The buff templates of the source as Lean `BuffTemplate` fields, and the modifier the service makes of each."""
    from eos.const.eve import AttrId
    from eos.eve_obj.modifier import DogmaModifier
    out = []
    for bid in sorted(b.ch.buffs):
        for tp in b.ch.buffs[bid]:
            x = tp.affectee_filter_extra_arg
            m = DogmaModifier._make_from_buff_template(tp, int(AttrId.warfare_buff_1_value))
            out.append(((int(tp.buff_id), int(tp.affectee_filter), None if x is None else int(x),
                         int(tp.affectee_attr_id), int(tp.operator), int(tp.aggregate_mode)), AT.mod_tuple(m)))
    return out


def observe(states):
    """(snapshot, effect tuple, booster id, [(template tuple, modifier tuple)], boosted from scratch, boosted
    incrementally)."""
    from eos import State
    from gen import resist_table as RT
    C.load_repo()
    out = []
    for held in (False, True):
        b, a = build(states, held)
        if held:
            pre = boosted(b)
            if any(pre.values()):
                raise AssertionError('items boosted before the booster is active: %r' % pre)
            a.state = State.active
        out.append((b.snapshot(), RT.effect_tuple(b.effect), a._aid, templates_of(b), boosted(b)))
    if out[0][:4] != out[1][:4]:
        raise AssertionError('the held world differs from the world built at once')
    return out[0] + (out[1][4],)


def worlds():
    for n in (1, 2, 3):
        for states in itertools.product(FIT_STATES, repeat=n):
            yield states


def tables():
    """[(states, snapshot, effect, booster id, templates, [(modifier tuple, ids from scratch, ids incremental)])]."""
    global LAST
    C.load_repo()
    table = []
    for states in worlds():
        snap, eff, aid, tpls, scr, inc = observe(states)
        rows = [(m, scr[m[3]], inc[m[3]]) for _, m in tpls]
        table.append((states, snap, eff, aid, [t for t, _ in tpls], rows))
    LAST = table
    return table


# ------------------------------------------------------------------------------------------------ Lean text
def lean_fworld(name, snap, tprefix, utypes_name, effect, buffs_name, affector):
    from gen import resist_table as RT
    text = RT.lean_gworld(name, snap, tprefix, utypes_name, effect, affector, None)
    return text.replace('buffs := []', 'buffs := %s' % buffs_name)


def generate():
    from gen import resist_table as RT
    table = tables()
    files = {}
    blocks = []
    totals = [0, 0]
    for bi, st1 in enumerate(FIT_STATES):
        entries = [e for e in table if e[0][0] == st1]
        tprefix = 'tyF%d_' % bi
        types = {}
        tpls = None
        for e in entries:
            for t in e[1][2]:
                if types.setdefault(t[0], t) != t:
                    raise AssertionError('type %d differs between the worlds of a block' % t[0])
            if tpls is None:
                tpls = e[4]
            elif tpls != e[4]:
                raise AssertionError('templates differ between worlds')
        out = [AT.lean_types(tprefix, [types[k] for k in sorted(types)])]
        un = 'utF%d' % bi
        out.append('def %s : List ItemType := [%s]\n' % (un, ', '.join('%s%d' % (tprefix, k) for k in sorted(types))))
        bfn = 'buffsF%d' % bi
        out.append('def %s : List BuffTemplate := [%s]\n' % (bfn, ', '.join(
            '⟨%d, %d, %s, %d, %d, %d⟩' % (t[0], t[1], AT._o(t[2]), t[3], t[4], t[5]) for t in tpls)))
        names = []
        nc = npos = 0
        for wi, (states, snap, eff, aid, _, rows) in enumerate(entries):
            wn = 'wF%d_%d' % (bi, wi)
            out.append('/- fits: %s -/' % '; '.join('%s, %s' % ('no fleet' if fl is None else 'fleet %s' % 'AB'[fl - 1],
                                                                 'ship' if sh else 'no ship') for fl, sh in states))
            out.append(lean_fworld(wn, snap, tprefix, un, eff, bfn, aid))
            rn = 'rF%d_%d' % (bi, wi)
            names.append(rn)
            out.append('def %s : List FleetRow := [\n  %s]\n' % (rn, ',\n  '.join(
                '⟨%s, %s, %s, %s⟩' % (wn, AT.lean_mod(m), AT._ints(a), AT._ints(b)) for m, a, b in rows)))
            nc += len(rows) * len(snap[1])
            npos += sum(len(a) for _, a, _ in rows)
        bn = 'blockF%d' % bi
        mod = 'FleetTable%d' % bi
        files['EosGen/%s.lean' % mod] = (
            'import EosModel.GatherTableSpec\n/- GENERATED by tools/gen/fleet_table.py by running the real calculator on '
            'designed worlds. Do not edit.\n   Fleet-boost table, fit 1 (the booster\'s fit): %s, %s; axes: see '
            'EosGen/FleetTable.lean. -/\nnamespace EosGen.FleetTable\nopen Eos.World Eos.AffectsSpec\n\n%s\n'
            'def %s : List FleetRow := %s\ndef %sCases : Nat := %d\ndef %sBoosted : Nat := %d\n\n'
            'end EosGen.FleetTable\n'
            % ('no fleet' if st1[0] is None else 'fleet %s' % 'AB'[st1[0] - 1], 'with ship' if st1[1] else 'without ship',
               '\n'.join(out), bn, ' ++ '.join(names), bn, nc, bn, npos))
        blocks.append((mod, bn))
        totals[0] += nc
        totals[1] += npos
    files['EosGen/FleetTable.lean'] = '''%s
/- GENERATED by tools/gen/fleet_table.py by running eos/calculator/service.py (warfare buffs) on designed worlds built
   through the public API. Do not edit.

%s
-/
namespace EosGen.FleetTable
open Eos.World Eos.AffectsSpec

/-- One list of rows per state of fit 1. -/
def fleetBlocks : List (List FleetRow) := [%s]
def fleetCases : List FleetCase := fleetBlocks.flatMap fleetCasesOf
/-- Number of (world, template, item) observations and how many were "boosted" (from scratch). -/
def fleetCaseCount : Nat := %d
def fleetBoostedCount : Nat := %d

end EosGen.FleetTable
''' % (''.join('import EosGen.%s\n' % m for m, _ in blocks), HEADER, ', '.join(b for _, b in blocks),
       totals[0], totals[1])
    return files


if __name__ == '__main__':
    import time
    t0 = time.time()
    out = generate()
    for k in sorted(out):
        print(k, len(out[k]))
    print('%.1fs' % (time.time() - t0))
