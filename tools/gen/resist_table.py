"""EosGen/ResistTable*.lean: the resistance factor the real code applies to a projected modification, and the carrier
item whose resistance attribute it reads (`get_modifications`: `effect.resist_attr_id`, `affectee._solsys_carrier`),
obtained by running the real code on designed worlds built through the public API (builder of gen/affects_table).

The effect under test is a projected effect (category target, default effect of the projector type, projector
active) with one dogma modifier `mod_add`, source attribute SRC = 7, target attribute TGT = 100 on every type, domain
target.  The observed value of TGT is 100 (not modified) or 100 + 7 r; r is the factor the code applied.  Every type
has its OWN value of the resistance attribute (an odd multiple of 1/512 below 1), so r names the item whose attribute
was read; r = 1 means no resistance was applied.  See HEADER for the axes; Lean side: EosModel/GatherTableSpec.lean,
EosProofs/Lemmas/ResistTable*.lean, Props/C02.lean section I."""
import fractions
import os
import sys

sys.path.insert(0, os.path.dirname(os.path.dirname(os.path.abspath(__file__))))
import common as C  # noqa: E402
from gen import affects_table as AT  # noqa: E402

RES = 2003
TGT, SRC, BASE, DELTA = AT.TGT, AT.SRC, AT.BASE, AT.DELTA
P, Z, M, AFF = AT.P, AT.Z, AT.M, AT.AFF
MODES = ('present', 'absent', 'zero', 'none')
TARGETS = ((2, 1), (2, 8), (2, 9), (1, 1), (1, 8))          # (fit, class)
LAST = None

HEADER = '''The effect under test: category target, default effect of the projector's type, projector in state active, one
dogma modifier (mod_add, source attribute 2002 = 7 on the projector's type, target attribute 2001 = 100 on every type,
domain target).  Attribute 2001 of every item is read through the public attribute map: 100 = not modified, otherwise
100 + 7 r where r is the factor the real code applied to the modification.  Every type t has its own value
(2 (t - 1000) + 1) / 512 of the resistance attribute 2003, so r names the item whose attribute was read (r = 1: none).
Two observations per world as in EosGen/AffectsTable.lean (from scratch; every item read, then the target set).
A row is (world, modifier, valid = the library's `_valid` verdict on the modifier, [(item id, r)] from scratch,
[(item id, r)] incrementally).  Configuration, types, effect and modifier are read back from the live objects.

Type variants as in EosGen/AffectsTable.lean: P (group 501, skills {3301, 3302}), M (group 501, skills {3301, TA}),
Z (no group, no skills), A (the projector's type, TA its id).

 projector class (4: module high / mid / low, drone)
 x resistance mode: present (effect.resist_attr_id = 2003, every type has attribute 2003) | absent (resist_attr_id =
   2003, no type has the attribute);  for the high-module projector additionally zero (resist_attr_id = 0, types have
   the attribute) | none (resist_attr_id = None, types have the attribute)
 x target (5): fit 2: ship, drone, fighter squad;  fit 1 (the projector's fit): ship, drone
 x modifier (7): filter item | domain | domain_group 501 | domain_skillrq 3301 | domain_skillrq current_self |
   owner_skillrq 3301 | owner_skillrq current_self (the last two are rejected by the library's validation for domain
   target; the real code and the specification treat them alike, they are what a fleet-boost template may carry)
 x affectee: every item of the world
   fit 1: the projector, character, ship, drone, high module holding a charge (all P);
   fit 2: one item M of every class except charge (character, ship, stance, subsystem, module high / mid / low, rig,
   drone, fighter squad, skill, implant, booster, effect beacon), the high module M holding a charge M, a high module Z
   holding a charge Z.'''


def rv(tid):
    return (2 * (tid - 1000) + 1) / 512


def modifiers():
    return [(1, 4, None), (2, 4, None), (3, 4, AT.G1), (4, 4, AT.S1), (4, 4, -1), (5, 4, AT.S1), (5, 4, -1)]


def modes_of(kp):
    return MODES if kp == 4 else MODES[:2]


def build(kp, mode, tgt, modifier, held):
    from eos import State
    from eos.const.eve import EffectCategoryId

    def hook(k, v, tid, attrs):
        if mode != 'absent':
            attrs[RES] = rv(tid)
    b = AT.Builder(kp, modifier, EffectCategoryId.target, True, held,
                   effect_kw={'resist_attr_id': {'present': RES, 'absent': RES, 'zero': 0, 'none': None}[mode]},
                   attr_hook=hook, extra_attrs=(RES,))
    f1 = b.fit()
    a = b.add(f1, kp, AFF, state=State.active)
    cand = {}
    for k in (0, 1, 8, 4):
        it = b.add(f1, k, P)
        cand[(1, k)] = it
        if k == 4:
            b.add(f1, AT.CHARGE, P, container=it)
    f2 = b.fit()
    for k in range(14):
        it = b.add(f2, k, M)
        cand[(2, k)] = it
        if k == 4:
            b.add(f2, AT.CHARGE, M, container=it)
    it = b.add(f2, 4, Z)
    b.add(f2, AT.CHARGE, Z, container=it)
    t = cand[tgt]
    b.aim(t)
    return b, a, t


def factors(b):
    """[(item id, factor)] of the items whose TGT is modified; the factor as an exact fraction."""
    known = {fractions.Fraction(1)} | {fractions.Fraction(rv(it._type_id)) for it in b.items}
    out = []
    for it in b.items:
        v = it.attrs[TGT]
        if v == BASE:
            continue
        r = (fractions.Fraction(v) - BASE) / DELTA
        if r not in known:
            raise AssertionError('item %d (%r): TGT = %r is not 100 + 7 r for 1 or a resistance value of the world'
                                 % (it._aid, it, v))
        out.append((it._aid, r))
    return out


def effect_tuple(e):
    from eos.eve_obj.effect.warfare_buff.base import WarfareBuffEffect
    return (int(e.id), int(e.category_id), e.fitting_usage_chance_attr_id,
            None if e.resist_attr_id is None else int(e.resist_attr_id), isinstance(e, WarfareBuffEffect))


def observe(kp, mode, ti, spec):
    """(snapshot, effect tuple, projector id, target id, modifier tuple, valid, factors from scratch, factors
    incremental)."""
    C.load_repo()
    out = []
    for held in (False, True):
        m = AT.mk_modifier(*spec)
        b, a, t = build(kp, mode, TARGETS[ti], m, held)
        if held:
            pre = factors(b)
            if pre:
                raise AssertionError('items %r modified before the target is set' % pre)
            b.release()
        out.append((b.snapshot(), effect_tuple(b.effect), a._aid, t._aid, AT.mod_tuple(m), AT.mod_valid(m), factors(b)))
    if out[0][:6] != out[1][:6]:
        raise AssertionError('the held world differs from the world built at once')
    return out[0] + (out[1][6],)


def tables():
    """[(projector class, mode, target index, snapshot, effect, projector id, target id, rows)], rows =
    [(modifier tuple, valid, factors from scratch, factors incremental)]."""
    global LAST
    C.load_repo()
    table = []
    for kp in AT.PROJECTORS:
        for mode in modes_of(kp):
            for ti in range(len(TARGETS)):
                head = None
                rows = []
                for spec in modifiers():
                    o = observe(kp, mode, ti, spec)
                    if head is None:
                        head = o[:4]
                    elif o[:4] != head:
                        raise AssertionError('the world depends on the modifier')
                    rows.append(o[4:])
                table.append((kp, mode, ti) + head + (rows,))
    LAST = table
    return table


# ------------------------------------------------------------------------------------------------ Lean text
def _frac(fr):
    return '%d' % fr.numerator if fr.denominator == 1 else '%d/%d' % (fr.numerator, fr.denominator)


def _obs(pairs):
    return '[%s]' % ', '.join('(%d, %s)' % (i, _frac(r)) for i, r in pairs)


def lean_effect(e):
    return '⟨%d, %d, %s, %s, %s, []⟩' % (e[0], e[1], AT._o(e[2]), AT._o(e[3]), 'true' if e[4] else 'false')


def lean_gworld(name, snap, tprefix, utypes_name, effect, affector, target):
    fits, items, _ = snap
    fl = ', '.join('⟨%d, %s, %s, %s⟩' % (f[0], AT._o(f[1]), AT._o(f[2]), AT._o(f[3])) for f in fits)
    il = ',\n    '.join('⟨%d, .%s, %d, %d, %d, %s, %s, %s, []⟩' % (
        i[0], AT.KINDS[i[1]], i[2], i[3], i[4], AT._o(i[5]), AT._o(i[6]), AT._o(i[7])) for i in items)
    tl = ', '.join('%s%d' % (tprefix, i[2]) for i in items)
    return ('def %s : GWorld :=\n  { cfg := { hasSource := true, fits := [%s], items := [\n    %s] },\n'
            '    types := [%s],\n    utypes := %s, eff := %s, buffs := [], affector := %d, target := %s }\n'
            % (name, fl, il, tl, utypes_name, lean_effect(effect), affector, AT._o(target)))


def generate():
    table = tables()
    files = {}
    blocks = []
    totals = [0, 0, 0]
    for kp in AT.PROJECTORS:
        out = []
        names = []
        nc = npos = nv = 0
        for mode in modes_of(kp):
            entries = [e for e in table if e[0] == kp and e[1] == mode]
            tprefix = 'tyR%02d%s_' % (kp, mode[0])
            types = {}
            for e in entries:
                for t in e[3][2]:
                    if types.setdefault(t[0], t) != t:
                        raise AssertionError('type %d differs between the worlds of a block' % t[0])
            out.append(AT.lean_types(tprefix, [types[k] for k in sorted(types)]))
            un = 'utR%02d%s' % (kp, mode[0])
            out.append('def %s : List ItemType := [%s]\n' % (un, ', '.join('%s%d' % (tprefix, k) for k in sorted(types))))
            for (_, _, ti, snap, eff, aid, tid, rows) in entries:
                wn = 'wR%02d%s%d' % (kp, mode[0], ti)
                out.append(lean_gworld(wn, snap, tprefix, un, eff, aid, tid))
                rn = 'rR%02d%s%d' % (kp, mode[0], ti)
                names.append(rn)
                out.append('def %s : List ResistRow := [\n  %s]\n' % (rn, ',\n  '.join(
                    '⟨%s, %s, %s, %s, %s⟩' % (wn, AT.lean_mod(m), 'true' if ok else 'false', _obs(a), _obs(b))
                    for m, ok, a, b in rows)))
                nc += len(rows) * len(snap[1])
                npos += sum(len(a) for _, _, a, _ in rows)
                nv += sum(len(snap[1]) for _, ok, _, _ in rows if ok)
        bn = 'blockR%02d' % kp
        mod = 'ResistTable%02d' % kp
        files['EosGen/%s.lean' % mod] = (
            'import EosModel.GatherTableSpec\n/- GENERATED by tools/gen/resist_table.py by running the real calculator on '
            'designed worlds. Do not edit.\n   Resistance table, projector class %s; axes: see EosGen/ResistTable.lean. -/\n'
            'namespace EosGen.ResistTable\nopen Eos.World Eos.AffectsSpec\n\n%s\ndef %s : List ResistRow := %s\n'
            'def %sCases : Nat := %d\ndef %sModified : Nat := %d\ndef %sValid : Nat := %d\n\nend EosGen.ResistTable\n'
            % (AT.KINDS[kp], '\n'.join(out), bn, ' ++ '.join(names), bn, nc, bn, npos, bn, nv))
        blocks.append((mod, bn))
        totals[0] += nc
        totals[1] += npos
        totals[2] += nv
    files['EosGen/ResistTable.lean'] = '''%s
/- GENERATED by tools/gen/resist_table.py by running eos/calculator (service.get_modifications, affection.py) and the
   `_solsys_carrier` properties of eos/item on designed worlds built through the public API. Do not edit.

%s
-/
namespace EosGen.ResistTable
open Eos.World Eos.AffectsSpec

/-- One list of rows per projector class. -/
def resistBlocks : List (List ResistRow) := [%s]
def resistCases : List ResistCase := resistBlocks.flatMap resistCasesOf
/-- Number of (world, modifier, item) observations, how many were "modified" (from scratch), how many belong to a
modifier the library's validation accepts. -/
def resistCaseCount : Nat := %d
def resistModifiedCount : Nat := %d
def resistValidCount : Nat := %d

end EosGen.ResistTable
''' % (''.join('import EosGen.%s\n' % m for m, _ in blocks), HEADER, ', '.join(b for _, b in blocks),
       totals[0], totals[1], totals[2])
    return files


if __name__ == '__main__':
    import time
    t0 = time.time()
    out = generate()
    for k in sorted(out):
        print(k, len(out[k]))
    print('%.1fs' % (time.time() - t0))
