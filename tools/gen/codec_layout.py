"""EosGen/CodecLayout.lean: positional layout of every JsonCacheHandler compress/decompress method.

Obtained by *running the real private methods* on sentinel objects whose every field holds a
distinct marker, in both directions:
  * `<e>C`: leaf name -> path inside the compressed tuple;
  * `<e>D`: leaf name of the reconstructed object -> path it was read from + coercion
    (copy / bool, found by flipping the input leaf to 0 / effect = resolved through get_effect);
  * the sentinel inputs and the real outputs themselves, as Lean terms of the model's types
    (`<e>Sentinels`, `<e>CompressOut`, `<e>DecompressIn`, `<e>DecompressOut`) so that the model
    functions can be evaluated on the very same vectors (`rfl`);
  * `jsonNorm`: what `json.loads(json.dumps(x))` does to each kind of Python value.
Anything the walkers do not recognise raises (broken obligation), never a default.
"""
import enum
import json
import math
import os
import sys
from collections import namedtuple

sys.path.insert(0, os.path.dirname(os.path.dirname(os.path.abspath(__file__))))
import common as C  # noqa: E402


class Unsupported(Exception):
    pass


BASE = 900001  # markers; no eve effect id / group id lives up there (checked below)


class Markers:
    def __init__(self):
        self.n = BASE

    def __call__(self):
        self.n += 1
        return self.n


# ---------------------------------------------------------------- leaves of real objects
MOD_FIELDS = ['affectee_filter', 'affectee_domain', 'affectee_filter_extra_arg', 'affectee_attr_id', 'operator',
              'aggregate_mode', 'aggregate_key', 'affector_attr_id']
BUFF_FIELDS = ['buff_id', 'affectee_filter', 'affectee_filter_extra_arg', 'affectee_attr_id', 'operator',
               'aggregate_mode']
ATTR_FIELDS = ['id', 'max_attr_id', 'default_value', 'high_is_good', 'stackable']
EFFECT_FIELDS = ['id', 'category_id', 'is_offensive', 'is_assistance', 'duration_attr_id', 'discharge_attr_id',
                 'range_attr_id', 'falloff_attr_id', 'tracking_speed_attr_id', 'fitting_usage_chance_attr_id',
                 'resist_attr_id', 'build_status']


def leaves_flat(fields):
    return lambda o: {f: getattr(o, f) for f in fields}


def leaves_effect(e):
    out = {f: getattr(e, f) for f in EFFECT_FIELDS}
    if not isinstance(e.modifiers, tuple):
        raise Unsupported('effect.modifiers is %s' % type(e.modifiers).__name__)
    for i, m in enumerate(e.modifiers):
        for f in MOD_FIELDS:
            out['modifiers.%d.%s' % (i, f)] = getattr(m, f)
    return out


def leaves_type(t):
    out = {'id': t.id, 'group_id': t.group_id, 'category_id': t.category_id}
    for i, (k, v) in enumerate(t.attrs.items()):
        out['attrs.%d.k' % i] = k
        out['attrs.%d.v' % i] = v
    for i, (k, e) in enumerate(t.effects.items()):
        if e.id != k:
            raise Unsupported('type.effects key differs from effect id')
        out['effects.%d' % i] = k
    out['default_effect'] = None if t.default_effect is None else t.default_effect.id
    for i, (k, v) in enumerate(t.abilities_data.items()):
        out['abilities_data.%d.k' % i] = k
        out['abilities_data.%d.cooldown_time' % i] = v.cooldown_time
        out['abilities_data.%d.charge_quantity' % i] = v.charge_quantity
    for i, (k, v) in enumerate(t.required_skills.items()):
        out['required_skills.%d.k' % i] = k
        out['required_skills.%d.v' % i] = v
    return out


# ---------------------------------------------------------------- trees
def walk(tree, path=()):
    if isinstance(tree, (tuple, list)):
        for i, x in enumerate(tree):
            yield from walk(x, path + (i,))
    else:
        yield path, tree


def relabel(tree, mk, table, path=()):
    """Same shape as lists (what json gives back), every leaf a fresh marker."""
    if isinstance(tree, (tuple, list)):
        return [relabel(x, mk, table, path + (i,)) for i, x in enumerate(tree)]
    m = mk()
    table[m] = path
    return m


def put(tree, path, val):
    if not path:
        return val
    t = list(tree)
    t[path[0]] = put(t[path[0]], path[1:], val)
    return t


# ---------------------------------------------------------------- Lean rendering
def pv(x):
    if x is None:
        return '.pnone'
    if isinstance(x, bool):
        return '.bool %s' % ('true' if x else 'false')
    if isinstance(x, enum.Enum):
        return '.enum %s' % _int(int(x))
    if isinstance(x, int):
        return '.int %s' % _int(x)
    if isinstance(x, tuple):
        return '.tuple [%s]' % ', '.join(pv(y) for y in x)
    if isinstance(x, list):
        return '.list [%s]' % ', '.join(pv(y) for y in x)
    raise Unsupported('cannot render %r' % (x,))


def _int(i):
    return '%d' % i if i >= 0 else '(%d)' % i


def lb(b):
    if not isinstance(b, bool):
        raise Unsupported('expected a bool field, got %r' % (b,))
    return 'true' if b else 'false'


def lean_mod(m):
    return '⟨%s⟩' % ', '.join(pv(getattr(m, f)) for f in MOD_FIELDS)


def lean_buff(b):
    return '⟨%s⟩' % ', '.join(pv(getattr(b, f)) for f in BUFF_FIELDS)


def lean_attr(a):
    return '⟨%s, %s, %s, %s, %s⟩' % (pv(a.id), pv(a.max_attr_id), pv(a.default_value), lb(a.high_is_good),
                                     lb(a.stackable))


def lean_effect(e):
    parts = []
    for f in EFFECT_FIELDS:
        parts.append(lb(getattr(e, f)) if f in ('is_offensive', 'is_assistance') else pv(getattr(e, f)))
    parts.append('[%s]' % ', '.join(lean_mod(m) for m in e.modifiers))
    return '⟨%s⟩' % ', '.join(parts)


def lean_dict(d, val):
    return '[%s]' % ', '.join('(%s, %s)' % (pv(k), val(v)) for k, v in d.items())


def lean_type(t):
    return '⟨%s, %s, %s, %s, %s, %s, %s, %s⟩' % (
        pv(t.id), pv(t.group_id), pv(t.category_id), lean_dict(t.attrs, pv), lean_dict(t.effects, lean_effect),
        'none' if t.default_effect is None else '(some %s)' % lean_effect(t.default_effect),
        lean_dict(t.abilities_data, lambda a: '⟨%s, %s⟩' % (pv(a.cooldown_time), pv(a.charge_quantity))),
        lean_dict(t.required_skills, pv))


def lean_layout(rows):
    def one(r):
        s = '("%s", [%s]' % (r[0], ', '.join(map(str, r[1])))
        return s + (', "%s")' % r[2] if len(r) == 3 else ')')
    return '[%s]' % ',\n   '.join(one(r) for r in rows)


# ---------------------------------------------------------------- probing one entity
def probe(name, sentinels, leaves, compress, decompress, render, resolved=(), storage=None):
    """sentinels: real objects, the first one with every leaf a distinct marker.
    Returns the Lean definitions for this entity."""
    first = sentinels[0]
    lv = leaves(first)
    outs = [compress(s) for s in sentinels]
    # bool leaves of the sentinel cannot carry a marker: locate them by flipping (done by the caller
    # through a second sentinel whose bool leaves are negated)
    marker_of = {}
    for k, v in lv.items():
        if isinstance(v, bool) or v is None:
            continue
        if v in marker_of:
            raise Unsupported('%s: marker reused' % name)
        marker_of[v] = k
    layout_c = []
    seen = set()
    for path, leaf in walk(outs[0]):
        if isinstance(leaf, bool):
            # which bool leaf? the one whose negation flips this position
            cands = []
            for k, v in lv.items():
                if isinstance(v, bool):
                    neg = [s for s in sentinels[1:] if leaves(s)[k] is (not v)
                           and all(leaves(s)[k2] == v2 for k2, v2 in lv.items() if k2 != k)]
                    if neg and dict(walk(compress(neg[0])))[path] is (not leaf):
                        cands.append(k)
            if len(cands) != 1:
                raise Unsupported('%s: bool at %s not attributable (%s)' % (name, path, cands))
            k = cands[0]
        elif leaf in marker_of:
            k = marker_of[leaf]
        else:
            raise Unsupported('%s: unknown leaf %r at %s' % (name, leaf, path))
        if k in seen:
            raise Unsupported('%s: leaf %s written twice' % (name, k))
        seen.add(k)
        layout_c.append((k, path))
    missing = set(k for k, v in lv.items() if v is not None) - seen
    if missing:
        raise Unsupported('%s: leaves not persisted: %s' % (name, sorted(missing)))
    # --- decompress on a freshly labelled tree of the same shape
    mk = Markers()
    mk.n = BASE + 5000
    table = {}
    din = relabel(outs[0], mk, table)
    if storage is not None:
        storage(din)
    res = decompress(din)
    rl = leaves(res)
    layout_d = []
    dins = [din]
    for k, v in rl.items():
        if isinstance(v, bool):
            hits = []
            for m, path in table.items():
                alt = put(din, path, 0)
                try:
                    r2 = leaves(decompress(alt))
                except Exception:
                    continue
                if r2[k] is (not v):
                    hits.append((path, alt))
            if len(hits) != 1:
                raise Unsupported('%s: bool leaf %s depends on %d input positions' % (name, k, len(hits)))
            layout_d.append((k, hits[0][0], 'bool'))
            dins.append(hits[0][1])
        elif v in table:
            layout_d.append((k, table[v], 'effect' if k.split('.')[0] in resolved else 'copy'))
        else:
            raise Unsupported('%s: reconstructed leaf %s = %r is no input marker' % (name, k, v))
    used = [p for _, p, _ in layout_d]
    if len(set(used)) != len(used) or set(used) != set(table.values()):
        raise Unsupported('%s: decompress does not read every position exactly once' % name)
    douts = [decompress(d) for d in dins]
    txt = []
    txt.append('def %sC : List (String × List Nat) :=\n  %s\n' % (name, lean_layout(sorted(layout_c, key=lambda r: r[1]))))
    txt.append('def %sD : List (String × List Nat × String) :=\n  %s\n' % (
        name, lean_layout(sorted(layout_d, key=lambda r: r[1]))))
    txt.append('def %sSentinels : List %s :=\n  [%s]\n' % (name, render[0], ',\n   '.join(render[1](s) for s in sentinels)))
    txt.append('def %sCompressOut : List PV :=\n  [%s]\n' % (name, ',\n   '.join(pv(o) for o in outs)))
    txt.append('def %sDecompressIn : List PV :=\n  [%s]\n' % (name, ',\n   '.join(pv(d) for d in dins)))
    txt.append('def %sDecompressOut : List %s :=\n  [%s]\n' % (name, render[0], ',\n   '.join(render[1](o) for o in douts)))
    return '\n'.join(txt)


def json_norm_table():
    class E(enum.IntEnum):
        a = 7
    NT = namedtuple('NT', 'x y')

    def kind(v):
        if v is None:
            return 'none'
        if isinstance(v, bool):
            return 'bool'
        if isinstance(v, enum.Enum):
            return 'enum'
        if isinstance(v, int):
            return 'int'
        if isinstance(v, float):
            return 'inf' if v == math.inf else '-inf' if v == -math.inf else 'float'
        return type(v).__name__
    probes = [('none', None), ('bool', True), ('int', 7), ('enum', E.a), ('float', 0.5), ('inf', math.inf),
              ('-inf', -math.inf), ('str', 's'), ('list', [1]), ('tuple', (1,)), ('namedtuple', NT(1, 2)),
              ('dict', {'k': 1})]
    rows = []
    for nm, v in probes:
        back = json.loads(json.dumps(v))
        same = (back == v) if nm not in ('tuple', 'namedtuple') else (back == list(v))
        if not same:
            raise Unsupported('json changes the value of a %s' % nm)
        rows.append('("%s", "%s")' % (nm, kind(back)))
    return '[%s]' % ', '.join(rows)


def generate():
    C.load_repo()
    from eos.cache_handler.json_cache_handler import JsonCacheHandler
    from eos.eve_obj.attribute import Attribute
    from eos.eve_obj.buff_template import WarfareBuffTemplate
    from eos.eve_obj.effect import Effect, EffectFactory
    from eos.eve_obj.modifier import DogmaModifier
    from eos.eve_obj.type import AbilityData, Type
    if any(isinstance(k, int) and k > BASE for k in list(EffectFactory._class_id_map) + list(EffectFactory._instance_id_map)):
        raise Unsupported('marker range overlaps customised effect ids')
    h = object.__new__(JsonCacheHandler)
    st = {}
    setattr(h, '_JsonCacheHandler__effect_storage', st)

    def priv(n):
        return getattr(h, '_JsonCacheHandler__' + n)
    mk = Markers()
    parts = []
    # modifier, buff template
    parts.append(probe('modifier', [DogmaModifier(**{f: mk() for f in MOD_FIELDS})], leaves_flat(MOD_FIELDS),
                       priv('modifier_compress'), priv('modifier_decompress'), ('Modifier', lean_mod)))
    parts.append(probe('buff', [WarfareBuffTemplate(**{f: mk() for f in BUFF_FIELDS})], leaves_flat(BUFF_FIELDS),
                       priv('buff_template_compress'), priv('buff_template_decompress'), ('Buff', lean_buff)))
    # attribute: bool leaves located by negated twins
    a = dict(attr_id=mk(), max_attr_id=mk(), default_value=mk(), high_is_good=True, stackable=False)
    parts.append(probe('attr', [Attribute(**a), Attribute(**dict(a, high_is_good=False)), Attribute(**dict(a, stackable=True))],
                       leaves_flat(ATTR_FIELDS), priv('attr_compress'), priv('attr_decompress'), ('Attr', lean_attr)))
    # effect
    e = dict(effect_id=mk(), category_id=mk(), is_offensive=True, is_assistance=False, duration_attr_id=mk(),
             discharge_attr_id=mk(), range_attr_id=mk(), falloff_attr_id=mk(), tracking_speed_attr_id=mk(),
             fitting_usage_chance_attr_id=mk(), resist_attr_id=mk(), build_status=mk(),
             modifiers=tuple(DogmaModifier(**{f: mk() for f in MOD_FIELDS}) for _ in range(2)))
    parts.append(probe('effect', [Effect(**e), Effect(**dict(e, is_offensive=False)), Effect(**dict(e, is_assistance=True)),
                                  Effect(**dict(e, modifiers=()))],
                       leaves_effect, priv('effect_compress'), priv('effect_decompress'), ('Effect', lean_effect)))
    # type: effects resolved through the handler's effect storage
    effs = [Effect(effect_id=mk()) for _ in range(3)]
    t = dict(type_id=mk(), group_id=mk(), category_id=mk(), attrs={mk(): mk(), mk(): mk()}, effects=tuple(effs[:2]),
             default_effect=effs[2], abilities_data={mk(): AbilityData(mk(), mk()), mk(): AbilityData(mk(), mk())},
             required_skills={mk(): mk(), mk(): mk()})
    store_txt = []

    def storage(din):
        st.clear()
        for eid in list(din[4]) + [din[5]]:
            st[eid] = Effect(effect_id=eid)
        store_txt.append('[%s]' % ', '.join('(%s, %s)' % (pv(k), lean_effect(v)) for k, v in st.items()))
    parts.append(probe('type', [Type(**t), Type(**dict(t, default_effect=None)),
                                Type(type_id=t['type_id'])],
                       leaves_type, priv('type_compress'), priv('type_decompress'), ('EType', lean_type),
                       resolved=('effects', 'default_effect'), storage=storage))
    text = '''import EosModel.Codec
/- GENERATED by tools/gen/codec_layout.py by running the private compress/decompress methods of
   eos/cache_handler/json_cache_handler.py on sentinel objects. Do not edit. -/
namespace EosGen.CodecLayout
open Eos.Codec

%s
/-- Effect storage the type sentinels were decompressed against. -/
def typeStore : Dict Effect :=
  %s

/-- `json.loads (json.dumps x)` per kind of Python value. -/
def jsonNorm : List (String × String) :=
  %s

end EosGen.CodecLayout
''' % ('\n'.join(parts), store_txt[0], json_norm_table())
    return {'EosGen/CodecLayout.lean': text}


if __name__ == '__main__':
    for k, v in generate().items():
        print(v)
