"""Shared machinery of the eos verification framework (see DESIGN.md section 2).

Everything a per-property module (tools/props/cNN.py) needs: paths, the Lean
build/audit/driver plumbing, exact-rational transport, the report object the
correspondence and the impl-level oracle write into, evidence and verdicts.
"""
import collections
import fcntl
import fractions
import hashlib
import json
import logging
import os
import random
import re
import subprocess
import sys
import time
from pathlib import Path

VERIF = Path(__file__).resolve().parents[1]
REPO = Path(os.environ.get('EOS_REPO', '/repo'))
LEAN = VERIF / 'lean'
# runs against a scratch copy of the repository (EOS_REPO, mutation trials) must not overwrite the evidence
EVID = VERIF / ('evidence' if str(REPO) == '/repo' else 'evidence_scratch')
REPLAYS = VERIF / 'replays'
CORPUS = VERIF / 'corpus'
LEAN_BIN = '/opt/veriftools/lean/bin'

STD_AXIOMS = {'propext', 'Classical.choice', 'Quot.sound'}
FORBIDDEN = re.compile(
    r'\bsorry\b|\badmit\b|^\s*axiom\s|\bnative_decide\b|\bbv_decide\b|'
    r'\bimplemented_by\b|\bunsafe\s|maxHeartbeats\s+0\b', re.M)

TRUSTED_BASE = [
    'Lean 4.33.0 kernel (plus leanchecker re-check in the thorough tier)',
    'axioms propext, Classical.choice, Quot.sound only (checked by #print axioms on every listed theorem)',
    'hand-written Lean model = faithful reading of the Python code only as far as the differential correspondence run observed',
    'tools/gen extractors and tools/harness canonicalisation (Python)',
    'CPython float arithmetic, json, bz2, math, random are not modelled; the model computes in exact rationals',
]


class InfraError(Exception):
    """The machinery itself failed (exit 2); never a verdict on the property."""


def env():
    e = dict(os.environ)
    e['PATH'] = LEAN_BIN + ':' + e.get('PATH', '')
    e.pop('EOS_VERIF', None)
    return e


def load_repo():
    """Make /repo importable (current working tree, guard off), silence its logging."""
    p = str(REPO)
    if p not in sys.path:
        sys.path.insert(0, p)
    logging.disable(logging.CRITICAL)


# ---------------------------------------------------------------- rationals
def q(x):
    """Exact rational text of a Python number (float -> exact ratio)."""
    if isinstance(x, bool):
        x = int(x)
    if isinstance(x, int):
        return '%d/1' % x
    if isinstance(x, fractions.Fraction):
        return '%d/%d' % (x.numerator, x.denominator)
    if x != x or x in (float('inf'), float('-inf')):
        raise ValueError('non-finite %r' % (x,))
    n, d = float(x).as_integer_ratio()
    return '%d/%d' % (n, d)


def unq(s):
    n, _, d = s.partition('/')
    return fractions.Fraction(int(n), int(d or 1))


def close(a, b, rel=1e-9, abs_=1e-12):
    """Float comparison used for model(exact) vs impl(float)."""
    a = float(a)
    b = float(b)
    return abs(a - b) <= max(abs_, rel * max(abs(a), abs(b)))


# ---------------------------------------------------------------- lean
def _lock():
    f = open(LEAN / '.build.lock', 'w')
    fcntl.flock(f, fcntl.LOCK_EX)
    return f


def lake_build(targets, timeout=3000):
    """lake build of the given targets under the project lock.

    Returns (ok, output).  ok False = some module failed to elaborate."""
    lk = _lock()
    try:
        p = subprocess.run(['lake', 'build'] + list(targets), cwd=LEAN, env=env(),
                           stdout=subprocess.PIPE, stderr=subprocess.STDOUT,
                           text=True, timeout=timeout)
    except FileNotFoundError as e:
        raise InfraError('lake not found: %s' % e)
    except subprocess.TimeoutExpired:
        raise InfraError('lake build timed out')
    finally:
        lk.close()
    return p.returncode == 0, p.stdout


def failing_modules(out):
    mods = re.findall(r'^✖ \[\d+/\d+\] Building (\S+)', out, re.M)
    mods += re.findall(r'^error: .*?/(Eos\w+/[\w/]+)\.lean', out, re.M)
    return sorted(set(m.replace('/', '.') for m in mods))


def driver_path(exe):
    return LEAN / '.lake' / 'build' / 'bin' / exe


def run_driver(exe, text, timeout=1800):
    """Feed text (str) to the compiled model driver, return output lines."""
    path = driver_path(exe)
    if not path.exists():
        ok, out = lake_build([exe])
        if not ok:
            raise InfraError('driver %s does not build:\n%s' % (exe, out[-3000:]))
    try:
        p = subprocess.run([str(path)], input=text, stdout=subprocess.PIPE,
                           stderr=subprocess.PIPE, text=True, timeout=timeout, env=env())
    except subprocess.TimeoutExpired:
        raise InfraError('driver %s timed out' % exe)
    if p.returncode != 0:
        raise InfraError('driver %s exit %d: %s' % (exe, p.returncode, p.stderr[-2000:]))
    return p.stdout.splitlines()


def strip_comments(src):
    src = re.sub(r'/-.*?-/', '', src, flags=re.S)
    src = re.sub(r'--.*', '', src)
    return src


def grep_forbidden():
    hits = []
    for f in sorted(LEAN.rglob('*.lean')):
        if '.lake' in f.parts:
            continue
        m = FORBIDDEN.search(strip_comments(f.read_text()))
        if m:
            hits.append('%s: %s' % (f.relative_to(LEAN), m.group(0).strip()))
    return hits


def theorems_of(module):
    """Fully qualified names of the theorems stated in a Props module."""
    path = LEAN / (module.replace('.', '/') + '.lean')
    src = strip_comments(path.read_text())
    ns = []
    names = []
    for line in src.splitlines():
        m = re.match(r'\s*namespace\s+(\S+)', line)
        if m:
            ns.append(m.group(1))
            continue
        m = re.match(r'\s*end\s+(\S+)\s*$', line)
        if m and ns and ns[-1].split('.')[-1] == m.group(1).split('.')[-1]:
            ns.pop()
            continue
        m = re.match(r'\s*(?:@\[[^\]]*\]\s*)?(?:private\s+|protected\s+)?theorem\s+([^\s:({\[]+)', line)
        if m:
            nm = m.group(1)
            names.append('.'.join(ns + [nm]) if not nm.startswith('_root_.') else nm[7:])
    return names


def audit_axioms(modules, theorems, tag):
    """#print axioms for every theorem; returns {theorem: [axioms]} or raises InfraError."""
    f = LEAN / ('.audit_%s_%d.lean' % (tag, os.getpid()))
    body = ''.join('import %s\n' % m for m in modules)
    body += ''.join('#print axioms %s\n' % t for t in theorems)
    f.write_text(body)
    try:
        p = subprocess.run(['lake', 'env', 'lean', f.name], cwd=LEAN, env=env(),
                           stdout=subprocess.PIPE, stderr=subprocess.STDOUT, text=True, timeout=1800)
    finally:
        try:
            f.unlink()
        except OSError:
            pass
    res = {}
    out = p.stdout
    for m in re.finditer(r"'([^']+)' depends on axioms: \[([^\]]*)\]", out, re.S):
        res[m.group(1)] = [a.strip() for a in m.group(2).replace('\n', ' ').split(',') if a.strip()]
    for m in re.finditer(r"'([^']+)' does not depend on any axioms", out):
        res[m.group(1)] = []
    missing = [t for t in theorems if t not in res]
    if p.returncode != 0 or missing:
        raise InfraError('axiom audit failed (missing %s):\n%s' % (missing[:5], out[-3000:]))
    return res


def leanchecker(modules, timeout=3000):
    p = subprocess.run(['lake', 'env', 'leanchecker'] + list(modules), cwd=LEAN, env=env(),
                       stdout=subprocess.PIPE, stderr=subprocess.STDOUT, text=True, timeout=timeout)
    return p.returncode == 0, p.stdout[-2000:]


# ---------------------------------------------------------------- reports
class Report:
    """What a correspondence / oracle run covered and found."""

    def __init__(self):
        self.evaluations = 0
        self.nontrivial = set()       # hashable signatures of distinct non-trivial cases
        self.samples = []
        self.dist = collections.Counter()
        self.disagreements = []       # model vs impl: [{'where':..., 'model':..., 'impl':..., 'case':...}]
        self.violations = []          # property fails on impl: [{'what':..., 'case':..., 'class': optional}]
        self.fragile = 0
        self.rules = []
        self.exhaustive = None
        self.notes = []

    def case(self, sig=None, sample=None, kind=None):
        self.evaluations += 1
        if sig is not None:
            self.nontrivial.add(sig if isinstance(sig, (str, int, tuple)) else repr(sig))
        if sample is not None and len(self.samples) < 4:
            self.samples.append(sample)
        if kind is not None:
            self.dist[kind] += 1

    def disagree(self, where, model, impl, case):
        if len(self.disagreements) < 20:
            self.disagreements.append({'where': where, 'model': model, 'impl': impl, 'case': case})
        else:
            self.dist['more_disagreements'] += 1

    def violate(self, what, case, cls=None):
        if cls is not None:
            # members of a (possibly known) class: keep a few per class, never let them crowd out others
            self.dist['class_%s' % cls] += 1
            if self.dist['class_%s' % cls] <= 3:
                self.violations.append({'what': what, 'case': case, 'class': cls})
            return
        if sum(1 for v in self.violations if v['class'] is None) < 50:
            self.violations.append({'what': what, 'case': case, 'class': cls})
        else:
            self.dist['more_violations'] += 1


class Ctx:
    def __init__(self, pid, tier, seed):
        self.pid = pid
        self.tier = tier
        self.seed = seed
        self.rnd = random.Random('%s/%s' % (pid, seed))
        self.t0 = time.time()
        self.report = Report()

    def n(self, quick, thorough):
        return thorough if self.tier == 'thorough' else quick

    def sub_rnd(self, *key):
        return random.Random('%s/%s/%s' % (self.pid, self.seed, '/'.join(map(str, key))))


def jsonable(o):
    if isinstance(o, dict):
        return {str(k): jsonable(v) for k, v in o.items()}
    if isinstance(o, (list, tuple, set, frozenset)):
        seq = list(o)
        if isinstance(o, (set, frozenset)):
            seq = sorted(seq, key=repr)
        return [jsonable(v) for v in seq]
    if isinstance(o, fractions.Fraction):
        return '%d/%d' % (o.numerator, o.denominator)
    if isinstance(o, float):
        if o != o or o in (float('inf'), float('-inf')):
            return repr(o)
        return o
    if isinstance(o, (str, int, bool)) or o is None:
        return o
    return repr(o)


def write_replay(pid, obj):
    REPLAYS.mkdir(exist_ok=True)
    txt = json.dumps(jsonable(obj), indent=1, sort_keys=True)
    h = hashlib.sha1(txt.encode()).hexdigest()[:12]
    p = REPLAYS / ('%s-%s.json' % (pid, h))
    p.write_text(txt)
    return p.relative_to(VERIF)


def known_findings():
    p = VERIF / 'known_findings.json'
    if not p.exists():
        return []
    return json.loads(p.read_text())['findings']


def write_evidence(pid, tier, seed, coverage, assumptions, wall, violations):
    EVID.mkdir(exist_ok=True)
    ev = {
        'property_id': pid, 'tier': tier, 'seed': seed, 'level': 'proof',
        'coverage': jsonable(coverage), 'assumptions': assumptions,
        'wall_s': round(wall, 2), 'violations': violations,
    }
    (EVID / ('%s.json' % pid)).write_text(json.dumps(ev, indent=1, sort_keys=True))
