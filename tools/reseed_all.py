"""Re-run every recorded seeded change against the current checks (refreshes seeded/*/meta.json)."""
import json
import os
import subprocess
import sys

VERIF = os.path.dirname(os.path.dirname(os.path.abspath(__file__)))
only = set(sys.argv[1:])
for sid in sorted(os.listdir(os.path.join(VERIF, 'seeded'))):
    d = os.path.join(VERIF, 'seeded', sid)
    if only and sid not in only and sid.split('-')[0] not in only:
        continue
    meta = json.load(open(os.path.join(d, 'meta.json')))
    checks = list(meta.get('ran', {})) or [meta['property']]
    print('==', sid, checks, flush=True)
    subprocess.run(['/venv/bin/python', os.path.join(VERIF, 'tools', 'seedtool.py'), d, sid, meta['property']] + checks,
                   cwd=VERIF)
