#!/bin/bash
# clean-tree sweep: every check, several seeds; prints one line per run (development aid)
cd "$(dirname "$0")/.." || exit 2
./check --setup > /dev/null 2>&1
for seed in "$@"; do
  for p in C01 C02 C03 C04 C05 C06 C07 C08 C09 C10 C11 C12 C13 C14 C15 C16 C17 C18 C19 C20; do
    out=$(VERIF_SEED=$seed ./check $p 2>&1); rc=$?
    echo "seed=$seed $p exit=$rc $(echo "$out" | grep VIOLATION | head -1)"
  done
done
