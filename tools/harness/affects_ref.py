"""Python re-statement of the specification's selection functions (`Eos.World.affectsLocal`,
`affectsProjected`, `passesFilter`, `resolveDomain`, `others` in lean/EosModel/World.lean) over the snapshot tuples of
tools/gen/affects_table.py.

It is NOT a proof obligation: the obligation is the Lean theorem over the regenerated table
(EosProofs/Lemmas/AffectsTable*.lean).  It exists so that, when that theorem breaks, the check can name the concrete
world / modifier / item on which the real code left the specification (C02's impl-level oracle and failing-input
search), and it is itself compared with the real code on every case of the table on every run.

Tuples:  item = (id, kind, type id, fit, state, parent | None, target | None, level | None)
         fit  = (id, ship | None, character | None, fleet | None)
         type = (id, group | None, category | None, default effect | None, attrs, effects, required skills)
         modifier = (filter, domain, extra | None, target attr, operator, aggregate mode, aggregate key, source attr)"""

SHIP_DOMAIN = (2, 3, 4, 5, 6, 7, 14, 15)     # stance, subsystem, modules, rig, charge, autocharge
CHAR_DOMAIN = (10, 11, 12)                    # skill, implant, booster
OWNER_MODIFIABLE = (8, 9, 14, 15)             # drone, fighter squad, charge, autocharge
SHIP, CHARACTER = 1, 0


def mod_domain(kind):
    return 3 if kind in SHIP_DOMAIN else 2 if kind in CHAR_DOMAIN else None


def group_none_row(m):
    """domain_group modifier without group argument: rejected by the library's validation (`_valid`), outside the
    property's domain; the real code selects the group-less items there when a world is built from scratch."""
    return m[0] == 3 and m[2] is None


def resolve_domain(a, d):
    if d == 1:
        return 3 if a[1] == SHIP else 2 if a[1] == CHARACTER else None
    return d if d in (2, 3) else None


def skill_arg(a, m):
    return None if m[2] is None else (a[2] if m[2] == -1 else m[2])


def passes_filter(a, m, d, x, tx):
    flt = m[0]
    if flt == 2:
        return mod_domain(x[1]) == d
    if flt == 3:
        return mod_domain(x[1]) == d and m[2] is not None and tx[1] == m[2]
    if flt == 4:
        s = skill_arg(a, m)
        return mod_domain(x[1]) == d and s is not None and s in tx[6]
    if flt == 5:
        s = skill_arg(a, m)
        return x[1] in OWNER_MODIFIABLE and s is not None and s in tx[6]
    return False


def _fit(fits, fid):
    for f in fits:
        if f[0] == fid:
            return f
    return None


def affects_local(fits, items, a, m, x, tx):
    flt, dom = m[0], m[1]
    if dom == 4:
        return False
    if flt == 1:
        f = _fit(fits, a[3])
        if dom == 1:
            return x[0] == a[0]
        if dom == 2:
            return x[3] == a[3] and f is not None and f[2] is not None and f[2] == x[0]
        if dom == 3:
            return x[3] == a[3] and f is not None and f[1] is not None and f[1] == x[0]
        if dom == 5:
            return any(y[0] == x[0] for y in items if a[5] == y[0] or y[5] == a[0])
        return False
    d = resolve_domain(a, dom)
    return d is not None and x[3] == a[3] and passes_filter(a, m, d, x, tx)


def affects_projected(fits, a, m, t, x, tx):
    if m[0] == 1:
        return x[0] == t[0]
    f = _fit(fits, t[3])
    return (t[1] == SHIP and f is not None and f[1] == t[0] and x[3] == t[3]
            and passes_filter(a, m, 3, x, tx))


def expected(snap, affector, target, m, x):
    """Specified answer for item tuple `x` of snapshot `snap`."""
    fits, items, types = snap
    by_id = {i[0]: i for i in items}
    ty = {t[0]: t for t in types}
    a = by_id[affector]
    if target is None:
        return affects_local(fits, items, a, m, x, ty[x[2]])
    return affects_projected(fits, a, m, by_id[target], x, ty[x[2]])
