"""Python re-statement of the specification's selection functions (`Eos.World.affectsLocal`,
`affectsProjected`, `passesFilter`, `resolveDomain`, `others` in lean/EosModel/World.lean) over the snapshot tuples of
tools/gen/affects_table.py.

It is NOT a proof obligation: the obligation is the Lean theorem over the regenerated table
(EosProofs/Lemmas/AffectsTable*.lean).  It exists so that, when that theorem breaks, the check can name the concrete
world / modifier / item on which the real code left the specification (C02's impl-level oracle and failing-input
search), and it is itself compared with the real code on every case of the table on every run.

Tuples:  item = (id, kind, type id, fit, state, parent | None, target | None, level | None)
         fit  = (id, ship | None, character | None, fleet | None)
         type = (id, group | None, category | None, default effect | None, attrs, effects, required skills)
         modifier = (filter, domain, extra | None, target attr, operator, aggregate mode, aggregate key, source attr)"""

SHIP_DOMAIN = (2, 3, 4, 5, 6, 7, 14, 15)     # stance, subsystem, modules, rig, charge, autocharge
CHAR_DOMAIN = (10, 11, 12)                    # skill, implant, booster
OWNER_MODIFIABLE = (8, 9, 14, 15)             # drone, fighter squad, charge, autocharge
SHIP, CHARACTER = 1, 0


def mod_domain(kind):
    return 3 if kind in SHIP_DOMAIN else 2 if kind in CHAR_DOMAIN else None


def group_none_row(m):
    """domain_group modifier without group argument: rejected by the library's validation (`_valid`), outside the
    property's domain; the real code selects the group-less items there when a world is built from scratch."""
    return m[0] == 3 and m[2] is None


def resolve_domain(a, d):
    if d == 1:
        return 3 if a[1] == SHIP else 2 if a[1] == CHARACTER else None
    return d if d in (2, 3) else None


def skill_arg(a, m):
    return None if m[2] is None else (a[2] if m[2] == -1 else m[2])


def passes_filter(a, m, d, x, tx):
    flt = m[0]
    if flt == 2:
        return mod_domain(x[1]) == d
    if flt == 3:
        return mod_domain(x[1]) == d and m[2] is not None and tx[1] == m[2]
    if flt == 4:
        s = skill_arg(a, m)
        return mod_domain(x[1]) == d and s is not None and s in tx[6]
    if flt == 5:
        s = skill_arg(a, m)
        return x[1] in OWNER_MODIFIABLE and s is not None and s in tx[6]
    return False


def _fit(fits, fid):
    for f in fits:
        if f[0] == fid:
            return f
    return None


def affects_local(fits, items, a, m, x, tx):
    flt, dom = m[0], m[1]
    if dom == 4:
        return False
    if flt == 1:
        f = _fit(fits, a[3])
        if dom == 1:
            return x[0] == a[0]
        if dom == 2:
            return x[3] == a[3] and f is not None and f[2] is not None and f[2] == x[0]
        if dom == 3:
            return x[3] == a[3] and f is not None and f[1] is not None and f[1] == x[0]
        if dom == 5:
            return any(y[0] == x[0] for y in items if a[5] == y[0] or y[5] == a[0])
        return False
    d = resolve_domain(a, dom)
    return d is not None and x[3] == a[3] and passes_filter(a, m, d, x, tx)


def affects_projected(fits, a, m, t, x, tx):
    if m[0] == 1:
        return x[0] == t[0]
    f = _fit(fits, t[3])
    return (t[1] == SHIP and f is not None and f[1] == t[0] and x[3] == t[3]
            and passes_filter(a, m, 3, x, tx))


def expected(snap, affector, target, m, x):
    """Specified answer for item tuple `x` of snapshot `snap`."""
    fits, items, types = snap
    by_id = {i[0]: i for i in items}
    ty = {t[0]: t for t in types}
    a = by_id[affector]
    if target is None:
        return affects_local(fits, items, a, m, x, ty[x[2]])
    return affects_projected(fits, a, m, by_id[target], x, ty[x[2]])


# ---- resistance (Eos.World.resistOf) and fleet boosts (Eos.World.boostTargets); same caveat as above
def carrier(fits, items, x):
    """`_solsys_carrier` as the specification's `resistOf` has it: item tuple or None."""
    by_id = {i[0]: i for i in items}

    def ship_of(fid):
        f = _fit(fits, fid)
        return None if f is None or f[1] is None else by_id.get(f[1])
    k = x[1]
    if k in (1, 8, 9):
        return x
    if k in (2, 3, 4, 5, 6, 7):
        return ship_of(x[3])
    if k in (14, 15):
        p = by_id.get(x[5]) if x[5] is not None else None
        if p is None:
            return None
        if p[1] in (8, 9):
            return p
        if p[1] in (4, 5, 6):
            return ship_of(p[3])
    return None


def resist_expected(snap, effect, affector, target, m, x):
    """None (not selected) or the resistance factor (Fraction) the specification applies."""
    import fractions
    fits, items, types = snap
    by_id = {i[0]: i for i in items}
    ty = {t[0]: t for t in types}
    if not affects_projected(fits, by_id[affector], m, by_id[target], x, ty[x[2]]):
        return None
    rattr = effect[3]
    if rattr is None or rattr == 0:
        return fractions.Fraction(1)
    c = carrier(fits, items, x)
    if c is None:
        return fractions.Fraction(1)
    for a, v in ty[c[2]][4]:
        if a == rattr:
            return fractions.Fraction(v)
    return fractions.Fraction(1)


def boost_targets(fits, items, fid):
    by_id = {i[0]: i for i in items}
    f = _fit(fits, fid)
    fl = None if f is None else f[3]
    out = []
    for g in fits:
        if g[0] == fid or (fl is not None and g[3] == fl):
            if g[1] is not None and g[1] in by_id:
                out.append(by_id[g[1]])
    return out


def boost_expected(snap, affector, m, x):
    fits, items, types = snap
    by_id = {i[0]: i for i in items}
    ty = {t[0]: t for t in types}
    a = by_id[affector]
    return any(affects_projected(fits, a, m, tg, x, ty[x[2]]) for tg in boost_targets(fits, items, a[3]))
