"""Impl-side world shared by C06 (raising calls leave the world unchanged) and C07 (container invariants).

A `World` holds real `Fit`s (optionally in solar systems backed by a `MemCache` source so the load/unload
paths run), a fleet, a pool of real eos items with harness ids, and `ItemDict`s carried by holder modules.
Operations are tuples `(name, *args)` whose text form is the line protocol of `lean/Driver/Containers.lean`;
`World.dump()` is character for character the dump the model driver prints.
"""
import common as C
from harness import mem

from eos import (Booster, Character, Charge, Drone, EffectBeacon, FighterSquad, Fit, Fleet, Implant, ModuleHigh,  # noqa: E402
                 ModuleLow, ModuleMid, Rig, Ship, Skill, SolarSystem, Stance, State, Subsystem)
from eos.const.eos import ModAffecteeFilter, ModAggregateMode, ModDomain, ModOperator  # noqa: E402
from eos.const.eve import AttrId, EffectCategoryId, EffectId  # noqa: E402
from eos.eve_obj.modifier import DogmaModifier  # noqa: E402
from eos.item import Autocharge  # noqa: E402
from eos.item_container import ItemDict, SlotTakenError  # noqa: E402
from eos.restriction import ValidationError  # noqa: E402
from eos.stats_container import DmgProfile  # noqa: E402

RACKS = ('high', 'mid', 'low')
SETS = ('subsystems', 'rigs', 'drones', 'fighters', 'implants', 'boosters')
SLOTS = ('character', 'ship', 'stance', 'effect_beacon')
CLASSES = {'ModuleHigh': ModuleHigh, 'ModuleMid': ModuleMid, 'ModuleLow': ModuleLow, 'Subsystem': Subsystem,
           'Rig': Rig, 'Drone': Drone, 'FighterSquad': FighterSquad, 'Implant': Implant, 'Booster': Booster,
           'Skill': Skill, 'Character': Character, 'Ship': Ship, 'Stance': Stance, 'EffectBeacon': EffectBeacon,
           'Charge': Charge, 'Autocharge': Autocharge}
RACK_CLS = ('ModuleHigh', 'ModuleMid', 'ModuleLow')
SET_CLS = ('Subsystem', 'Rig', 'Drone', 'FighterSquad', 'Implant', 'Booster')
SLOT_CLS = ('Character', 'Ship', 'Stance', 'EffectBeacon')
ERRORS = (TypeError, ValueError, KeyError, IndexError)


class Other:
    """An object that is no eos item (wrong class for every container)."""


def _universe():
    """Small live universe: cpu use/output, slot counts, hp, a ship-boosting passive effect, a charge effect
    that modifies its module, and a turret effect that spawns an autocharge."""
    ch = mem.MemCache()
    for a in (AttrId.cpu, AttrId.cpu_output, AttrId.hi_slots, AttrId.med_slots, AttrId.low_slots, AttrId.rig_slots,
              AttrId.hp, AttrId.armor_hp, AttrId.shield_capacity, AttrId.ammo_loaded):
        ch.mkattr(attr_id=a)
    boost = ch.mkattr(stackable=True).id
    online = ch.mkeffect(effect_id=EffectId.online, category_id=EffectCategoryId.online)
    turret = ch.mkeffect(effect_id=EffectId.target_attack, category_id=EffectCategoryId.target)

    def mod(domain, attr, op):
        return DogmaModifier(affectee_filter=ModAffecteeFilter.item, affectee_domain=domain, affectee_attr_id=attr,
                             operator=op, aggregate_mode=ModAggregateMode.stack, affector_attr_id=boost)
    ship_boost = ch.mkeffect(category_id=EffectCategoryId.passive,
                             modifiers=[mod(ModDomain.ship, AttrId.cpu_output, ModOperator.post_percent)])
    charge_fx = ch.mkeffect(category_id=EffectCategoryId.passive,
                            modifiers=[mod(ModDomain.other, AttrId.cpu, ModOperator.post_percent)])
    ammo = ch.mktype(attrs={boost: 1}).id
    t = {}
    for n, cls in enumerate(RACK_CLS):
        t[cls] = [ch.mktype(attrs={AttrId.cpu: 10 + n, AttrId.ammo_loaded: ammo}, effects=[online, turret],
                            default_effect=turret).id,
                  ch.mktype(attrs={AttrId.cpu: 20.5 + n}, effects=[online]).id]
    for n, cls in enumerate(SET_CLS + ('Skill', 'Stance', 'EffectBeacon', 'Character')):
        t[cls] = [ch.mktype(attrs={boost: 5 + n}, effects=[ship_boost]).id,
                  ch.mktype(attrs={boost: 11 + 2 * n}, effects=[ship_boost]).id, 900000 + n]   # last one: not in source
    t['Skill'].append(ch.mktype(attrs={boost: 3}, effects=[ship_boost]).id)
    t['Ship'] = [ch.mktype(attrs={AttrId.cpu_output: 100, AttrId.hi_slots: 3, AttrId.med_slots: 2, AttrId.low_slots: 2,
                                  AttrId.rig_slots: 1, AttrId.hp: 500, AttrId.armor_hp: 300,
                                  AttrId.shield_capacity: 200}).id,
                 ch.mktype(attrs={AttrId.cpu_output: 55.5, AttrId.hi_slots: 1, AttrId.hp: 40}).id]
    t['Charge'] = [ch.mktype(attrs={boost: 50}, effects=[charge_fx]).id, ch.mktype(attrs={boost: -20}, effects=[charge_fx]).id]
    t['Autocharge'] = [ammo]
    return ch, t


_UNIVERSE = None


def universe():
    global _UNIVERSE
    if _UNIVERSE is None:
        _UNIVERSE = _universe()
    return _UNIVERSE


# pool description: list of (class name, index into the class's type list); ids are positions in the list
FULL_POOL = ([('ModuleHigh', 0), ('ModuleHigh', 1), ('ModuleHigh', 0), ('ModuleHigh', 1), ('ModuleMid', 0), ('ModuleMid', 1),
              ('ModuleLow', 0), ('ModuleLow', 1), ('Rig', 0), ('Rig', 1), ('Rig', 2), ('Drone', 0), ('Drone', 1),
              ('FighterSquad', 0), ('Implant', 0), ('Implant', 1), ('Booster', 0), ('Subsystem', 0), ('Subsystem', 1),
              ('Skill', 0), ('Skill', 0), ('Skill', 1), ('Skill', 3), ('Skill', 2), ('Character', 0), ('Character', 1),
              ('Ship', 0), ('Ship', 1), ('Ship', 0), ('Stance', 0), ('Stance', 1), ('EffectBeacon', 0),
              ('Charge', 0), ('Charge', 1), ('Charge', 0), ('Autocharge', 0), ('Autocharge', 0), ('Autocharge', 0),
              ('Other', 0)])


class World:
    def __init__(self, pool=FULL_POOL, nfits=2, nss=2, nfl=2, nholders=2, loaded=True):
        self.ch, self.types = universe()
        self.decl = []                      # (id, class name, type id)
        self.obj = {}
        for i, (cls, k) in enumerate(pool):
            if cls == 'Other':
                self.decl.append((i, cls, 0))
                self.obj[i] = Other()
                continue
            tid = self.types[cls][k]
            self.decl.append((i, cls, tid))
            if cls in RACK_CLS:
                self.obj[i] = CLASSES[cls](tid, state=State.online)
            elif cls == 'Skill':
                self.obj[i] = Skill(tid, level=3)
            else:
                self.obj[i] = CLASSES[cls](tid)
        self.ids = [d[0] for d in self.decl]
        self.cls = {d[0]: d[1] for d in self.decl}
        self.tid = {d[0]: d[2] for d in self.decl}
        self.skill_tids = list(dict.fromkeys(d[2] for d in self.decl if d[1] == 'Skill'))
        self.modules = [d[0] for d in self.decl if d[1] in RACK_CLS]
        src = mem.source(self.ch) if loaded else None
        self.ss = [SolarSystem(source=src) for _ in range(nss)]
        self.fl = [Fleet() for _ in range(nfl)]
        self.profiles = [DmgProfile(25, 25, 25, 25), DmgProfile(1, 0, 0, 0), DmgProfile(10, 20, 30, 40)]
        self.fits = []
        for _ in range(nfits):
            fit = Fit(solar_system=None)
            fit.character = None            # the model starts from the empty world
            fit.default_incoming_dmg = self.profiles[0]
            self.fits.append(fit)
        # ItemDicts live on holder modules that never enter a fit (ids after the pool)
        self.holders = list(range(len(pool), len(pool) + nholders))
        self.dicts = {}
        for m in self.holders:
            self.obj[m] = ModuleHigh(self.types['ModuleHigh'][1])
            self.dicts[m] = ItemDict(self.obj[m], Autocharge, container_override=self.obj[m])
        self.name = {}
        for f, fit in enumerate(self.fits):
            self.name[id(fit)] = 'F%d' % f
            for r, n in enumerate(RACKS):
                self.name[id(getattr(fit.modules, n))] = 'R%d.%d' % (f, r)
            for k, n in enumerate(SETS):
                self.name[id(getattr(fit, n))] = 'S%d.%d' % (f, k)
            self.name[id(fit.skills)] = 'K%d' % f
        for i, o in self.obj.items():
            self.name[id(o)] = 'I%d' % i
        self.oid = {id(o): i for i, o in self.obj.items()}
        self.fit_idx = {id(fit): f for f, fit in enumerate(self.fits)}

    # ------------------------------------------------------------ protocol
    def setup_lines(self):
        out = ['reset %d %d %d' % (len(self.fits), len(self.ss), len(self.fl))]
        out += ['item %d %s %d' % d for d in self.decl]
        out += ['holder %d' % m for m in self.holders]
        return out

    @staticmethod
    def line(op):
        return ' '.join('N' if a is None else str(a) for a in op)

    def val(self, v):
        return None if v is None else self.obj[v]

    def rack(self, f, r):
        return getattr(self.fits[f].modules, RACKS[r])

    def set_(self, f, k):
        return getattr(self.fits[f], SETS[k])

    def _dmg(self, a):
        return None if a == 'N' else Other() if a == 'J' else self.profiles[int(a[1:])]

    def _do(self, k, a):
        if k == 'insert':
            self.rack(a[0], a[1]).insert(a[2], self.val(a[3]))
        elif k in ('append', 'equip'):
            getattr(self.rack(a[0], a[1]), k)(self.val(a[2]))
        elif k == 'place':
            self.rack(a[0], a[1]).place(a[2], self.val(a[3]))
        elif k in ('removeIdx', 'freeIdx'):
            getattr(self.rack(a[0], a[1]), k[:-3])(a[2])
        elif k in ('removeVal', 'freeVal'):
            getattr(self.rack(a[0], a[1]), k[:-3])(self.val(a[2]))
        elif k == 'clear':
            self.rack(a[0], a[1]).clear()
        elif k == 'setAdd':
            self.set_(a[0], a[1]).add(self.val(a[2]))
        elif k == 'setRemove':
            self.set_(a[0], a[1]).remove(self.val(a[2]))
        elif k == 'setClear':
            self.set_(a[0], a[1]).clear()
        elif k == 'tuAdd':
            self.fits[a[0]].skills.add(self.val(a[1]))
        elif k == 'tuRemove':
            self.fits[a[0]].skills.remove(self.val(a[1]))
        elif k == 'tuDel':
            del self.fits[a[0]].skills[a[1]]
        elif k == 'tuClear':
            self.fits[a[0]].skills.clear()
        elif k == 'dictSet':
            self.dicts[a[0]][a[1]] = self.val(a[2])
        elif k == 'dictDel':
            del self.dicts[a[0]][a[1]]
        elif k == 'dictClear':
            self.dicts[a[0]].clear()
        elif k == 'assignFit':
            setattr(self.fits[a[0]], SLOTS[a[1]], self.val(a[2]))
        elif k == 'assignCharge':
            self.obj[a[0]].charge = self.val(a[1])
        elif k in ('ssAdd', 'ssRemove'):
            getattr(self.ss[a[0]].fits, k[2:].lower())(self.fits[a[1]])
        elif k == 'ssClear':
            self.ss[a[0]].fits.clear()
        elif k in ('flAdd', 'flRemove'):
            getattr(self.fl[a[0]].fits, k[2:].lower())(self.fits[a[1]])
        elif k == 'flClear':
            self.fl[a[0]].fits.clear()
        elif k == 'setDmg':
            self.fits[a[0]].default_incoming_dmg = self._dmg(a[1])
        elif k == 'setRah':
            self.fits[a[0]].rah_incoming_dmg = self._dmg(a[1])
        else:
            raise C.InfraError('unknown op %r' % (k,))

    def apply(self, op):
        """Run one operation on the real code; the exception class is part of the observation."""
        try:
            self._do(op[0], op[1:])
        except C.InfraError:
            raise
        except SlotTakenError:
            return 'err SlotTakenError'
        except ERRORS as e:
            return 'err ' + next(c.__name__ for c in ERRORS if isinstance(e, c))
        except Exception as e:          # any other class is an internal error of the impl
            return 'raises:' + type(e).__name__
        return 'ok'

    # ------------------------------------------------------------ observation shared with the model
    def sid(self, x):
        return 'N' if x is None else str(self.oid.get(id(x), '?'))

    def owner(self, i):
        o = self.obj[i]
        c = getattr(o, '_container', None)
        f = getattr(o, '_fit', None)
        return ('-' if c is None else self.name.get(id(c), '?'),
                'N' if f is None else str(self.fit_idx.get(id(f), '?')))

    def dump(self):
        ids = self.ids
        objs = [self.obj[i] for i in ids]
        vals = objs + [None]
        P = []
        bits = lambda it: ''.join('1' if b else '0' for b in it)   # noqa: E731
        srt = lambda xs: '[%s]' % ','.join(str(x) for x in sorted(xs))   # noqa: E731
        kd = lambda d: '[%s]' % ','.join('%d:%s' % (k, self.sid(v)) for k, v in sorted(d.items()))   # noqa: E731
        for f, fit in enumerate(self.fits):
            for r in range(3):
                rack = self.rack(f, r)
                lst = list(rack)
                if lst:
                    view = rack.items()
                    P.append('R%d.%d=[%s]|%d|%d|%s|%s' % (
                        f, r, ','.join(self.sid(x) for x in lst), len(rack), len(view),
                        bits(v in rack for v in vals), bits(v in view for v in vals)))
            for k in range(6):
                st = self.set_(f, k)
                if len(st) or list(st):
                    P.append('S%d.%d=%s|%d|%s' % (f, k, srt(self.oid.get(id(x), -1) for x in st), len(st),
                                                  bits(o in st for o in objs)))
            sk = fit.skills
            tmap = sk._TypeUniqueItemSet__type_id_map
            if len(sk) or list(sk) or tmap:
                gets = []
                for t in self.skill_tids:
                    try:
                        gets.append(self.sid(sk[t]))
                    except KeyError:
                        gets.append('N')
                P.append('K%d=%s|%d|%s|[%s]|%s' % (f, srt(self.oid.get(id(x), -1) for x in sk), len(sk), kd(tmap),
                                                   ','.join(gets), bits(o in sk for o in objs)))
            sl = [getattr(fit, n) for n in SLOTS]
            if any(x is not None for x in sl):
                P.append('D%d=[%s]' % (f, ','.join(self.sid(x) for x in sl)))
            ssx = next((str(k) for k, s in enumerate(self.ss) if fit.solar_system is s), 'N' if fit.solar_system is None else '?')
            flx = next((str(k) for k, s in enumerate(self.fl) if fit.fleet is s), 'N' if fit.fleet is None else '?')
            dm = next((str(k) for k, p in enumerate(self.profiles) if fit.default_incoming_dmg is p), '?')
            rh = next((str(k) for k, p in enumerate(self.profiles) if fit.rah_incoming_dmg is p),
                      'N' if fit.rah_incoming_dmg is None else '?')
            P.append('F%d=%s,%s,%s,%s' % (f, ssx, flx, dm, rh))
        for m in self.modules:
            c = self.obj[m].charge
            if c is not None:
                P.append('C%d=%s' % (m, self.sid(c)))
        for m in self.holders:
            d = self.dicts[m]
            inner = d._ItemDict__item_set
            if len(d) or len(inner):
                P.append('A%d=%s|%d|%s' % (m, srt(self.oid.get(id(x), -1) for x in inner), len(d), kd(dict(d.items()))))
        for i in ids:
            ref, fx = self.owner(i)
            if ref != '-' or fx != 'N':
                P.append('O%d=%s/%s' % (i, ref, fx))
        for k, s in enumerate(self.ss):
            if len(s.fits):
                P.append('SS%d=%s' % (k, srt(self.fit_idx[id(x)] for x in s.fits)))
            # membership (`in`) must agree with iteration
            if sorted(self.fit_idx[id(f)] for f in self.fits if f in s.fits) != sorted(self.fit_idx[id(x)] for x in s.fits):
                P.append('SS%d-contains-differs-from-iteration' % k)
        for k, s in enumerate(self.fl):
            if len(s.fits):
                P.append('FL%d=%s' % (k, srt(self.fit_idx[id(x)] for x in s.fits)))
            if sorted(self.fit_idx[id(f)] for f in self.fits if f in s.fits) != sorted(self.fit_idx[id(x)] for x in s.fits):
                P.append('FL%d-contains-differs-from-iteration' % k)
        return ';'.join(P)

    # ------------------------------------------------------------ structured views for the oracles
    def places(self):
        """{place name: list of harness ids (None for holes)} read through the public iteration protocol."""
        out = {}
        for f, fit in enumerate(self.fits):
            for r in range(3):
                out['R%d.%d' % (f, r)] = [self.oid.get(id(x)) if x is not None else None for x in self.rack(f, r)]
            for k in range(6):
                out['S%d.%d' % (f, k)] = sorted(self.oid.get(id(x), -1) for x in self.set_(f, k))
            out['K%d' % f] = sorted(self.oid.get(id(x), -1) for x in fit.skills)
            for k, n in enumerate(SLOTS):
                x = getattr(fit, n)
                out['D%d.%d' % (f, k)] = [] if x is None else [self.oid.get(id(x), -1)]
        for m in self.modules:
            c = self.obj[m].charge
            out['C%d' % m] = [] if c is None else [self.oid.get(id(c), -1)]
        for m in self.holders:
            out['A%d' % m] = sorted(self.oid.get(id(x), -1) for x in self.dicts[m].values())
        return out

    def full_observation(self):
        """Everything public C06 talks about: containers, owners, attribute values, running effects,
        autocharges, statistics, validation verdicts, solar system / fleet membership, damage profiles."""
        obs = {'dump': self.dump()}

        def guard(fn):
            try:
                return fn()
            except ValidationError as e:
                return ('invalid', sorted((self.oid.get(id(it), repr(type(it).__name__)), sorted(int(r) for r in errs))
                                          for it, errs in e.data.items()))
            except Exception as e:
                return 'raises:' + type(e).__name__
        for i in self.ids:
            o = self.obj[i]
            if self.cls[i] == 'Other':
                continue
            obs['item%d' % i] = guard(lambda: (
                o._is_loaded, getattr(o, 'state', None), sorted(o._running_effect_ids),
                sorted((k, v) for k, v in o.attrs.items()),
                sorted((k, a._type_id, a._is_loaded) for k, a in o.autocharges.items()),
                getattr(o, 'level', None)))
        for f, fit in enumerate(self.fits):
            st = fit.stats
            obs['stats%d' % f] = guard(lambda: (
                st.cpu.used, st.cpu.output, tuple(st.high_slots), tuple(st.mid_slots), tuple(st.low_slots),
                tuple(st.rig_slots), tuple(st.subsystem_slots), tuple(st.hp), st.launched_drones.used))
            obs['validate%d' % f] = guard(lambda: fit.validate())
        return obs


def describe(world, ops):
    """Replayable description of a case."""
    return {'pool': [(c, t) for _, c, t in world.decl], 'ops': [World.line(o) for o in ops]}


# ---------------------------------------------------------------- generation
class Gen:
    """Mostly-valid operations chosen from the current impl state, plus a malformed stream.

    Malformed categories: wrong class, None where not allowed, non-item object, foreign item (held elsewhere),
    own item (already in this container), occupied slot, bad index, absent item/key, duplicate type id / key,
    fit already in a solar system / fleet, non-profile damage profile."""

    def __init__(self, world, rnd, malformed, fit_ops=True):
        self.w = world
        self.rnd = rnd
        self.malformed = malformed
        self.fit_ops = fit_ops          # also generate solar-system / fleet / damage-profile calls

    def _items(self, cls, pred):
        w = self.w
        return [i for i in w.ids if (cls is None or w.cls[i] == cls) and pred(w.obj[i])]

    def pick(self, cls, here, bad):
        """An item argument.  `here`: container object (or parent for slots) the call goes to."""
        rnd, w = self.rnd, self.w
        free = self._items(cls, lambda o: getattr(o, '_container', None) is None)
        if not bad and free:
            return 'free', rnd.choice(free)
        kind = rnd.choice(['wrong', 'wrong', 'none', 'other', 'foreign', 'foreign', 'own', 'own'])
        if kind == 'wrong':
            return kind, rnd.choice([i for i in w.ids if w.cls[i] not in (cls, 'Other')])
        if kind == 'none':
            return kind, None
        if kind == 'other':
            return kind, rnd.choice([i for i in w.ids if w.cls[i] == 'Other'])
        own = self._items(cls, lambda o: getattr(o, '_container', None) is here)
        foreign = self._items(cls, lambda o: getattr(o, '_container', None) not in (None, here))
        cand = own if kind == 'own' else foreign
        if cand:
            return kind, rnd.choice(cand)
        return ('free', rnd.choice(free)) if free else ('wrong', rnd.choice([i for i in w.ids if w.cls[i] != cls]))

    def index(self, n, bad):
        rnd = self.rnd
        if bad:
            return rnd.choice([n, n + 1, n + 3, -n - 1, -n - 2, -n - 4])
        return rnd.randrange(-n, n) if n else 0

    def op(self):
        """Returns (op tuple, tag) where tag names the generator branch (goes into the evidence)."""
        rnd, w = self.rnd, self.w
        bad = rnd.random() < self.malformed
        x = rnd.random() * (1.0 if self.fit_ops else 0.94)
        f = rnd.randrange(len(w.fits))
        if x < 0.42:
            r = rnd.randrange(3)
            rack = w.rack(f, r)
            lst = list(rack)
            n = len(lst)
            held = [w.oid[id(o)] for o in lst if o is not None]
            m = rnd.choice(['insert', 'append', 'place', 'equip', 'removeIdx', 'removeVal', 'freeIdx', 'freeVal',
                            'place', 'equip', 'insert', 'clear'])
            if m == 'clear':
                if rnd.random() < 0.8:
                    m = 'equip'
                else:
                    return ('clear', f, r), 'rack.clear'
            if m in ('removeVal', 'freeVal'):
                if bad or not held:
                    kind, v = self.pick(RACK_CLS[r], None, True)
                    if rnd.random() < 0.3:
                        kind, v = 'none', None
                    return (m, f, r, v), 'rack.%s.bad-%s' % (m, kind)
                return (m, f, r, rnd.choice(held)), 'rack.' + m
            if m in ('removeIdx', 'freeIdx'):
                return (m, f, r, self.index(n, bad or n == 0)), 'rack.%s%s' % (m, '.bad-index' if bad or n == 0 else '')
            kind, v = self.pick(RACK_CLS[r], rack, bad and rnd.random() < 0.7)
            if m == 'insert':
                if rnd.random() < 0.15:
                    kind, v = 'hole', None
                idx = rnd.choice([self.index(n, False), self.index(n, True), n, 0, -1, n + 2])
                return (m, f, r, idx, v), 'rack.insert.' + kind
            if m == 'place':
                holes = [k for k, o in enumerate(lst) if o is None]
                if bad and held and rnd.random() < 0.5:
                    k = rnd.choice([k for k, o in enumerate(lst) if o is not None])
                    return (m, f, r, rnd.choice([k, k - n]), v), 'rack.place.occupied.' + kind
                if bad and rnd.random() < 0.3:
                    return (m, f, r, rnd.choice([-n - 1, -n - 3]), v), 'rack.place.bad-index.' + kind
                k = rnd.choice(holes + [n, n, n + 1, n + 3])
                return (m, f, r, k - n if k < n and rnd.random() < 0.4 else k, v), 'rack.place.' + kind
            return (m, f, r, v), 'rack.%s.%s' % (m, kind)
        if x < 0.57:
            k = rnd.randrange(6)
            st = w.set_(f, k)
            held = [w.oid[id(o)] for o in st]
            m = rnd.choice(['setAdd', 'setAdd', 'setRemove', 'setClear'])
            if m == 'setClear' and rnd.random() < 0.7:
                m = 'setAdd'
            if m == 'setClear':
                return (m, f, k), 'set.clear'
            if m == 'setRemove':
                if bad or not held:
                    kind, v = self.pick(SET_CLS[k], None, True)
                    return (m, f, k, v), 'set.remove.bad-' + kind
                return (m, f, k, rnd.choice(held)), 'set.remove'
            kind, v = self.pick(SET_CLS[k], st, bad)
            return (m, f, k, v), 'set.add.' + kind
        if x < 0.69:
            sk = w.fits[f].skills
            held = [w.oid[id(o)] for o in sk]
            m = rnd.choice(['tuAdd', 'tuAdd', 'tuAdd', 'tuRemove', 'tuDel', 'tuClear'])
            if m == 'tuClear' and rnd.random() < 0.7:
                m = 'tuAdd'
            if m == 'tuClear':
                return (m, f), 'skills.clear'
            if m == 'tuDel':
                t = w.tid[rnd.choice(held)] if held and not bad else rnd.choice(w.skill_tids + [7])
                return (m, f, t), 'skills.del' + ('.bad' if bad else '')
            if m == 'tuRemove':
                if bad or not held:
                    kind, v = self.pick('Skill', None, True)
                    return (m, f, v), 'skills.remove.bad-' + kind
                return (m, f, rnd.choice(held)), 'skills.remove'
            if bad and held and rnd.random() < 0.4:
                dup = [i for i in w.ids if w.cls[i] == 'Skill' and w.tid[i] in {w.tid[h] for h in held}
                       and getattr(w.obj[i], '_container', None) is None]
                if dup:
                    return (m, f, rnd.choice(dup)), 'skills.add.dup-type'
            kind, v = self.pick('Skill', sk, bad)
            return (m, f, v), 'skills.add.' + kind
        if x < 0.80:
            k = rnd.randrange(4)
            if rnd.random() < 0.15:
                return ('assignFit', f, k, None), 'slot.unset'
            kind, v = self.pick(SLOT_CLS[k], w.fits[f], bad)
            return ('assignFit', f, k, v), 'slot.set.' + kind
        if x < 0.88:
            m = rnd.choice(w.modules)
            if rnd.random() < 0.15:
                return ('assignCharge', m, None), 'charge.unset'
            kind, v = self.pick('Charge', w.obj[m], bad)
            return ('assignCharge', m, v), 'charge.set.' + kind
        if x < 0.94 and w.holders:
            h = rnd.choice(w.holders)
            d = w.dicts[h]
            keys = list(d.keys())
            m = rnd.choice(['dictSet', 'dictSet', 'dictSet', 'dictDel', 'dictClear'])
            if m == 'dictClear' and rnd.random() < 0.6:
                m = 'dictSet'
            if m == 'dictClear':
                return (m, h), 'dict.clear'
            if m == 'dictDel':
                key = rnd.choice(keys) if keys and not bad else rnd.randrange(4)
                return (m, h, key), 'dict.del' + ('.bad' if bad else '')
            if bad and keys and rnd.random() < 0.4:
                kind, v = self.pick('Autocharge', w.obj[h], False)
                return (m, h, rnd.choice(keys), v), 'dict.set.dup-key'
            kind, v = self.pick('Autocharge', w.obj[h], bad)
            fresh = [k for k in range(4) if k not in keys]
            return (m, h, rnd.choice(fresh or [0]), v), 'dict.set.' + kind
        if x < 0.98:
            which = rnd.choice(['ss', 'ss', 'fl'])
            group = w.ss if which == 'ss' else w.fl
            g = rnd.randrange(len(group))
            fit = w.fits[f]
            cur = fit.solar_system if which == 'ss' else fit.fleet
            m = rnd.choice(['Add', 'Add', 'Remove', 'Clear'])
            if m == 'Clear' and rnd.random() < 0.7:
                m = 'Add'
            if m == 'Clear':
                return (which + m, g), which + '.clear'
            if not bad:     # steer towards calls that succeed
                if m == 'Add' and cur is not None:
                    m = 'Remove'
                if m == 'Remove' and cur is None:
                    m = 'Add'
                if m == 'Remove':
                    g = group.index(cur)
            return (which + m, g, f), '%s.%s' % (which, m.lower())
        a = rnd.choice(['J', 'N'] if bad else ['p0', 'p1', 'p2', 'p1', 'N'])
        m = rnd.choice(['setDmg', 'setRah'])
        return (m, f, a), 'dmg.%s.%s' % (m, a[0])


def compare_with_model(rep, world_lines, impl_out, where, case_of):
    """Feed the collected lines to the model driver and compare op answers with the impl's.

    `impl_out[k]` is None for set-up lines, else the impl's `<outcome> <dump>` for line k."""
    outs = C.run_driver('drv_containers', '\n'.join(world_lines) + '\n')
    if len(outs) != len(world_lines):
        raise C.InfraError('driver returned %d lines for %d' % (len(outs), len(world_lines)))
    bad = 0
    for k, (m, i) in enumerate(zip(outs, impl_out)):
        if m == 'bad-op':
            raise C.InfraError('driver rejected line %r' % world_lines[k])
        if i is None or m == i:
            continue
        bad += 1
        if bad <= 3:
            rep.disagree(where, m, i, case_of(k))
    if bad > 3:
        rep.dist['more_disagreements'] += bad - 3
    return bad


# ---------------------------------------------------------------- exhaustive rack exploration
EX_POOL = [('ModuleHigh', 0), ('ModuleHigh', 1), ('ModuleHigh', 0), ('ModuleHigh', 1), ('ModuleMid', 0)]
EX_INDICES = list(range(-3, 6))


def rack_ops(f=0, r=0):
    """Every call of every ItemList method over 3 free items, a foreign item (held by the other fit), a
    wrong-class item and None, with every index in [-3, 5]."""
    vals = [None, 0, 1, 2, 3, 4]
    ops = [('clear', f, r)]
    for v in vals:
        ops += [('append', f, r, v), ('equip', f, r, v), ('removeVal', f, r, v), ('freeVal', f, r, v)]
        ops += [(m, f, r, i, v) for m in ('insert', 'place') for i in EX_INDICES]
    ops += [(m, f, r, i) for m in ('removeIdx', 'freeIdx') for i in EX_INDICES]
    return ops


def exhaustive_rack(rep, depth, where, on_step=None):
    """All operation sequences up to `depth` over the pool above, pruned by state: from every distinct
    reachable state (breadth first, canonical shortest path) every operation is applied once on impl and on
    the model and the complete dumps are compared.  `on_step(world, before, op, out, ops)` (called before
    the call with out=None and after it with its own earlier answer) lets a property add an impl-level check.  Returns (#states expanded, #steps)."""
    setup = [('append', 1, 0, 3)]
    ops = rack_ops()

    def build(path):
        w = World(pool=EX_POOL, nfits=2, nss=1, nfl=0, nholders=0)
        for op in [('ssAdd', 0, 0), ('ssAdd', 0, 1)] + setup + list(path):
            w.apply(op)
        return w
    w0 = build(())
    seen = {w0.dump(): ()}
    frontier = [()]
    steps = states = 0
    for d in range(depth):
        lines, impl, meta = [], [], []
        nxt = []
        for path in frontier:
            w = build(path)
            states += 1
            pre = w.setup_lines() + [World.line(o) for o in [('ssAdd', 0, 0), ('ssAdd', 0, 1)] + setup + list(path)] + ['save 0']
            lines += pre
            impl += [None] * len(pre)
            meta += [None] * len(pre)
            base = w.dump()
            for op in ops:
                before = on_step and on_step(w, None, op, None, None)
                out = w.apply(op)
                dmp = w.dump()
                if on_step:
                    on_step(w, before, op, out, list(path) + [op])
                steps += 1
                lines += ['load 0', World.line(op)]
                impl += [None, out + ' ' + dmp]
                meta += [None, (path, op)]
                rep.dist['exh.' + op[0] + '.' + out.replace('err ', '')] += 1
                if dmp != base:
                    if dmp not in seen:
                        seen[dmp] = path + (op,)
                        nxt.append(path + (op,))
                    w = build(path)
        compare_with_model(rep, lines, impl, where,
                           lambda k: {'pool': EX_POOL, 'path': [World.line(o) for o in meta[k][0]],
                                      'op': World.line(meta[k][1])} if meta[k] else {'line': lines[k]})
        frontier = nxt
    return states, steps, len(seen)


def random_histories(rep, rnd, n, length, malformed, where, on_step=None, tag='', fit_ops=True):
    """`n` histories of `length` generated operations over the full pool, each step compared with the model.
    With `fit_ops` off the fits sit in the solar systems from the start and stay there."""
    lines, impl, meta = [], [], []
    for h in range(n):
        w = World()
        g = Gen(w, rnd, malformed, fit_ops)
        pre = w.setup_lines()
        if not fit_ops:
            for f in range(len(w.fits)):
                w.apply(('ssAdd', f % len(w.ss), f))
                pre.append(World.line(('ssAdd', f % len(w.ss), f)))
        lines += pre
        impl += [None] * len(pre)
        meta += [None] * len(pre)
        ops = []
        for _ in range(length):
            op, gtag = g.op()
            before = on_step and on_step(w, None, op, None, ops)
            out = w.apply(op)
            ops.append(op)
            if on_step:
                on_step(w, before, op, out, ops)
            lines.append(World.line(op))
            impl.append(out + ' ' + w.dump())
            meta.append((h, len(ops)))
            rep.dist[tag + gtag] += 1
            rep.dist[tag + 'outcome.' + out.replace('err ', '')] += 1
            rep.case(sig=(tuple(ops[-3:]), out) if out != 'ok' or len(ops) > 1 else None,
                     sample={'history': [World.line(o) for o in ops[-4:]], 'outcome': out} if h < 4 and len(ops) == 8 else None)
        meta[-1] = (h, len(ops), [World.line(o) for o in ops])
    hist = {m[0]: m[2] for m in meta if m and len(m) == 3}

    def case_of(k):
        m = meta[k]
        return {'pool': 'FULL_POOL', 'history': hist[m[0]][:m[1]]} if m else {'line': lines[k]}
    return compare_with_model(rep, lines, impl, where, case_of)


def parse_line(line):
    return tuple(None if t == 'N' else int(t) if t.lstrip('-').isdigit() else t for t in line.split())


def shrink(ops, fails, budget=400):
    """Greedy delete-one-op-to-fixpoint; `fails(ops)` re-executes a history on a fresh world."""
    ops = list(ops)
    changed = True
    while changed and budget > 0:
        changed = False
        for k in range(len(ops) - 1, -1, -1):
            cand = ops[:k] + ops[k + 1:]
            budget -= 1
            if budget <= 0:
                break
            if fails(cand):
                ops = cand
                changed = True
    return ops
