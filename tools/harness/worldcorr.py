"""Differential correspondence of the world model: impl history vs Lean spec, at two depths.

L1: public reads (attribute values, running effects) at observation points.
L2: every entry of every item's private modified-attribute cache, peeked without reading,
    must equal the spec value of the current configuration (cache coherence), at every step.
"""
import random

import common as C
from harness import world as W


def make_world(seed, p):
    rnd = random.Random('world/%s' % seed)
    unis = [W.Universe(rnd, p, i) for i in range(p.get('nuni', 2))]
    w = W.World(unis, 0)
    return rnd, w


def run_history(seed, p, ops=None, observe_prob=0.3):
    """Run a generated (ops None) or given history on impl.

    Returns dict(ops, steps=[{op, outcome, lines, cache, obs}], crash=None|{...})."""
    rnd, w = make_world(seed, p)
    gen = W.OpGen(rnd, p)
    orng = random.Random('obs/%s' % seed)
    steps = []
    done = []
    crash = None
    queue = list(ops) if ops is not None else None
    nsteps = p.get('nsteps', 30)
    cur_src = 0
    while True:
        if queue is not None:
            if not queue:
                break
            batch = [queue.pop(0)]
        else:
            if len(done) >= nsteps:
                break
            batch = gen.next(w)
        for op in batch:
            try:
                outcome = w.apply(op)
            except Exception as e:  # undocumented exception class: C10 material
                crash = {'op': op, 'exc': type(e).__name__, 'msg': str(e)[:200], 'step': len(done)}
                done.append(op)
                return {'ops': done, 'steps': steps, 'crash': crash, 'world': w}
            done.append(op)
            rec = {'op': op, 'outcome': outcome, 'uni': None}
            if w.src != cur_src or not steps:
                rec['uni'] = w.src
                cur_src = w.src
            try:
                rec['lines'] = w.snapshot_lines()
                rec['cache'] = w.peek_cache()
                last = queue is not None and not queue
                if orng.random() < observe_prob or op[0] == 'read_all' or last or \
                        (queue is None and len(done) >= nsteps):
                    rec['obs'] = w.observe()
                    rec['cache_after'] = w.peek_cache()
            except Exception as e:
                crash = {'op': op, 'exc': type(e).__name__, 'msg': str(e)[:200], 'step': len(done), 'phase': 'observe'}
                return {'ops': done, 'steps': steps, 'crash': crash, 'world': w}
            steps.append(rec)
    return {'ops': done, 'steps': steps, 'crash': None, 'world': w}


def model_lines(h):
    w = h['world']
    out = []
    for rec in h['steps']:
        if rec['uni'] is not None or rec is h['steps'][0]:
            src = rec['uni'] if rec['uni'] is not None else w.src
            out += (w.unis[src].lines() if src is not None else ['U'])
        out += rec['lines'] + ['Q']
    return out


def split_answers(lines):
    ans, cur = [], []
    for ln in lines:
        if ln == '.':
            ans.append(cur)
            cur = []
        else:
            cur.append(ln)
    return ans


def compare(h, answers):
    """Yield disagreement dicts {'where', 'step', 'op', 'key', 'model', 'impl'}."""
    for i, (rec, ans) in enumerate(zip(h['steps'], answers)):
        mv, mr = W.parse_model(ans)
        # float-fragile step: some limited-precision attribute sits (within 1e-7) on a rounding tie in exact
        # arithmetic; impl's float may round the other way and everything depending on it follows.  Value
        # mismatches of such a step are not judged (counted in `fragile`).
        ties = [k for k, v in mv.items() if k[0] == 'unrounded'
                and abs(abs(float(v) * 100 - round(float(v) * 100)) - 0.5) < 1e-7]
        if ties:
            h.setdefault('fragile_steps', []).append(i)
        for key, val in rec['cache'].items():
            m = mv.get(key)
            if m is None:
                # a cached entry for an item that is no longer part of the configuration cannot happen:
                # peek only walks items on fits; an attr outside the queried set is ignored
                continue
            if not ties and not W.same_value(m, val):
                yield {'where': 'L2:cache-coherence', 'step': i, 'op': rec['op'], 'key': key, 'model': m, 'impl': val}
        if 'obs' in rec:
            iv, ir = rec['obs']
            for key, val in iv.items():
                m = mv.get(key, 'missing')
                if not ties and not W.same_value(m, val):
                    yield {'where': 'L1:value', 'step': i, 'op': rec['op'], 'key': key, 'model': m, 'impl': val}
            for vid, r in ir.items():
                if mr.get(vid) != r:
                    yield {'where': 'L1:running', 'step': i, 'op': rec['op'], 'key': vid, 'model': mr.get(vid), 'impl': r}


def check_history(seed, p, ops=None):
    h = run_history(seed, p, ops)
    if not h['steps']:
        return h, []
    out = C.run_driver('drv_world', '\n'.join(model_lines(h)) + '\n')
    answers = split_answers(out)
    if len(answers) != len(h['steps']):
        raise C.InfraError('world driver answered %d of %d queries: %s' % (len(answers), len(h['steps']), out[:5]))
    return h, list(compare(h, answers))


def shrink(seed, p, ops, still_fails):
    """Delete-one-op to a fixpoint."""
    ops = list(ops)
    changed = True
    while changed:
        changed = False
        i = len(ops) - 1
        while i >= 0:
            cand = ops[:i] + ops[i + 1:]
            try:
                if still_fails(cand):
                    ops = cand
                    changed = True
            except Exception:
                pass
            i -= 1
    return ops
