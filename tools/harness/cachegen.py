"""Shared helpers of C15/C16/C17: value transport to the cache model, generators of eve-object sets,
observation of a real JsonCacheHandler, damaged-file grammar, a call-counting data handler.

Canonical form of a Python value ("canon"): leaves are protocol tokens (`N T F i5 e5 r1/2 I M s<hex>`),
lists stay lists, tuples stay tuples, dicts (str keys) stay dicts.  `enc` turns it into the driver's
token line, `dec` parses the driver's answer back, so both sides are compared structurally and exactly
(floats as exact ratios, IntEnum members distinguished from ints)."""
import bz2
import enum
import json
import math
import shutil
import tempfile
from collections import namedtuple

import common as C

C.load_repo()

from eos.cache_handler.json_cache_handler import JsonCacheHandler  # noqa: E402
from eos.const.eos import EffectBuildStatus, ModAffecteeFilter, ModAggregateMode, ModDomain, ModOperator  # noqa: E402
from eos.const.eve import AttrId, EffectCategoryId, TypeGroupId  # noqa: E402
from eos.eve_obj.attribute import Attribute  # noqa: E402
from eos.eve_obj.buff_template import WarfareBuffTemplate  # noqa: E402
from eos.eve_obj.effect import Effect, EffectFactory  # noqa: E402
from eos.eve_obj.modifier import DogmaModifier  # noqa: E402
from eos.eve_obj.type import AbilityData, Type, TypeFactory  # noqa: E402

P = '_JsonCacheHandler__'
MOD_FIELDS = ['affectee_filter', 'affectee_domain', 'affectee_filter_extra_arg', 'affectee_attr_id', 'operator',
              'aggregate_mode', 'aggregate_key', 'affector_attr_id']
BUFF_FIELDS = ['buff_id', 'affectee_filter', 'affectee_filter_extra_arg', 'affectee_attr_id', 'operator',
               'aggregate_mode']
ATTR_FIELDS = ['id', 'max_attr_id', 'default_value', 'high_is_good', 'stackable']
EFFECT_FIELDS = ['id', 'category_id', 'is_offensive', 'is_assistance', 'duration_attr_id', 'discharge_attr_id',
                 'range_attr_id', 'falloff_attr_id', 'tracking_speed_attr_id', 'fitting_usage_chance_attr_id',
                 'resist_attr_id', 'build_status']


class XId(enum.IntEnum):
    """Harness-owned IntEnum so that ids, too, come as enum members (none of them is customised by eos)."""
    a = 2011
    b = 2012
    c = 100011
    d = 100012
    e = 31
    f = 32


# ---------------------------------------------------------------- canonical values and transport
def canon(v):
    if v is None:
        return 'N'
    if v is True:
        return 'T'
    if v is False:
        return 'F'
    if isinstance(v, enum.Enum):
        return 'e%d' % int(v)
    if isinstance(v, int):
        return 'i%d' % v
    if isinstance(v, float):
        if v == math.inf:
            return 'I'
        if v == -math.inf:
            return 'M'
        if v != v:
            raise ValueError('NaN is outside the model')
        return 'r%d/%d' % v.as_integer_ratio()
    if isinstance(v, str):
        return 's' + v.encode('utf-8').hex()
    if isinstance(v, tuple):
        return tuple(canon(x) for x in v)
    if isinstance(v, list):
        return [canon(x) for x in v]
    if isinstance(v, dict):
        return {str(k): canon(x) for k, x in v.items()}
    raise TypeError('no canonical form for %r' % (v,))


def norm(c):
    """json.loads(json.dumps(.)) on canonical values."""
    if isinstance(c, str):
        return 'i' + c[1:] if c[0] == 'e' else c
    if isinstance(c, (list, tuple)):
        return [norm(x) for x in c]
    return {k: norm(x) for k, x in c.items()}


def enc(c):
    if isinstance(c, str):
        return c
    if isinstance(c, list):
        return ' '.join(['['] + [enc(x) for x in c] + [']'])
    if isinstance(c, tuple):
        return ' '.join(['('] + [enc(x) for x in c] + [')'])
    out = ['{']
    for k, x in c.items():
        out += ['s' + k.encode('utf-8').hex(), enc(x)]
    return ' '.join(out + ['}'])


def dec(text):
    toks = text.split(' ')
    pos = [0]

    def one():
        t = toks[pos[0]]
        pos[0] += 1
        if t in '[(':
            out = []
            while toks[pos[0]] not in '])':
                out.append(one())
            pos[0] += 1
            return out if t == '[' else tuple(out)
        if t == '{':
            out = {}
            while toks[pos[0]] != '}':
                k = bytes.fromhex(toks[pos[0]][1:]).decode('utf-8')
                pos[0] += 1
                out[k] = one()
            pos[0] += 1
            return out
        return t
    v = one()
    if pos[0] != len(toks):
        raise C.InfraError('trailing tokens in %r' % text[:200])
    return v


# ---------------------------------------------------------------- eve objects -> canonical dicts
def c_flat(o, fields):
    return {f: canon(getattr(o, f)) for f in fields}


def c_effect(e):
    d = c_flat(e, EFFECT_FIELDS)
    d['modifiers'] = [c_flat(m, MOD_FIELDS) if isinstance(m, DogmaModifier) else {'python_modifier': canon(type(m).__name__)}
                      for m in e.modifiers]
    return d


def c_type(t):
    return {'id': canon(t.id), 'group_id': canon(t.group_id), 'category_id': canon(t.category_id),
            'attrs': [[canon(k), canon(v)] for k, v in t.attrs.items()],
            'effects': [[canon(k), c_effect(e)] for k, e in t.effects.items()],
            'default_effect': 'N' if t.default_effect is None else c_effect(t.default_effect),
            'abilities_data': [[canon(k), [canon(v.cooldown_time), canon(v.charge_quantity)]]
                               for k, v in t.abilities_data.items()],
            'required_skills': [[canon(k), canon(v)] for k, v in t.required_skills.items()]}


def c_objs(objs):
    types, attrs, effects, buffs = objs
    return {'types': [c_type(t) for t in types], 'attrs': [c_flat(a, ATTR_FIELDS) for a in attrs],
            'effects': [c_effect(e) for e in effects], 'buffs': [c_flat(b, BUFF_FIELDS) for b in buffs]}


def mem_of(h):
    """The four private storages and the fingerprint of a real handler, in the shape the driver prints."""
    return {'types': [[canon(k), c_type(t)] for k, t in getattr(h, P + 'type_storage').items()],
            'attrs': [[canon(k), c_flat(a, ATTR_FIELDS)] for k, a in getattr(h, P + 'attr_storage').items()],
            'effects': [[canon(k), c_effect(e)] for k, e in getattr(h, P + 'effect_storage').items()],
            'buffs': [[canon(k), sort_c([c_flat(b, BUFF_FIELDS) for b in s])]
                      for k, s in getattr(h, P + 'buff_template_storage').items()],
            'fingerprint': canon(getattr(h, P + 'fingerprint'))}


def sort_c(l):
    return sorted(l, key=repr)


def sort_buffs(mem):
    mem = dict(mem)
    mem['buffs'] = [[k, sort_c(s)] for k, s in mem['buffs']]
    return mem


def is_empty(mem):
    return not (mem['types'] or mem['attrs'] or mem['effects'] or mem['buffs']) and mem['fingerprint'] == 'N'


def diff(a, b, path=''):
    """First difference between two canonical structures (None if equal)."""
    if type(a) is not type(b):
        return '%s: %r vs %r' % (path, _short(a), _short(b))
    if isinstance(a, dict):
        if list(a) != list(b):
            return '%s: keys %r vs %r' % (path, list(a), list(b))
        for k in a:
            d = diff(a[k], b[k], path + '.' + k)
            if d:
                return d
        return None
    if isinstance(a, (list, tuple)):
        if len(a) != len(b):
            return '%s: length %d vs %d' % (path, len(a), len(b))
        for i, (x, y) in enumerate(zip(a, b)):
            d = diff(x, y, '%s[%d]' % (path, i))
            if d:
                return d
        return None
    return None if a == b else '%s: %r vs %r' % (path, a, b)


def _short(x):
    s = repr(x)
    return s if len(s) < 120 else s[:117] + '...'


# ---------------------------------------------------------------- real handlers on temporary files
class TmpDir:
    def __enter__(self):
        self.path = tempfile.mkdtemp(prefix='eosverif_cache_', dir='/dev/shm')
        return self.path

    def __exit__(self, *a):
        shutil.rmtree(self.path, ignore_errors=True)


def file_tree(path):
    try:
        with bz2.BZ2File(path, 'r') as f:
            return canon(json.loads(f.read().decode('utf-8')))
    except Exception as e:
        return 'unreadable:' + type(e).__name__


def fresh_mem(path):
    """Memory of a new handler constructed on `path` (or the exception class the constructor raised)."""
    try:
        return mem_of(JsonCacheHandler(path))
    except Exception as e:
        return 'constructor-raises:' + type(e).__name__


def unexpected(e):
    """Short description of an exception the real code was not supposed to raise."""
    import traceback
    tb = traceback.extract_tb(e.__traceback__)
    return '%s: %s (%s)' % (type(e).__name__, str(e)[:120], ' <- '.join('%s:%d' % (f.name, f.lineno) for f in tb[-3:]))


def write_payload(path, tree):
    with bz2.BZ2File(path, 'w') as f:
        f.write(json.dumps(tree).encode('utf-8'))


def customised_effect_ids():
    return set(EffectFactory._class_id_map) | set(EffectFactory._instance_id_map)


# ---------------------------------------------------------------- generators of object sets
ATTR_POOL = [2001, 2002, 2003, 2004, 2005, XId.a, XId.b]
EFFECT_POOL = [100001, 100002, 100003, 100004, XId.c, XId.d]
TYPE_POOL = list(range(1, 9)) + [XId.e, XId.f]
GROUP_POOL = [None, 25, 26, 27, 540]          # never TypeGroupId.character (the type factory would add an effect)
VALUES = [0, 1, -1, 5, 0.0, 0.5, -2.25, 0.1, 1e9, 123456.789, 1e-7, 3]
CATEGORIES = [None] + [int(c) for c in (EffectCategoryId.passive, EffectCategoryId.active, EffectCategoryId.target,
                                        EffectCategoryId.online, EffectCategoryId.overload, EffectCategoryId.system)]


def _opt(rnd, full, fn):
    """full: True = populate, False = leave unpopulated, None = random."""
    if full is False or (full is None and rnd.random() < 0.35):
        return None
    return fn()


def _as(rnd, member):
    """An IntEnum member either as itself or as the plain int (both occur in built objects)."""
    return member if rnd.random() < 0.7 else int(member)


def gen_modifier(rnd, full=None):
    mode = rnd.choice(list(ModAggregateMode))
    return DogmaModifier(
        affectee_filter=_opt(rnd, full, lambda: _as(rnd, rnd.choice(list(ModAffecteeFilter)))),
        affectee_domain=_opt(rnd, full, lambda: _as(rnd, rnd.choice(list(ModDomain)))),
        affectee_filter_extra_arg=_opt(rnd, full, lambda: rnd.choice([6, 3300, 55, XId.e])),
        affectee_attr_id=_opt(rnd, full, lambda: rnd.choice(ATTR_POOL)),
        operator=_opt(rnd, full, lambda: _as(rnd, rnd.choice(list(ModOperator)))),
        aggregate_mode=_opt(rnd, full, lambda: _as(rnd, mode)),
        aggregate_key=_opt(rnd, full if mode != ModAggregateMode.stack else None, lambda: rnd.choice([1, 2, 77])),
        affector_attr_id=_opt(rnd, full, lambda: rnd.choice(ATTR_POOL)))


def gen_effect(rnd, eid, full=None):
    n = 2 if full else 0 if full is False else rnd.choice([0, 0, 1, 2, 3])
    return Effect(
        effect_id=eid, category_id=_opt(rnd, full, lambda: rnd.choice(CATEGORIES[1:])),
        is_offensive=rnd.random() < 0.5 if full is None else full,
        is_assistance=rnd.random() < 0.5 if full is None else full,
        duration_attr_id=_opt(rnd, full, lambda: rnd.choice(ATTR_POOL)),
        discharge_attr_id=_opt(rnd, full, lambda: rnd.choice(ATTR_POOL)),
        range_attr_id=_opt(rnd, full, lambda: rnd.choice(ATTR_POOL)),
        falloff_attr_id=_opt(rnd, full, lambda: rnd.choice(ATTR_POOL)),
        tracking_speed_attr_id=_opt(rnd, full, lambda: rnd.choice(ATTR_POOL)),
        fitting_usage_chance_attr_id=_opt(rnd, full, lambda: rnd.choice(ATTR_POOL)),
        resist_attr_id=_opt(rnd, full, lambda: rnd.choice(ATTR_POOL)),
        build_status=_opt(rnd, full, lambda: _as(rnd, rnd.choice(list(EffectBuildStatus)))),
        modifiers=tuple(gen_modifier(rnd, full) for _ in range(n)))


def gen_attr(rnd, aid, full=None):
    return Attribute(attr_id=aid, max_attr_id=_opt(rnd, full, lambda: rnd.choice(ATTR_POOL)),
                     default_value=_opt(rnd, full, lambda: rnd.choice(VALUES)),
                     high_is_good=rnd.choice([True, False, None, 1, 0]) if full is None else full,
                     stackable=rnd.choice([True, False, None, 1, 0]) if full is None else full)


def gen_type(rnd, tid, effects, full=None):
    k = len(effects) if full else 0 if full is False else rnd.randint(0, min(3, len(effects)))
    mine = rnd.sample(effects, k)
    default = _opt(rnd, full, lambda: rnd.choice(mine)) if mine else None
    n = (lambda hi: hi if full else 0 if full is False else rnd.randint(0, hi))
    abil = {}
    for a in rnd.sample([20, 21, 22, 23], n(2)):
        abil[a] = AbilityData(cooldown_time=rnd.choice([0, 5, 12.5]),
                              charge_quantity=math.inf if full or rnd.random() < 0.5 else rnd.choice([0, 1, 3, 20]))
    return Type(type_id=tid, group_id=_opt(rnd, full, lambda: rnd.choice(GROUP_POOL[1:])),
                category_id=_opt(rnd, full, lambda: rnd.choice([6, 7, 8, 16, 18])),
                attrs={a: rnd.choice(VALUES) for a in rnd.sample(ATTR_POOL, n(4))},
                effects=tuple(mine), default_effect=default, abilities_data=abil,
                required_skills={s: rnd.randint(1, 5) for s in rnd.sample([3300, 3301, 3302, XId.e], n(3))})


def gen_buff(rnd, full=None):
    return WarfareBuffTemplate(
        buff_id=rnd.choice([10, 11, 12, XId.f]),
        affectee_filter=_opt(rnd, full, lambda: _as(rnd, rnd.choice(list(ModAffecteeFilter)))),
        affectee_filter_extra_arg=_opt(rnd, full, lambda: rnd.choice([6, 3300])),
        affectee_attr_id=_opt(rnd, full, lambda: rnd.choice(ATTR_POOL)),
        operator=_opt(rnd, full, lambda: _as(rnd, rnd.choice(list(ModOperator)))),
        aggregate_mode=_opt(rnd, full, lambda: _as(rnd, rnd.choice(list(ModAggregateMode)))))


def gen_objs(rnd, full=None, flaw=None):
    """A closed set of plain eve objects as `Converter.run` returns them.

    full: True / False / None = every optional field populated / unpopulated / random.
    flaw: None | 'unclosed' (a type mentions an effect missing from the effect list) |
          'dup' (an id occurs twice in one of the lists; last one wins)."""
    n_e = 3 if full else rnd.randint(0, 4)
    effects = [gen_effect(rnd, eid, full) for eid in rnd.sample(EFFECT_POOL, n_e)]
    attrs = [gen_attr(rnd, aid, full) for aid in rnd.sample(ATTR_POOL, 3 if full else rnd.randint(0, 4))]
    types = [gen_type(rnd, tid, effects, full) for tid in rnd.sample(TYPE_POOL, 2 if full is not None else rnd.randint(0, 4))]
    buffs = [gen_buff(rnd, full) for _ in range(3 if full else rnd.randint(0, 4))]
    if flaw == 'unclosed':
        ghost = gen_effect(rnd, 100099, None)
        types.append(Type(type_id=99, effects=(ghost,), default_effect=rnd.choice([None, ghost])))
        rnd.shuffle(types)
    if flaw == 'dup':
        which = rnd.choice(['attr', 'type', 'effect'])
        if which == 'attr' and attrs:
            attrs.append(gen_attr(rnd, int(rnd.choice(attrs).id), None))
        elif which == 'type' and types:
            types.append(gen_type(rnd, float(int(rnd.choice(types).id)), effects, None))
        elif effects:
            effects.append(gen_effect(rnd, int(rnd.choice(effects).id), None))
            # keep the set closed with respect to the storage (last effect of an id wins)
            last = {int(e.id): e for e in effects}
            types = [Type(type_id=t.id, group_id=t.group_id, category_id=t.category_id, attrs=t.attrs,
                          effects=tuple(last[int(i)] for i in t.effects),
                          default_effect=None if t.default_effect is None else last[int(t.default_effect.id)],
                          abilities_data=t.abilities_data, required_skills=t.required_skills) for t in types]
    return types, attrs, effects, buffs


def features(objs):
    """Feature tags of an object set for the input-distribution counters."""
    types, attrs, effects, buffs = objs
    f = set()
    if any(v.charge_quantity == math.inf for t in types for v in t.abilities_data.values()):
        f.add('inf-charges')
    if any(t.default_effect is not None for t in types):
        f.add('default-effect')
    if any(t.required_skills for t in types):
        f.add('required-skills')
    if any(isinstance(getattr(m, a), enum.Enum) for e in effects for m in e.modifiers for a in MOD_FIELDS):
        f.add('enum-fields')
    if any(isinstance(x.id, enum.Enum) for x in list(types) + list(attrs) + list(effects)):
        f.add('enum-ids')
    if any(e.modifiers for e in effects):
        f.add('modifiers')
    if buffs:
        f.add('buffs')
    if len(set(b.buff_id for b in buffs)) < len(buffs):
        f.add('shared-buff-id')
    if not (types or attrs or effects or buffs):
        f.add('empty-set')
    return f


def assert_uncustomised(objs):
    """The correspondence uses only ids the factories leave alone (the model holds constructor arguments)."""
    types, _, effects, _ = objs
    bad = customised_effect_ids()
    if any(e.id in bad for e in effects) or any(t.group_id == TypeGroupId.character for t in types):
        raise C.InfraError('generator produced an id the eos factories customise')
    if TypeFactory._instance_funcs is None:
        raise C.InfraError('TypeFactory has no customiser registry')


# ---------------------------------------------------------------- a small fit on a handler
FIT_IDS = dict(hp=AttrId.hp, bonus=2050, ship=601, mod=602, eff=100050)


def fit_objs(rnd):
    """Ship + module whose passive effect raises the ship's hp by a percentage; values random."""
    base = rnd.choice([100.0, 2500.0, 37.5])
    pct = rnd.choice([10.0, 25.0, -50.0, 12.5])
    mod = DogmaModifier(affectee_filter=ModAffecteeFilter.item, affectee_domain=ModDomain.ship,
                        affectee_attr_id=FIT_IDS['hp'], operator=ModOperator.post_percent,
                        aggregate_mode=ModAggregateMode.stack, affector_attr_id=FIT_IDS['bonus'])
    eff = Effect(effect_id=FIT_IDS['eff'], category_id=EffectCategoryId.passive,
                 build_status=EffectBuildStatus.success, modifiers=(mod,))
    types = [Type(type_id=FIT_IDS['ship'], group_id=25, category_id=6, attrs={FIT_IDS['hp']: base}),
             Type(type_id=FIT_IDS['mod'], group_id=60, category_id=7, attrs={FIT_IDS['bonus']: pct},
                  effects=(eff,), default_effect=None)]
    attrs = [Attribute(attr_id=FIT_IDS['hp'], default_value=0.0, high_is_good=True, stackable=True),
             Attribute(attr_id=FIT_IDS['bonus'], high_is_good=True, stackable=False)]
    return (types, attrs, [eff], []), base * (1 + pct / 100)


def fit_hp(handler):
    from eos import Fit, ModuleLow, Ship, SolarSystem, State
    from eos.source import Source
    fit = Fit(solar_system=SolarSystem(source=Source('verif', handler)))
    fit.ship = Ship(FIT_IDS['ship'])
    fit.modules.low.append(ModuleLow(FIT_IDS['mod'], state=State.online))
    return fit.ship.attrs[FIT_IDS['hp']]


# ---------------------------------------------------------------- well-formed-but-wrong payloads
def payload_of(objs, fp, tmp):
    """The JSON tree the real handler writes for this object set."""
    path = tmp + '/payload_src.json.bz2'
    JsonCacheHandler(path).update_cache(objs, fp)
    with bz2.BZ2File(path, 'r') as f:
        return json.loads(f.read().decode('utf-8'))


JUNK = [None, 5, 'x', 'ab', {}, {'k': 1}, [], [1], True, 2.5]
KEYS = ['types', 'attrs', 'effects', 'buff_templates', 'fingerprint']


def mutate_payload(rnd, tree):
    """One structural fault in a copy of `tree`; returns (label, new tree).  Numeric strings are never
    put where an effect id is read (`int('12')` succeeds in Python; the model treats every string as an error)."""
    t = json.loads(json.dumps(tree))
    lists = [k for k in KEYS[:4] if t[k]]
    kind = rnd.choice(['drop-key', 'top-value', 'top-level', 'short', 'entity-junk', 'type-effect', 'pairs', 'ability',
                       'unhashable-id', 'modifiers', 'benign', 'effect-ref-coerced', 'extra'])
    if kind == 'drop-key':
        del t[rnd.choice(KEYS)]
    elif kind == 'top-value':
        t[rnd.choice(KEYS)] = rnd.choice(JUNK)
    elif kind == 'top-level':
        t = rnd.choice([[], None, 5, 'str', [t], {}])
    elif not lists:
        kind = 'drop-key'
        del t[rnd.choice(KEYS)]
    elif kind == 'short':
        k = rnd.choice(lists)
        i = rnd.randrange(len(t[k]))
        t[k][i] = t[k][i][:rnd.randrange(len(t[k][i]))]
    elif kind == 'entity-junk':
        k = rnd.choice(lists)
        t[k][rnd.randrange(len(t[k]))] = rnd.choice(JUNK)
    elif kind == 'extra':
        k = rnd.choice(lists)
        i = rnd.randrange(len(t[k]))
        t[k][i] = t[k][i] + [rnd.choice(JUNK)]
    elif kind == 'benign':
        # a scalar of the wrong type where the handler does not look: accepted, and then it must be complete
        k = rnd.choice(lists)
        i = rnd.randrange(len(t[k]))
        pos = {'types': [1, 2], 'attrs': [1, 2, 3, 4], 'effects': [1, 2, 3, 4, 11], 'buff_templates': [1, 2, 3, 4, 5]}[k]
        t[k][i][rnd.choice(pos)] = rnd.choice(['x', [1, 2], 2.5, None, {'a': 1}])
    elif kind == 'unhashable-id':
        k = rnd.choice(lists)
        t[k][rnd.randrange(len(t[k]))][0] = rnd.choice([[1], {}, [], 'strid', None, 7.5, True])
    elif kind == 'modifiers' and t['effects']:
        e = rnd.choice(t['effects'])
        e[12] = rnd.choice([None, 5, [None], [[1, 2]], 'x', {}]) if not e[12] or rnd.random() < 0.5 else \
            [m[:rnd.randrange(8)] for m in e[12]]
    elif t['types']:
        ty = rnd.choice(t['types'])
        if kind == 'type-effect':
            which = rnd.choice(['unknown', 'unknown-default', 'none-in-list', 'list-junk', 'default-junk'])
            if which == 'unknown':
                ty[4] = ty[4] + [424242]
            elif which == 'unknown-default':
                ty[5] = 424242
            elif which == 'none-in-list':
                ty[4] = ty[4] + [None]
            elif which == 'list-junk':
                ty[4] = rnd.choice([None, 5, 'x', {}, [[1]]])
            else:
                ty[5] = rnd.choice(['x', [], {}, 2.5e300 * 1e10])
            kind += ':' + which
        elif kind == 'effect-ref-coerced' and ty[4]:
            ty[4] = [float(ty[4][0]) + rnd.choice([0.0, 0.4])] + ty[4][1:]
        elif kind == 'pairs':
            f = rnd.choice([3, 7])
            ty[f] = rnd.choice([None, 5, [5], [[1]], [[1, 2, 3]], ['ab'], [[[1], 2]], [[1, 2], [1.0, 3]], [[True, 1], [1, 2]],
                                'x', {'ab': 1}, {}])
        elif kind == 'ability':
            ty[6] = rnd.choice([[[1, None]], [[1, [2]]], [[1, [2, 3, 4]]], [[1, 'ab']], [[1, {'a': 1, 'b': 2}]], None, [[1]]])
        else:
            kind = 'drop-key'
            del t[rnd.choice(KEYS)]
    else:
        kind = 'drop-key'
        del t[rnd.choice(KEYS)]
    return kind, t


# ---------------------------------------------------------------- a call-counting data handler
class DataHandler:
    """Minimal valid data set; `salt` varies the numbers so that served objects tell which data they come from."""

    def __init__(self, version, salt=0):
        self.version = version
        self.salt = salt
        self.calls = 0
        self.version_calls = 0
        s = float(salt)
        k = int(salt)
        # the data sets of different salts differ in numbers *and* in structure: a type only this data set has, and
        # buff 20 with other modifiers (a rebuild must drop what only the old data had)
        buff_mods = [{'dogmaAttributeID': 100}, {'dogmaAttributeID': 101}][:1 + k % 2]
        self.t = dict(
            # type 2 carries a built-in column the normalizer turns into a type attribute (mass -> attribute 4)
            evetypes=[{'typeID': 1, 'groupID': 5}, {'typeID': 2, 'groupID': 6, 'mass': 1000.0 + s},
                      {'typeID': 10 + k, 'groupID': 5}],
            evegroups=[{'groupID': 5, 'categoryID': 6}, {'groupID': 6, 'categoryID': 7}],
            dgmattribs=[{'attributeID': int(AttrId.mass), 'stackable': True},
                        {'attributeID': 100, 'defaultValue': 0.0, 'highIsGood': True, 'stackable': True},
                        {'attributeID': 101, 'stackable': False},
                        {'attributeID': int(AttrId.warfare_buff_1_id), 'stackable': True}],
            dgmtypeattribs=[{'typeID': 1, 'attributeID': 100, 'value': 50.0 + s},
                            {'typeID': 2, 'attributeID': 101, 'value': 20.0 + s},
                            {'typeID': 2, 'attributeID': int(AttrId.warfare_buff_1_id), 'value': 20.0},
                            {'typeID': 10 + k, 'attributeID': 100, 'value': 1.0}],
            dgmeffects=[{'effectID': 7, 'effectCategory': 0, 'modifierInfo': [
                {'domain': 'shipID', 'func': 'ItemModifier', 'modifiedAttributeID': 100, 'modifyingAttributeID': 101,
                 'operation': 6}]}],
            dgmtypeeffects=[{'typeID': 2, 'effectID': 7, 'isDefault': True}],
            skillreqs=[{'typeID': 2, 'skillTypeID': 1, 'level': 3}], typefighterabils=[],
            dbuffcollections=[{'buffID': 20, 'aggregateMode': 'Maximum', 'operationName': 'PostPercent',
                               ['itemModifiers', 'locationModifiers'][k % 2]: buff_mods}])

    def __getattr__(self, n):
        if n.startswith('get_') and n[4:] in self.t:
            def getter():
                self.calls += 1
                return [dict(r) for r in self.t[n[4:]]]
            return getter
        raise AttributeError(n)

    def get_version(self):
        self.version_calls += 1
        return self.version


def served(handler):
    """What a source backed by this handler serves (semantic fields through the public getters, over every id any
    `DataHandler` data set uses)."""
    out = {}
    for tid in [1, 2] + list(range(10, 18)):
        try:
            out['type%d' % tid] = norm(c_type(handler.get_type(tid)))
        except Exception as e:
            out['type%d' % tid] = type(e).__name__
    for aid in (100, 101, int(AttrId.warfare_buff_1_id), int(AttrId.mass)):
        try:
            out['attr%d' % aid] = norm(c_flat(handler.get_attr(aid), ATTR_FIELDS))
        except Exception as e:
            out['attr%d' % aid] = type(e).__name__
    try:
        out['effect7'] = norm(c_effect(handler.get_effect(7)))
    except Exception as e:
        out['effect7'] = type(e).__name__
    dangling = []
    for tid in [1, 2] + list(range(10, 18)):
        try:
            t = handler.get_type(tid)
        except Exception:
            continue
        for aid in t.attrs:
            try:
                handler.get_attr(aid)
            except Exception:
                dangling.append((tid, int(aid)))
    out['type-attributes-without-definition'] = sorted(dangling)
    for bid in (20, 21):
        try:
            out['buff%d' % bid] = norm(sort_c([c_flat(b, BUFF_FIELDS) for b in handler.get_buff_templates(bid)]))
        except Exception as e:
            out['buff%d' % bid] = type(e).__name__
    return out


Case = namedtuple('Case', 'label data')
