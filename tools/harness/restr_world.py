"""Real-Fit worlds for the validation property (C03).

* `Universe`: two sources over the same type ids (different data, some types missing in the second)
  carrying every restriction-relevant attribute / effect with boundary values.
* `World`: one real `Fit`, operations as replayable data, a message spy on the six loaded-item
  messages, the snapshot through the public API (as model lines and as a dict for the Python
  evaluator), `ValidationError.data` canonicalised, the private restriction registers canonicalised.
"""
import fractions
import random

import common as C
from harness import mem

C.load_repo()

from eos import Fit, SolarSystem  # noqa: E402
from eos import (Booster, Character, Charge, Drone, EffectBeacon, FighterSquad, Implant, ModuleHigh, ModuleLow,  # noqa: E402
                 ModuleMid, Rig, Ship, Skill, Stance, Subsystem)
from eos.const.eos import EffectMode, ModAffecteeFilter, ModAggregateMode, ModDomain, ModOperator, Restriction, State  # noqa: E402
from eos.const.eve import AttrId, EffectCategoryId, EffectId, TypeCategoryId, TypeGroupId, TypeId  # noqa: E402
from eos.eve_obj.modifier import DogmaModifier  # noqa: E402
from eos.item_container.exception import SlotTakenError  # noqa: E402
from eos.pubsub.message import (EffectsStarted, EffectsStopped, ItemLoaded, ItemUnloaded, StatesActivatedLoaded,  # noqa: E402
                                StatesDeactivatedLoaded)
from eos.restriction import ValidationError  # noqa: E402

A = AttrId
SHIP_TYPE_ATTRS = [getattr(A, 'can_fit_ship_type_%d' % i) for i in range(1, 11)] + [A.fits_to_shiptype]
SHIP_GROUP_ATTRS = [getattr(A, 'can_fit_ship_group_%d' % i) for i in range(1, 21)]
CHARGE_GROUP_ATTRS = [A.charge_group_1, A.charge_group_2, A.charge_group_3, A.charge_group_4, A.charge_group_5]
DRONE_GROUP_ATTRS = [A.allowed_drone_group_1, A.allowed_drone_group_2]
SHIP_OUT = [A.cpu_output, A.power_output, A.upgrade_capacity, A.drone_capacity, A.drone_bandwidth, A.hi_slots,
            A.med_slots, A.low_slots, A.rig_slots, A.max_subsystems, A.fighter_tubes, A.turret_slots_left,
            A.launcher_slots_left, A.fighter_support_slots, A.fighter_light_slots, A.fighter_heavy_slots]
ITEM_USE = [A.cpu, A.power, A.upgrade_cost, A.volume, A.drone_bandwidth_used, A.max_group_fitted, A.max_group_online,
            A.max_group_active]
X_SHIPMUL, X_SELFADD = 9001, 9002
E_ACTIVE, E_OVERLOAD, E_SHIPMOD, E_SELFMOD = 9101, 9102, 9103, 9104
REL_ATTRS = sorted(set(int(a) for a in (
    SHIP_TYPE_ATTRS + SHIP_GROUP_ATTRS + CHARGE_GROUP_ATTRS + DRONE_GROUP_ATTRS + SHIP_OUT + ITEM_USE + [
        A.capacity, A.max_active_drones, A.fighter_squadron_is_support, A.fighter_squadron_is_light,
        A.fighter_squadron_is_heavy, A.subsystem_slot, A.implantness, A.boosterness, A.rig_size, A.is_capital_size,
        A.charge_size, X_SHIPMUL, X_SELFADD])))
MATTRS = sorted(int(a) for a in SHIP_OUT + ITEM_USE + [A.max_active_drones])
CLASSES = {c.__name__: c for c in (Booster, Character, Charge, Drone, EffectBeacon, FighterSquad, Implant, ModuleHigh,
                                   ModuleMid, ModuleLow, Rig, Ship, Skill, Stance, Subsystem)}
RACKS = {'high': 'ModuleHigh', 'mid': 'ModuleMid', 'low': 'ModuleLow'}
SETS = {'implants': 'Implant', 'boosters': 'Booster', 'subsystems': 'Subsystem', 'rigs': 'Rig', 'drones': 'Drone',
        'fighters': 'FighterSquad', 'skills': 'Skill'}
SINGLES = {'ship': 'Ship', 'stance': 'Stance', 'effect_beacon': 'EffectBeacon'}
STATEFUL = (Restriction.capital_item, Restriction.charge_group, Restriction.charge_size, Restriction.charge_volume,
            Restriction.drone_group, Restriction.max_group_fitted, Restriction.max_group_online,
            Restriction.max_group_active, Restriction.rig_size, Restriction.ship_type_group,
            Restriction.skill_requirement, Restriction.subsystem_index, Restriction.implant_index,
            Restriction.booster_index, Restriction.state)
EXPECTED_OP_ERRORS = (ValueError, TypeError, KeyError, IndexError, SlotTakenError)


# ---------------------------------------------------------------- universe
class Universe:
    POOLS = ('ship', 'high', 'mid', 'low', 'rig', 'drone', 'charge', 'skill', 'implant', 'booster', 'subsystem',
             'fighter', 'stance', 'beacon')

    def __init__(self, seed):
        self.seed = seed
        rnd = random.Random('restr-universe/%s' % seed)
        self.ids = {'ship': list(range(100, 106)), 'high': list(range(200, 208)), 'mid': list(range(210, 216)),
                    'low': list(range(220, 226)), 'rig': list(range(300, 305)), 'drone': list(range(400, 406)),
                    'charge': list(range(500, 506)), 'skill': list(range(600, 604)), 'implant': list(range(700, 704)),
                    'booster': list(range(710, 714)), 'subsystem': list(range(800, 804)),
                    'fighter': list(range(900, 906)), 'stance': [950], 'beacon': [960]}
        self.caches = {'A': self._cache(rnd, 0.0), 'B': self._cache(rnd, 0.2)}
        self.sources = {k: mem.source(v, alias='restr-%s' % k) for k, v in self.caches.items()}

    def _cache(self, rnd, p_missing):
        ch = mem.MemCache()
        for a in REL_ATTRS:
            dflt = 0 if a in (int(A.hi_slots), int(A.turret_slots_left), int(A.max_group_active)) else None
            ch.mkattr(attr_id=a, default_value=dflt)
        P, ON, ACT, OVR = (EffectCategoryId.passive, EffectCategoryId.online, EffectCategoryId.active,
                           EffectCategoryId.overload)
        ef = {}
        for eid, cat in ((EffectId.online, ON), (EffectId.hi_power, P), (EffectId.med_power, P), (EffectId.lo_power, P),
                         (EffectId.rig_slot, P), (EffectId.subsystem, P), (EffectId.turret_fitted, P),
                         (EffectId.launcher_fitted, P), (E_ACTIVE, ACT), (E_OVERLOAD, OVR)):
            ef[int(eid)] = ch.mkeffect(effect_id=int(eid), category_id=cat)

        def mod(flt, dom, tgt, op, src):
            return DogmaModifier(affectee_filter=flt, affectee_domain=dom, affectee_attr_id=tgt, operator=op,
                                 aggregate_mode=ModAggregateMode.stack, affector_attr_id=src)
        ef[E_SHIPMOD] = ch.mkeffect(effect_id=E_SHIPMOD, category_id=P, modifiers=tuple(
            mod(ModAffecteeFilter.domain, ModDomain.ship, a, ModOperator.post_mul, X_SHIPMUL) for a in (A.cpu, A.power)))
        ef[E_SELFMOD] = ch.mkeffect(effect_id=E_SELFMOD, category_id=P, modifiers=tuple(
            mod(ModAffecteeFilter.item, ModDomain.self, a, ModOperator.mod_add, X_SELFADD)
            for a in (A.max_group_fitted, A.max_group_online, A.max_group_active)))

        def pick(attrs, a, vals, p=0.7):
            if rnd.random() < p:
                attrs[int(a)] = rnd.choice(vals)

        def rq():
            if rnd.random() < 0.45:
                return {t: rnd.randint(1, 5) for t in rnd.sample(self.ids['skill'] + [699], rnd.choice((1, 1, 2)))}
            return {}

        def mk(tid, **kw):
            if rnd.random() >= p_missing:
                ch.mktype(type_id=tid, **kw)

        for tid in self.ids['ship']:
            at = {}
            for a, vals in ((A.cpu_output, (0, 25, 37.5, 50)), (A.power_output, (0, 25, 37.5, 50)),
                            (A.upgrade_capacity, (0, 100, 150)), (A.drone_capacity, (0, 10, 25)),
                            (A.drone_bandwidth, (0, 10, 25)), (A.hi_slots, (0, 1, 2, 3, 2.9)), (A.med_slots, (0, 1, 2)),
                            (A.low_slots, (0, 1, 2, 1.5)), (A.rig_slots, (0, 1, 2)), (A.max_subsystems, (0, 1, 2)),
                            (A.fighter_tubes, (0, 1, 2)), (A.turret_slots_left, (0, 1, 2)),
                            (A.launcher_slots_left, (0, 1, 2)), (A.fighter_support_slots, (0, 1)),
                            (A.fighter_light_slots, (0, 1)), (A.fighter_heavy_slots, (0, 1)), (A.rig_size, (1, 2)),
                            (X_SHIPMUL, (1, 0.5, 2))):
                pick(at, a, vals, 0.8)
            pick(at, A.is_capital_size, (0, 1, 1), 0.4)
            for a in DRONE_GROUP_ATTRS:
                pick(at, a, (60, 61), 0.4)
            mk(tid, group_id=rnd.choice((25, 26, 27, None)), category_id=TypeCategoryId.ship, attrs=at,
               effects=[ef[E_SHIPMOD]] if rnd.random() < 0.7 else [], required_skills=rq())
        for pool, slot_eff in (('high', EffectId.hi_power), ('mid', EffectId.med_power), ('low', EffectId.lo_power)):
            for tid in self.ids[pool]:
                at = {}
                pick(at, A.cpu, (0, 10, 12.5, 25, 0.125, -5))
                pick(at, A.power, (0, 10, 12.5, 25, 0.125, -5))
                pick(at, A.volume, (100, 3500, 3500.5, 4000), 0.8)
                pick(at, A.capacity, (0, 1, 2.5))
                pick(at, A.charge_size, (1, 2), 0.5)
                for a in CHARGE_GROUP_ATTRS:
                    pick(at, a, (70, 71), 0.15)
                for a in SHIP_TYPE_ATTRS:
                    pick(at, a, self.ids['ship'], 0.04)
                for a in SHIP_GROUP_ATTRS:
                    pick(at, a, (25, 26, 27), 0.02)
                for a in (A.max_group_fitted, A.max_group_online, A.max_group_active):
                    pick(at, a, (0, 1, 2, 3), 0.5)
                pick(at, X_SELFADD, (0, 1, -1), 0.5)
                effs = [ef[int(slot_eff)]] if rnd.random() < 0.92 else []
                effs += [ef[int(e)] for e, p in ((EffectId.online, 0.85), (EffectId.turret_fitted, 0.4),
                                                 (EffectId.launcher_fitted, 0.3), (E_ACTIVE, 0.5), (E_OVERLOAD, 0.2),
                                                 (E_SELFMOD, 0.5)) if rnd.random() < p]
                dflt = ef[E_ACTIVE] if ef[E_ACTIVE] in effs and rnd.random() < 0.8 else None
                mk(tid, group_id=rnd.choice((50, 51, 51, None)), effects=effs, default_effect=dflt, attrs=at,
                   category_id=TypeCategoryId.module if rnd.random() < 0.92 else TypeCategoryId.drone,
                   required_skills=rq())
        for tid in self.ids['rig']:
            at = {}
            pick(at, A.upgrade_cost, (0, 50, 100, -10), 0.85)
            pick(at, A.rig_size, (1, 2), 0.75)
            mk(tid, group_id=55, category_id=TypeCategoryId.module, attrs=at, required_skills=rq(),
               effects=[ef[int(EffectId.rig_slot)]] if rnd.random() < 0.9 else [])
        for tid in self.ids['drone']:
            at = {}
            pick(at, A.volume, (0, 5, 10, 12.5), 0.85)
            pick(at, A.drone_bandwidth_used, (5, 10, 12.5, 0), 0.8)
            mk(tid, group_id=rnd.choice((60, 61, 62, None)), category_id=TypeCategoryId.drone, attrs=at,
               effects=[ef[E_ACTIVE]] if rnd.random() < 0.7 else [], required_skills=rq())
        for tid in self.ids['charge']:
            at = {}
            pick(at, A.volume, (0.5, 1, 2.5, 3), 0.85)
            pick(at, A.charge_size, (1, 2), 0.7)
            mk(tid, group_id=rnd.choice((70, 71, 72, None)), category_id=TypeCategoryId.charge, attrs=at,
               required_skills=rq())
        for tid in self.ids['skill']:
            mk(tid, group_id=80, category_id=TypeCategoryId.skill, required_skills=rq() if rnd.random() < 0.3 else {})
        for pool, attr in (('implant', A.implantness), ('booster', A.boosterness)):
            for tid in self.ids[pool]:
                at = {}
                pick(at, attr, (0, 1, 1, 2), 0.9)
                mk(tid, group_id=81, category_id=TypeCategoryId.implant, attrs=at, required_skills=rq())
        for tid in self.ids['subsystem']:
            at = {}
            pick(at, A.subsystem_slot, (0, 125, 125, 126), 0.9)
            mk(tid, group_id=82, category_id=TypeCategoryId.subsystem, attrs=at,
               effects=[ef[int(EffectId.subsystem)]] if rnd.random() < 0.9 else [])
        for tid in self.ids['fighter']:
            at = {}
            for a in (A.fighter_squadron_is_support, A.fighter_squadron_is_light, A.fighter_squadron_is_heavy):
                pick(at, a, (1, 1, 0), 0.45)
            mk(tid, group_id=83, category_id=TypeCategoryId.fighter, attrs=at, effects=[ef[E_ACTIVE]])
        at = {}
        pick(at, A.max_active_drones, (0, 1, 2, 5), 0.85)
        mk(int(TypeId.character_static), group_id=TypeGroupId.character, attrs=at)
        mk(950, group_id=TypeGroupId.ship_modifier)
        mk(960, group_id=TypeGroupId.effect_beacon)
        return ch


# ---------------------------------------------------------------- canonical forms
def _num(x):
    return None if x is None else (int(x) if isinstance(x, bool) else x)


def canon_error(world, rtype, err):
    """ValidationError datum -> (kind, fields) with numbers / None / sorted lists / class names."""
    name = type(err).__name__
    if isinstance(err, tuple) and not hasattr(err, '_fields'):      # skill requirement: tuple of namedtuples
        return ('sk', [sorted(((_num(e.skill_type_id), _num(e.level), _num(e.required_level)) for e in err),
                              key=lambda t: t[0])])
    f = err._asdict()
    if name == 'ResourceErrorData':
        return ('res', [f['total_use'], f['output'], f['item_use']])
    if name == 'SlotQuantityErrorData':
        return ('slot', [f['used'], f['total']])
    if name == 'SlotIndexErrorData':
        return ('idx', [f['slot_index']])
    if name == 'RigSizeErrorData':
        return ('rig', [f['size'], f['allowed_size']])
    if name == 'DroneGroupErrorData':
        return ('dg', [f['group_id'], sorted(set(f['allowed_group_ids']))])
    if name == 'ShipTypeGroupErrorData':
        return ('stg', [f['ship_type_id'], f['ship_group_id'], sorted(set(f['allowed_type_ids'])),
                        sorted(set(f['allowed_group_ids']))])
    if name == 'CapitalItemErrorData':
        return ('cap', [f['item_volume'], f['max_subcap_volume']])
    if name == 'MaxGroupErrorData':
        return ('mg', [f['group_id'], f['quantity'], f['max_allowed_quantity']])
    if name == 'ItemClassErrorData':
        return ('ic', [f['item_class'].__name__, sorted(c.__name__ for c in f['allowed_classes'])])
    if name == 'StateErrorData':
        return ('st', [int(f['state']), [int(s) for s in f['allowed_states']]])
    if name == 'ChargeGroupErrorData':
        return ('cg', [f['group_id'], sorted(set(f['allowed_group_ids']))])
    if name == 'ChargeSizeErrorData':
        return ('cs', [f['size'], f['allowed_size']])
    if name == 'ChargeVolumeErrorData':
        return ('cv', [f['volume'], f['max_allowed_volume']])
    if name == 'LoadedItemErrorData':
        return ('li', [])
    return ('unknown:' + name, [repr(err)])


def parse_model_outcome(s):
    """Model outcome text -> 'pass' | 'internal' | {(item, rtype): (kind, fields)}."""
    if s in ('pass', 'internal'):
        return s

    def rat(x):
        return None if x == 'N' else C.unq(x)

    def rats(x):
        return [C.unq(y) for y in x.split('+')] if x else []
    out = {}
    for ent in s.split(';'):
        item, rtype, data = ent.split(':', 2)
        p = data.split(',')
        k = p[0]
        if k in ('res', 'slot', 'idx', 'rig', 'cap', 'mg', 'cv'):
            fields = [rat(x) for x in p[1:]]
        elif k in ('dg', 'cg'):
            fields = [rat(p[1]), rats(p[2])]
        elif k == 'stg':
            fields = [rat(p[1]), rat(p[2]), rats(p[3]), rats(p[4])]
        elif k == 'sk':
            fields = [[tuple(rat(y) for y in x.split('=')) for x in p[1].split('+')]]
        elif k == 'ic':
            fields = [p[1], p[2].split('+') if p[2] else []]
        elif k == 'st':
            fields = [int(p[1]), [int(x) for x in p[2].split('+')] if p[2] else []]
        elif k == 'cs':
            fields = [rat(p[1]), rat(p[2])]
        else:
            fields = []
        out[(int(item), int(rtype))] = (k, fields)
    return out


def same(a, b):
    """Structural equality with float tolerance."""
    if isinstance(a, (list, tuple)) and isinstance(b, (list, tuple)):
        return len(a) == len(b) and all(same(x, y) for x, y in zip(a, b))
    if a is None or b is None or isinstance(a, str) or isinstance(b, str):
        return a == b
    if isinstance(a, (int, float, fractions.Fraction)) and isinstance(b, (int, float, fractions.Fraction)):
        return C.close(a, b)
    return a == b


def same_outcome(a, b):
    if isinstance(a, str) or isinstance(b, str):
        return a == b
    return a.keys() == b.keys() and all(a[k][0] == b[k][0] and same(a[k][1], b[k][1]) for k in a)


def _tok(items):
    items = list(items)
    return ','.join(items) if items else '-'


def _opt(x):
    return '-' if x is None else str(int(x))


def eid(e):
    """Effect ids as naturals (eos-specific effects have negative ids)."""
    e = int(e)
    return e if e >= 0 else 10 ** 6 - e


# ---------------------------------------------------------------- world
class Spy:
    """Records the six loaded-item messages in publication order (as model lines)."""
    MSGS = (ItemLoaded, ItemUnloaded, StatesActivatedLoaded, StatesDeactivatedLoaded, EffectsStarted, EffectsStopped)

    def __init__(self, world):
        self.world = world
        self.lines = []

    def _notify(self, msg):
        w, i = self.world, self.world.ident(msg.item)
        t = type(msg)
        if t is ItemLoaded:
            self.lines.append('msg L %d %s %s' % (i, type(msg.item).__name__, w.td_tokens(msg.item)))
        elif t is ItemUnloaded:
            self.lines.append('msg U %d' % i)
        elif t in (StatesActivatedLoaded, StatesDeactivatedLoaded):
            self.lines.append('msg %s %d %s' % ('SA' if t is StatesActivatedLoaded else 'SD', i,
                                                _tok(str(int(s)) for s in sorted(msg.states))))
        else:
            self.lines.append('msg %s %d %s' % ('ES' if t is EffectsStarted else 'EX', i,
                                                _tok(str(e) for e in sorted(map(eid, msg.effect_ids)))))


class World:
    def __init__(self, universe, source='A'):
        self.u = universe
        self.src = source
        self.ss = SolarSystem(source=universe.sources[source] if source else None)
        self.fit = Fit(solar_system=None)
        self.items = {}          # ident -> item object (every item ever created)
        self._ids = {}           # id(obj) -> ident
        self.modes = {}          # ident -> {effect id: mode}
        self.spy = Spy(self)
        self.ident(self.fit.character)
        # listen before the fit joins the solar system, so the character's load is observed too
        self.fit._subscribe(self.spy, Spy.MSGS)
        self.ss.fits.add(self.fit)

    def ident(self, item):
        k = id(item)
        if k not in self._ids:
            self._ids[k] = len(self.items) + 1
            self.items[self._ids[k]] = item
        return self._ids[k]

    def drain(self):
        out, self.spy.lines = self.spy.lines, []
        return out

    # ---- operations (replayable data) -------------------------------------------------
    def new_item(self, cls, type_id, state=None, level=None):
        k = CLASSES[cls]
        if cls == 'Skill':
            it = k(type_id, level=level if level is not None else 0)
        elif cls in ('ModuleHigh', 'ModuleMid', 'ModuleLow', 'Drone', 'FighterSquad'):
            it = k(type_id, state=State(state or 1))
        else:
            it = k(type_id)
        return it

    def apply(self, op):
        """Execute one operation; returns None or the class name of the (expected) exception."""
        try:
            self._apply(op)
        except EXPECTED_OP_ERRORS as e:
            return type(e).__name__
        return None

    def _apply(self, op):
        k, f = op[0], self.fit
        if k == 'new':                                   # ('new', cls, type, state, level) -> allocates next ident
            self.ident(self.new_item(*op[1:]))
        elif k == 'single':                              # ('single', attr, ident|None)
            setattr(f, op[1], None if op[2] is None else self.items[op[2]])
        elif k == 'set_add':
            getattr(f, op[1]).add(self.items[op[2]])
        elif k == 'set_remove':
            getattr(f, op[1]).remove(self.items[op[2]])
        elif k == 'rack':                                # ('rack', rack, method, ident|None, index|None)
            cont, arg = getattr(f.modules, op[1]), (None if op[3] is None else self.items[op[3]])
            m = op[2]
            if m in ('append', 'equip'):
                getattr(cont, m)(arg)
            elif m in ('insert', 'place'):
                getattr(cont, m)(op[4], arg)
            else:                                        # remove / free by item or by index
                getattr(cont, m)(arg if arg is not None else op[4])
        elif k == 'state':
            self.items[op[1]].state = State(op[2])
        elif k == 'mode':
            self.items[op[1]].set_effect_mode(op[2], EffectMode(op[3]))
            self.modes.setdefault(op[1], {})[op[2]] = op[3]
        elif k == 'charge':                              # ('charge', module ident, charge ident|None)
            self.items[op[1]].charge = None if op[2] is None else self.items[op[2]]
        elif k == 'level':
            self.items[op[1]].level = op[2]
        elif k == 'source':
            self.ss.source = None if op[1] is None else self.u.sources[op[1]]
            self.src = op[1]
        else:
            raise C.InfraError('unknown op %r' % (op,))

    # ---- observation ----------------------------------------------------------------------
    def td_tokens(self, item):
        t = item._type
        return '%s %s %s %s %s' % (
            _opt(t.group_id), _opt(t.category_id),
            _tok('%d=%s' % (a, C.q(v)) for a, v in sorted(t.attrs.items())),
            _tok('%d=%d' % (eid(e), int(eff._state)) for e, eff in sorted(t.effects.items(), key=lambda x: eid(x[0]))),
            _tok('%d=%s' % (s, C.q(l)) for s, l in sorted(t.required_skills.items())))

    def placed(self):
        f = self.fit
        singles = [f.character, f.ship, f.stance, f.effect_beacon]
        top = [i for i in singles if i is not None]
        for name in ('skills', 'implants', 'boosters', 'subsystems'):
            top += list(getattr(f, name))
        for rack in ('high', 'mid', 'low'):
            top += [i for i in getattr(f.modules, rack) if i is not None]
        top += list(f.rigs) + list(f.drones) + list(f.fighters)
        out = []
        for it in top:
            out.append(it)
            ch = getattr(it, 'charge', None)
            if ch is not None:
                out.append(ch)
        return out

    def snapshot(self):
        """Public-API snapshot: dict for the Python evaluator."""
        f = self.fit
        items = {}
        for it in self.placed():
            t = it._type
            ch = getattr(it, 'charge', None)
            rec = {'id': self.ident(it), 'cls': type(it).__name__, 'type': it._type_id,
                   'state': int(it.state) if it.state is not None else 0,
                   'level': getattr(it, 'level', None), 'charge': None if ch is None else self.ident(ch),
                   'loaded': t is not None, 'running': sorted(eid(e) for e, d in it.effects.items() if d.status),
                   'mattrs': {}}
            if t is not None:
                rec.update(group=t.group_id, category=t.category_id, attrs={int(a): v for a, v in t.attrs.items()},
                           effects={eid(e): int(eff._state) for e, eff in t.effects.items()},
                           rq={int(s): l for s, l in t.required_skills.items()}, td=self.td_tokens(it))
                for a in MATTRS:
                    v = it.attrs.get(a)
                    if v is not None:
                        rec['mattrs'][a] = v
            items[rec['id']] = rec
        one = lambda x: None if x is None else self.ident(x)  # noqa: E731
        snap = {'items': items, 'ship': one(f.ship), 'character': one(f.character), 'stance': one(f.stance),
                'beacon': one(f.effect_beacon)}
        for name in SETS:
            snap[name] = sorted(self.ident(i) for i in getattr(f, name))
        for rack in RACKS:
            snap[rack] = [one(i) for i in getattr(f.modules, rack)]
        return snap

    @staticmethod
    def snapshot_lines(snap):
        lines = ['begin']
        for i in sorted(snap['items']):
            r = snap['items'][i]
            lines.append('item %d %s %d %d %s %s %s %s %s %s' % (
                i, r['cls'], r['type'], r['state'], '-' if r['level'] is None else C.q(r['level']), _opt(r['charge']),
                '1' if r['loaded'] else '0', r['td'] if r['loaded'] else '- - - - -',
                _tok(map(str, r['running'])), _tok('%d=%s' % (a, C.q(v)) for a, v in sorted(r['mattrs'].items()))))
        lines.append('fit %s %s %s %s %s %s %s %s %s %s %s %s %s %s' % (
            _opt(snap['ship']), _opt(snap['character']), _opt(snap['stance']), _opt(snap['beacon']),
            _tok(map(str, snap['skills'])), _tok(map(str, snap['implants'])), _tok(map(str, snap['boosters'])),
            _tok(map(str, snap['subsystems'])), _tok(map(str, snap['rigs'])), _tok(map(str, snap['drones'])),
            _tok(map(str, snap['fighters'])),
            *(_tok('x' if i is None else str(i) for i in snap[r]) for r in ('high', 'mid', 'low'))))
        return lines

    def validate(self, skip=()):
        """fit.validate canonicalised: 'pass' | 'internal:<Exc>' | {(item key, rtype): (kind, fields)}."""
        try:
            self.fit.validate(tuple(Restriction(s) for s in skip))
        except ValidationError as e:
            out = {}
            for item, errs in e.data.items():
                key = self._ids.get(id(item), 'NOT-AN-ITEM:%r' % (item,))
                for rtype, err in errs.items():
                    out[(key, int(rtype))] = canon_error(self, rtype, err)
            return out
        except Exception as e:  # noqa: BLE001 - any other class is an internal error of validate()
            return 'internal:' + type(e).__name__
        return 'pass'

    def registers(self):
        """Private restriction registers in the model's `showReg` format, keyed by restriction type."""
        def rats(vals):
            return '+'.join(C.q(v) for v in sorted(set(vals)))
        out = {}
        for r in self.fit._restriction._RestrictionService__restrictions:
            if r.type not in STATEFUL:
                continue
            name = type(r).__name__
            pre = '_%s__' % name
            ent = []
            if name.startswith('MaxGroup'):
                gm = r._MaxGroupRestrictionRegister__group_item_map
                restricted = r._MaxGroupRestrictionRegister__restricted_items
                seen = set()
                for g, its in gm.items():
                    for it in its:
                        seen.add(id(it))
                        ent.append((self.ident(it), 'M%d_%d' % (g, 1 if it in restricted else 0)))
                ent += [(self.ident(it), 'STRAY-RESTRICTED') for it in restricted if id(it) not in seen]
            elif name.endswith('IndexRestrictionRegister'):
                for idx, its in r._SlotIndexRestrictionRegister__index_item_map.items():
                    ent += [(self.ident(it), 'I' + C.q(idx)) for it in its]
            elif name == 'ChargeGroupRestrictionRegister':
                ent = [(self.ident(it), 'G' + rats(v)) for it, v in getattr(r, pre + 'restricted_containers').items()]
            elif name == 'ShipTypeGroupRestrictionRegister':
                ent = [(self.ident(it), 'T%s_%s' % (rats(v.type_ids), rats(v.group_ids)))
                       for it, v in getattr(r, pre + 'restricted_items').items()]
            else:
                attr = {'CapitalItemRestrictionRegister': 'capital_items', 'ChargeVolumeRestrictionRegister': 'containers',
                        'ChargeSizeRestrictionRegister': 'restricted_containers',
                        'DroneGroupRestrictionRegister': 'drones'}.get(name, 'restricted_items')
                ent = [(self.ident(it), 'u') for it in getattr(r, pre + attr)]
            out[int(r.type)] = ','.join('%d~%s' % e for e in sorted(ent))
        return out


# ---------------------------------------------------------------- operation generator
STATE_CLS = ('ModuleHigh', 'ModuleMid', 'ModuleLow', 'Drone', 'FighterSquad')
POOL_OF = {'Ship': 'ship', 'ModuleHigh': 'high', 'ModuleMid': 'mid', 'ModuleLow': 'low', 'Rig': 'rig', 'Drone': 'drone',
           'Charge': 'charge', 'Skill': 'skill', 'Implant': 'implant', 'Booster': 'booster', 'Subsystem': 'subsystem',
           'FighterSquad': 'fighter', 'Stance': 'stance', 'EffectBeacon': 'beacon'}


def gen_ops(rnd, world, dist):
    """Next operations (a creation is followed by its placement) chosen from the current world; mostly valid."""
    f, u = world.fit, world.u

    def type_for(cls):
        pool = POOL_OF[cls]
        if rnd.random() < 0.07:                       # wrong item class for the type / unknown type id
            pool = rnd.choice(Universe.POOLS)
            dist['wrong-class-type'] += 1
        return rnd.choice(u.ids[pool] + ([99999] if rnd.random() < 0.03 else []))

    def fresh(cls):
        nid = len(world.items) + 1
        st = rnd.choice((1, 1, 2, 2, 3, 4)) if cls in STATE_CLS else None
        lvl = rnd.randint(0, 5) if cls == 'Skill' else None
        return nid, ('new', cls, type_for(cls), st, lvl)

    def on_fit(classes=None):
        return [world.ident(i) for i in world.placed() if classes is None or type(i).__name__ in classes]
    r = rnd.random()
    if r < 0.30:                                      # rack operations
        rack = rnd.choice(list(RACKS))
        cont = getattr(f.modules, rack)
        m = rnd.choice(('append', 'equip', 'place', 'insert', 'insert-none', 'remove', 'free', 'remove-index'))
        n = len(cont)
        if m in ('append', 'equip', 'place', 'insert'):
            nid, new = fresh(RACKS[rack])
            idx = rnd.randint(0, n + 2) if m in ('place', 'insert') else None
            ops = [new, ('rack', rack, m, nid, idx)]
            if rnd.random() < 0.35:
                cid, cnew = nid + 1, ('new', 'Charge', type_for('Charge'), None, None)
                ops = [new, cnew, ('charge', nid, cid), ('rack', rack, m, nid, idx)] if rnd.random() < 0.5 else \
                    ops + [cnew, ('charge', nid, cid)]
            return ops
        if m == 'insert-none':
            return [('rack', rack, 'insert', None, rnd.randint(0, n + 1))]
        here = [world.ident(i) for i in cont if i is not None]
        if m == 'remove-index' and n:
            return [('rack', rack, rnd.choice(('remove', 'free')), None, rnd.randrange(n))]
        if here:
            return [('rack', rack, m if m != 'remove-index' else 'remove', rnd.choice(here), None)]
        return gen_ops(rnd, world, dist)
    if r < 0.52:                                      # unordered containers
        name = rnd.choice(list(SETS))
        cont = list(getattr(f, name))
        if cont and rnd.random() < 0.35:
            return [('set_remove', name, world.ident(rnd.choice(cont)))]
        nid, new = fresh(SETS[name])
        return [new, ('set_add', name, nid)]
    if r < 0.62:                                      # ship / stance / beacon swap or removal
        attr = rnd.choice(('ship', 'ship', 'ship', 'stance', 'effect_beacon'))
        if getattr(f, attr) is not None and rnd.random() < 0.25:
            return [('single', attr, None)]
        nid, new = fresh(SINGLES[attr])
        return [new, ('single', attr, nid)]
    if r < 0.74:                                      # state change
        cands = on_fit(STATE_CLS)
        if cands:
            return [('state', rnd.choice(cands), rnd.choice((1, 2, 2, 3, 3, 4)))]
    elif r < 0.82:                                    # charge swap / removal
        cands = on_fit(('ModuleHigh', 'ModuleMid', 'ModuleLow'))
        if cands:
            m = rnd.choice(cands)
            if world.items[m].charge is not None and rnd.random() < 0.4:
                return [('charge', m, None)]
            cid = len(world.items) + 1
            return [('new', 'Charge', type_for('Charge'), None, None), ('charge', m, cid)]
    elif r < 0.88:                                    # effect mode override
        cands = on_fit()
        if cands:
            i = rnd.choice(cands)
            effs = list(world.items[i]._type_effects) or [int(EffectId.online)]
            return [('mode', i, int(rnd.choice(effs)), rnd.randint(1, 4))]
    elif r < 0.92:                                    # skill level change
        cands = on_fit(('Skill',))
        if cands:
            return [('level', rnd.choice(cands), rnd.randint(0, 5))]
    elif r < 0.96:                                    # source switch
        return [('source', rnd.choice([s for s in ('A', 'B', None) if s != world.src]))]
    else:                                             # malformed: re-add an item that is already somewhere / wrong class
        cands = on_fit()
        if cands:
            i = rnd.choice(cands)
            dist['malformed-op'] += 1
            charged = [m for m in on_fit(('ModuleHigh', 'ModuleMid', 'ModuleLow')) if world.items[m].charge is not None]
            alts = [('set_add', rnd.choice(list(SETS)), i), ('rack', 'high', 'append', i, None),
                    ('single', 'ship', i), ('rack', 'mid', 'place', i, 0)]
            if len(charged) >= 2:
                # a charge that sits in another module: rejected, the module keeps (and keeps loaded) its own charge
                m1, m2 = rnd.sample(charged, 2)
                alts += [('charge', m2, world.ident(world.items[m1].charge))] * 3
            return [rnd.choice(alts)]
    return gen_ops(rnd, world, dist)
