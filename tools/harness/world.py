"""Random well-formed data universes, replayable public-API histories over 1..3 fits, the
public-configuration snapshot (sent to the Lean spec model) and the mirror-world rebuild
(impl-level from-scratch oracle).  Used by C01, C02, C08, C09, C10, C11, C13, C14.

Everything random is drawn from the `random.Random` handed in; an op is a plain tuple, a history
is a list of ops, a replay file holds (seed-independent) universe parameters + ops.
"""
import itertools

import common as C
from harness import mem

C.load_repo()

from eos import (Booster, Charge, Drone, EffectBeacon, FighterSquad, Fit, Fleet, Implant, ModuleHigh,  # noqa: E402
                 ModuleLow, ModuleMid, Rig, Ship, Skill, SolarSystem, Stance, Subsystem, DmgProfile)
from eos import EffectMode, State  # noqa: E402
from eos.const.eos import ModAffecteeFilter, ModAggregateMode, ModDomain, ModOperator, EosTypeId  # noqa: E402
from eos.const.eve import AttrId, EffectCategoryId, EffectId, TypeCategoryId  # noqa: E402
from eos.eve_obj.buff_template import WarfareBuffTemplate  # noqa: E402
from eos.eve_obj.effect.warfare_buff.base import WarfareBuffEffect  # noqa: E402
from eos.eve_obj.modifier import DogmaModifier  # noqa: E402
from eos.item import Character  # noqa: E402
from eos.item.charge import Autocharge  # noqa: E402
from eos.item_container import SlotTakenError  # noqa: E402
from eos.restriction import ValidationError  # noqa: E402
from eos.solar_system.exception import ItemSolarSystemMismatchError  # noqa: E402

KIND = {Character: 0, Ship: 1, Stance: 2, Subsystem: 3, ModuleHigh: 4, ModuleMid: 5, ModuleLow: 6, Rig: 7,
        Drone: 8, FighterSquad: 9, Skill: 10, Implant: 11, Booster: 12, EffectBeacon: 13, Charge: 14,
        Autocharge: 15}
KIND_NAMES = {'character': Character, 'ship': Ship, 'stance': Stance, 'subsystem': Subsystem, 'mh': ModuleHigh, 'mm': ModuleMid,
              'ml': ModuleLow, 'rig': Rig, 'drone': Drone, 'fighter': FighterSquad, 'skill': Skill,
              'implant': Implant, 'booster': Booster, 'beacon': EffectBeacon, 'charge': Charge}
SET_KINDS = {'subsystem': 'subsystems', 'rig': 'rigs', 'drone': 'drones', 'fighter': 'fighters',
             'implant': 'implants', 'booster': 'boosters', 'skill': 'skills'}
RACKS = {'mh': 'high', 'mm': 'mid', 'ml': 'low'}
DOCUMENTED = (TypeError, ValueError, KeyError, IndexError, SlotTakenError, ValidationError,
              ItemSolarSystemMismatchError)
BUFF_EFFECT_IDS = [int(EffectId.module_bonus_warfare_link_armor), int(EffectId.module_bonus_warfare_link_shield)]
LIMITED = [int(AttrId.cpu), int(AttrId.power), int(AttrId.cpu_output), int(AttrId.power_output)]
BUFF_ATTRS = [(int(AttrId.warfare_buff_1_id), int(AttrId.warfare_buff_1_value)),
              (int(AttrId.warfare_buff_2_id), int(AttrId.warfare_buff_2_value))]
SKILL_LEVEL = int(AttrId.skill_level)


def opt(x):
    return '-' if x is None else str(int(x))


# ------------------------------------------------------------------ universes
class Universe:
    """A generated source.  `order` lists attribute ids by dependency rank, lowest first: an
    attribute depends (modifier source, cap, resistance) only on attributes later in `order`."""

    def __init__(self, rnd, p, index=0):
        self.p = p
        self.index = index
        self._own = itertools.count(4000 + 200 * index)
        self.ch = ch = mem.MemCache()
        dy = p.get('dyadic', True)
        n = p.get('nattr', 7)
        ids = []
        pool = list(range(2001, 2001 + 3 * n))
        special = [a for a in LIMITED if rnd.random() < p.get('limited', 0.5)]
        for i in range(n):
            if special and rnd.random() < 0.4:
                ids.append(special.pop())
            else:
                ids.append(pool.pop(rnd.randrange(len(pool))))
        self.pymods = p.get('pymods', False)
        if self.pymods:
            # attributes the python modifiers (ancillary armor repairer, propulsion modules) read and write; these
            # universes are for impl-level oracles only (the Lean spec does not model python modifiers)
            ids[0] = int(AttrId.max_velocity)
            ids[1] = int(AttrId.armor_dmg_amount)
            ids[n - 4:n] = [int(AttrId.charged_armor_dmg_mult), int(AttrId.mass), int(AttrId.speed_factor),
                            int(AttrId.speed_boost_factor)]
        # skill level attribute ranks above the plain ones (skills expose it through an override)
        ids.append(SKILL_LEVEL)
        self.fleet = p.get('fleet', False)
        if self.fleet:
            for a, b in BUFF_ATTRS:
                ids += [b, a]
        self.order = ids
        self.plain = ids[:n]
        vals = ([0.5, 2, 3, -1, 10, 1.5, 50, 0.25, 4, 100, -0.5, 1, 0, 8] if dy else
                [0.1, 2.3, 3, -1.1, 10, 1.7, 50, 0.3, 33.3, 100, -0.7, 1, 0, 7.77])
        self.vals = vals
        for i, a in enumerate(ids):
            higher = self.plain[i + 1:] if i < n else []
            mx = rnd.choice(higher) if higher and rnd.random() < p.get('cap', 0.3) else None
            ch.mkattr(attr_id=a, max_attr_id=mx,
                      default_value=rnd.choice([None, None, 0, 1, 10, rnd.choice(vals)]),
                      high_is_good=rnd.random() < 0.5, stackable=rnd.random() < 0.45)
        self.groups = [11, 12, 13]
        self.skill_types = [5001, 5002]
        # effects
        self.effects = []
        cats = [EffectCategoryId.passive, EffectCategoryId.online, EffectCategoryId.active,
                EffectCategoryId.overload, EffectCategoryId.system]
        proj = p.get('projected', True)
        bias = p.get('proj_bias', False)
        self.resist_attrs = []
        for k in range(p.get('neff', 9)):
            forced = bias and k < p.get('neff', 9) // 2
            if forced or (proj and rnd.random() < 0.3):
                cat = EffectCategoryId.target
            else:
                cat = rnd.choice(cats)
            mods = []
            lowest_tgt = n
            for j in range(2 if forced else rnd.randint(1, 3)):
                ti = rnd.randrange(0, n - 2 if forced else n - 1)
                si = rnd.randrange(ti + 1, n + 1)            # may be the skill level attribute
                lowest_tgt = min(lowest_tgt, ti)
                filt = rnd.choice(list(ModAffecteeFilter))
                if forced:
                    # every other forced effect has location filters only: such a projection stays applied across a
                    # source switch (the known finding K1 concerns item-filter projections)
                    loc = rnd.choice([ModAffecteeFilter.domain, ModAffecteeFilter.domain_group, ModAffecteeFilter.domain_skillrq])
                    filt = [loc if k % 2 else ModAffecteeFilter.item, loc][j]
                if forced and not self.resist_attrs and bias:
                    pass
                if not forced and bias and self.resist_attrs and cat != EffectCategoryId.target and rnd.random() < 0.5:
                    # a local effect that changes a resistance attribute of the ship
                    ra = rnd.choice(self.resist_attrs)
                    ri = ids.index(ra)
                    if ri + 1 < n + 1:
                        mods.append(DogmaModifier(
                            affectee_filter=ModAffecteeFilter.item, affectee_domain=ModDomain.ship,
                            affectee_attr_id=ra, operator=rnd.choice([ModOperator.post_mul, ModOperator.mod_add,
                                                                      ModOperator.post_percent]),
                            aggregate_mode=ModAggregateMode.stack, aggregate_key=None,
                            affector_attr_id=ids[rnd.randrange(ri + 1, n + 1)] if ri + 1 < n else ids[n]))
                        continue
                if cat == EffectCategoryId.target and (forced or rnd.random() < 0.8):
                    dom = ModDomain.target
                    if filt == ModAffecteeFilter.owner_skillrq and rnd.random() < 0.5:
                        filt = ModAffecteeFilter.item
                elif filt == ModAffecteeFilter.item:
                    dom = rnd.choice([ModDomain.self, ModDomain.character, ModDomain.ship, ModDomain.other])
                elif filt == ModAffecteeFilter.owner_skillrq:
                    dom = ModDomain.character
                else:
                    dom = rnd.choice([ModDomain.self, ModDomain.character, ModDomain.ship])
                extra = None
                if filt == ModAffecteeFilter.domain_group:
                    extra = rnd.choice(self.groups)
                if filt in (ModAffecteeFilter.domain_skillrq, ModAffecteeFilter.owner_skillrq):
                    extra = rnd.choice(self.skill_types + [int(EosTypeId.current_self)])
                agg = ModAggregateMode.stack
                key = None
                if rnd.random() < p.get('aggregate', 0.25):
                    agg = rnd.choice([ModAggregateMode.minimum, ModAggregateMode.maximum])
                    key = rnd.choice([1, 2])
                op = rnd.choice(list(ModOperator))
                mods.append(DogmaModifier(
                    affectee_filter=filt, affectee_domain=dom, affectee_filter_extra_arg=extra,
                    affectee_attr_id=ids[ti], operator=op, aggregate_mode=agg, aggregate_key=key,
                    affector_attr_id=ids[si]))
            resist = None
            if cat == EffectCategoryId.target and all(m.affectee_domain == ModDomain.target for m in mods) \
\
                    and (forced or rnd.random() < 0.5) and lowest_tgt + 1 < n:
                tis = [ids.index(m.affectee_attr_id) for m in mods]
                resist = ids[rnd.randrange(max(tis) + 1, n)] if max(tis) + 1 < n else None
                if resist is not None:
                    self.resist_attrs.append(resist)
            chance = None
            if cat == EffectCategoryId.passive and rnd.random() < 0.25:
                chance = rnd.choice(self.plain)
            self.effects.append(ch.mkeffect(category_id=cat, modifiers=tuple(mods), resist_attr_id=resist,
                                            fitting_usage_chance_attr_id=chance))
        # booster side effects: passive effects with a fitting-usage-chance attribute
        self.side_effects = []
        for _ in range(3):
            ti = rnd.randrange(0, n - 1)
            si = rnd.randrange(ti + 1, n)
            m = DogmaModifier(affectee_filter=ModAffecteeFilter.item,
                              affectee_domain=rnd.choice([ModDomain.self, ModDomain.ship, ModDomain.character]),
                              affectee_attr_id=ids[ti], operator=rnd.choice([ModOperator.post_percent, ModOperator.mod_add]),
                              aggregate_mode=ModAggregateMode.stack, affector_attr_id=ids[si])
            self.side_effects.append(ch.mkeffect(category_id=EffectCategoryId.passive, modifiers=(m,),
                                                 fitting_usage_chance_attr_id=rnd.choice(self.plain)))
        self.online = ch.mkeffect(effect_id=int(EffectId.online), category_id=EffectCategoryId.online)
        self.buff_effects = []
        if self.fleet:
            for eid in BUFF_EFFECT_IDS:
                self.buff_effects.append(ch.mkeffect(effect_id=eid, category_id=EffectCategoryId.active))
            for bid in (7, 8, 9):
                tpls = set()
                for _ in range(rnd.randint(1, 2)):
                    filt = rnd.choice([ModAffecteeFilter.item, ModAffecteeFilter.domain,
                                       ModAffecteeFilter.domain_group, ModAffecteeFilter.domain_skillrq])
                    extra = None
                    if filt == ModAffecteeFilter.domain_group:
                        extra = rnd.choice(self.groups)
                    if filt == ModAffecteeFilter.domain_skillrq:
                        extra = rnd.choice(self.skill_types)
                    tpls.add(WarfareBuffTemplate(
                        buff_id=bid, affectee_filter=filt, affectee_filter_extra_arg=extra,
                        affectee_attr_id=rnd.choice(self.plain[:-1]),
                        operator=rnd.choice([ModOperator.post_percent, ModOperator.post_mul, ModOperator.mod_add]),
                        aggregate_mode=rnd.choice(list(ModAggregateMode))))
                ch.buffs[bid] = tpls
            # skills that change the buff attributes of the modules on the ship (value: plain dependency of the
            # boosted attributes; id: the service re-registers the boost when it changes)
            self.buff_tweaks = []
            for _ in range(p.get('buff_tweaks', 3)):
                a, b = rnd.choice(BUFF_ATTRS)
                if rnd.random() < 0.5:
                    tgt, op = a, rnd.choice([ModOperator.mod_add, ModOperator.post_assign, ModOperator.mod_add])
                else:
                    tgt, op = b, rnd.choice([ModOperator.post_percent, ModOperator.mod_add, ModOperator.post_mul])
                m = DogmaModifier(affectee_filter=rnd.choice([ModAffecteeFilter.domain, ModAffecteeFilter.domain_group]),
                                  affectee_domain=ModDomain.ship, affectee_filter_extra_arg=None,
                                  affectee_attr_id=tgt, operator=op, aggregate_mode=ModAggregateMode.stack,
                                  affector_attr_id=SKILL_LEVEL)
                if m.affectee_filter == ModAffecteeFilter.domain_group:
                    m = DogmaModifier(affectee_filter=ModAffecteeFilter.domain_group, affectee_domain=ModDomain.ship,
                                      affectee_filter_extra_arg=rnd.choice(self.groups), affectee_attr_id=tgt,
                                      operator=op, aggregate_mode=ModAggregateMode.stack, affector_attr_id=SKILL_LEVEL)
                self.buff_tweaks.append(ch.mkeffect(category_id=EffectCategoryId.passive, modifiers=(m,)))
        # types
        self.types = {}
        for st in self.skill_types:
            self._mktype(rnd, 'skill', st)
        for kind, cnt in (('ship', 2), ('mh', 3), ('mm', 2), ('ml', 2), ('rig', 1), ('drone', 2), ('implant', 2),
                          ('booster', 1), ('subsystem', 1), ('stance', 1), ('charge', 2), ('fighter', 1),
                          ('beacon', 1)):
            for _ in range(cnt):
                self._mktype(rnd, kind, None)
        if self.pymods:
            from eos.const.eve import TypeId as _T
            aar = ch.mkeffect(effect_id=int(EffectId.fueled_armor_repair), category_id=EffectCategoryId.active)
            ab = ch.mkeffect(effect_id=int(EffectId.module_bonus_afterburner), category_id=EffectCategoryId.active)
            mwd = ch.mkeffect(effect_id=int(EffectId.module_bonus_microwarpdrive), category_id=EffectCategoryId.active)
            for k, eff in enumerate((aar, aar, ab, mwd)):
                extra = rnd.sample(self.effects, rnd.randint(0, 2))
                attrs = {int(AttrId.armor_dmg_amount): rnd.choice([50, 100]),
                         int(AttrId.charged_armor_dmg_mult): rnd.choice([2, 3]),
                         int(AttrId.speed_factor): rnd.choice([100, 500]),
                         int(AttrId.speed_boost_factor): rnd.choice([1000, 1500])}
                # fixed ids: the same id must not denote another item class in another source
                t = ch.mktype(type_id=9101 + k, group_id=rnd.choice(self.groups), category_id=TypeCategoryId.module,
                              attrs=attrs, effects=[eff, self.online] + extra, default_effect=eff)
                self.types.setdefault('mm', []).append(t.id)
                self.types.setdefault('mm_py', []).append(t.id)
            paste = ch.mktype(type_id=int(_T.nanite_repair_paste), category_id=TypeCategoryId.charge,
                              attrs={a: rnd.choice(self.vals) for a in rnd.sample(self.plain, 2)})
            self.types['charge'] += [paste.id] * 3
            # autocharges: a turret-like effect whose carrier names its ammunition in an attribute; the autocharge is
            # an item of its own whose effects follow the carrier's state
            ta = ch.mkeffect(effect_id=int(EffectId.target_attack), category_id=EffectCategoryId.active)
            autos = []
            for _ in range(2):
                aeffs = rnd.sample(self.effects, rnd.randint(1, 3))
                act = [e for e in aeffs if e.category_id in (EffectCategoryId.active, EffectCategoryId.online)]
                at = ch.mktype(category_id=TypeCategoryId.charge, group_id=rnd.choice(self.groups),
                               attrs={a: rnd.choice(self.vals) for a in rnd.sample(self.plain, 3)}, effects=aeffs,
                               default_effect=rnd.choice(act) if act else None)
                autos.append(at.id)
            for k in range(2):
                t = ch.mktype(type_id=9111 + k, group_id=rnd.choice(self.groups), category_id=TypeCategoryId.module,
                              attrs=dict([(a, rnd.choice(self.vals)) for a in rnd.sample(self.plain, 2)] +
                                         [(int(AttrId.ammo_loaded), autos[k])]),
                              effects=[ta, self.online] + rnd.sample(self.effects, rnd.randint(0, 2)), default_effect=ta)
                self.types.setdefault('mh', []).extend([t.id] * 2)
            for tid0 in self.types['ship']:
                t0 = ch.types[tid0]
                t0.attrs.setdefault(int(AttrId.mass), rnd.choice([1000, 2000, 0]))
                t0.attrs.setdefault(int(AttrId.max_velocity), rnd.choice([100, 250]))
        # the character type every Fit instantiates
        from eos.const.eve import TypeId
        self._mktype(rnd, 'character', int(TypeId.character_static))
        if self.fleet:
            for eff in self.buff_effects:
                attrs = {}
                for a, b in BUFF_ATTRS:
                    if rnd.random() < 0.8:
                        attrs[a] = rnd.choice([7, 8, 9, 55, 7.5, 8.75])
                        attrs[b] = rnd.choice(vals)
                # a booster may carry ordinary effects as well (also projectable ones: two projectors on one item)
                extra = rnd.sample(self.effects, rnd.randint(0, 2))
                effs = [eff, self.online] + extra
                rnd.shuffle(effs)
                for e2 in extra:
                    for m2 in e2.modifiers:
                        attrs.setdefault(m2.affector_attr_id, rnd.choice(vals))
                t = ch.mktype(group_id=rnd.choice(self.groups), category_id=TypeCategoryId.module, attrs=attrs,
                              effects=effs, default_effect=eff)
                self.types.setdefault('mh', []).append(t.id)
                self.types.setdefault('mh_buff', []).append(t.id)

    CATS = {'ship': TypeCategoryId.ship, 'mh': TypeCategoryId.module, 'mm': TypeCategoryId.module,
            'ml': TypeCategoryId.module, 'rig': TypeCategoryId.module, 'drone': TypeCategoryId.drone,
            'implant': TypeCategoryId.implant, 'booster': TypeCategoryId.implant,
            'subsystem': TypeCategoryId.subsystem, 'stance': None, 'charge': TypeCategoryId.charge,
            'fighter': TypeCategoryId.fighter, 'skill': TypeCategoryId.skill, 'beacon': None, 'character': None}

    def _mktype(self, rnd, kind, tid):
        effs = rnd.sample(self.effects, rnd.randint(0, min(3, len(self.effects))))
        if kind == 'skill' and getattr(self, 'buff_tweaks', None):
            effs += rnd.sample(self.buff_tweaks, rnd.randint(1, 2))
        if kind in ('mh', 'mm', 'ml', 'drone', 'fighter') and rnd.random() < 0.7:
            effs.append(self.online)
        tgt_effs = [e for e in self.effects if e.category_id == EffectCategoryId.target]
        if kind in ('mh', 'mm', 'drone') and tgt_effs and rnd.random() < (0.85 if self.p.get('proj_bias') else 0.45):
            effs = [e for e in effs if e.category_id != EffectCategoryId.target] + [rnd.choice(tgt_effs)]
            effs = effs[::-1]
        cand = [e for e in effs if e.category_id in (EffectCategoryId.active, EffectCategoryId.target)]
        de = rnd.choice(cand) if cand and rnd.random() < 0.8 else None
        attrs = {a: rnd.choice(self.vals) for a in rnd.sample(self.plain, rnd.randint(1, len(self.plain)))}
        if kind == 'booster':
            effs = effs + rnd.sample(self.side_effects, rnd.randint(2, 3))
            for e in effs:
                if e.fitting_usage_chance_attr_id is not None:
                    attrs[e.fitting_usage_chance_attr_id] = rnd.choice([0.25, 0.5, 0.75])
        if kind in ('ship', 'drone') and self.p.get('proj_bias'):
            for ra in self.resist_attrs:
                attrs.setdefault(ra, rnd.choice([0.5, 0.25, 1, 0, 2]))
        rs = {s: rnd.randint(1, 5) for s in rnd.sample(self.skill_types, rnd.randint(0, 2))}
        if tid is None and rnd.random() < self.p.get('disjoint', 0.2):
            tid = next(self._own)      # a type id only this source knows
        cat = self.CATS[kind]
        if rnd.random() < 0.15:
            cat = rnd.choice([TypeCategoryId.module, TypeCategoryId.ship, None, 99])
        t = self.ch.mktype(type_id=tid, group_id=rnd.choice(self.groups + [None]), category_id=cat, attrs=attrs,
                           effects=effs, default_effect=de, required_skills=rs)
        self.types.setdefault(kind, []).append(t.id)
        return t

    def attr_ids(self):
        return list(self.order)

    def lines(self):
        """Serialise for the Lean driver (what eos actually serves: read back from the handler)."""
        ch = self.ch
        out = ['U']
        for a in reversed(self.order):
            at = ch.get_attr(a)
            out.append('A %d %s %s %d %d' % (a, opt(at.max_attr_id),
                                            '-' if at.default_value is None else C.q(at.default_value),
                                            1 if at.high_is_good else 0, 1 if at.stackable else 0))
        for eid, e in ch.effects.items():
            out.append('E %d %d %s %s %d' % (eid, int(e.category_id), opt(e.fitting_usage_chance_attr_id),
                                              opt(e.resist_attr_id), 1 if isinstance(e, WarfareBuffEffect) else 0))
            for m in e.modifiers:
                if not isinstance(m, DogmaModifier):
                    raise C.InfraError('python modifier in generated universe')
                out.append('M %d %d %s %d %d %d %s %d' % (
                    int(m.affectee_filter), int(m.affectee_domain), opt(m.affectee_filter_extra_arg),
                    m.affectee_attr_id, int(m.operator), int(m.aggregate_mode), opt(m.aggregate_key),
                    m.affector_attr_id))
        for tid, t in ch.types.items():
            out.append('T %d %s %s %s' % (tid, opt(t.group_id), opt(t.category_id),
                                           opt(t.default_effect.id if t.default_effect is not None else None)))
            for a, v in t.attrs.items():
                out.append('TA %d %s' % (a, C.q(v)))
            for eid in t.effects:
                out.append('TE %d' % eid)
            for s in t.required_skills:
                out.append('TS %d' % s)
        for bid, tpls in ch.buffs.items():
            for b in sorted(tpls, key=lambda b: (int(b.affectee_filter), b.affectee_attr_id, int(b.operator),
                                                 int(b.aggregate_mode), b.affectee_filter_extra_arg or 0)):
                out.append('B %d %d %s %d %d %d' % (bid, int(b.affectee_filter), opt(b.affectee_filter_extra_arg),
                                                    b.affectee_attr_id, int(b.operator), int(b.aggregate_mode)))
        return out


# ------------------------------------------------------------------ world
class World:
    """One solar system driven through the public API; every created object gets a serial `_vid`."""

    def __init__(self, universes, src=0):
        self.unis = universes
        self.src = src
        self.ss = SolarSystem(source=self._source(src))
        self.fits = {}
        self.items = {}
        self.fleets = {}
        self.detached_fits = {}
        self._n = itertools.count(1)

    def _source(self, idx):
        return None if idx is None else mem.source(self.unis[idx].ch, 'u%d' % idx)

    @property
    def uni(self):
        return None if self.src is None else self.unis[self.src]

    def reg(self, obj, table):
        obj._vid = next(self._n)
        table[obj._vid] = obj
        return obj._vid

    # -- item construction (ops carry everything needed to re-create the item in a replay)
    def mk(self, kind, tid, state=None, level=None):
        cls = KIND_NAMES[kind]
        if kind == 'skill':
            it = cls(tid, level=level or 0)
        elif kind in ('mh', 'mm', 'ml', 'drone', 'fighter'):
            it = cls(tid, state=State(state or 1))
        else:
            it = cls(tid)
        self.reg(it, self.items)
        return it

    def fit_items(self, fit):
        return list(fit._item_iter(skip_autoitems=True))

    def all_items(self):
        out = []
        for f in self.ss_fits():
            out += self.fit_items(f)
        return out

    def ss_fits(self):
        return sorted(self.ss.fits, key=lambda f: f._vid)

    # -- ops
    def apply(self, op):
        """Execute one op on the real code. Returns 'ok' or the exception class name."""
        try:
            getattr(self, 'op_' + op[0])(*op[1:])
            return 'ok'
        except DOCUMENTED as e:
            return type(e).__name__
        except ZeroDivisionError:
            return 'ZeroDivisionError'

    def op_add_fit(self):
        f = Fit(solar_system=self.ss)
        self.reg(f, self.fits)
        self.reg(f.character, self.items)

    def op_remove_fit(self, fid):
        self.ss.fits.remove(self.fits[fid])

    def op_readd_fit(self, fid):
        self.ss.fits.add(self.fits[fid])

    def op_set_single(self, fid, slot, kind, tid):
        it = None if tid is None else self.mk(kind, tid)
        setattr(self.fits[fid], slot, it)

    def op_set_single_existing(self, fid, slot, vid):
        setattr(self.fits[fid], slot, self.items[vid])

    def op_add(self, fid, kind, tid, state, level):
        it = self.mk(kind, tid, state, level)
        getattr(self.fits[fid], SET_KINDS[kind]).add(it)

    def op_add_existing(self, fid, coll, vid):
        getattr(self.fits[fid], coll).add(self.items[vid])

    def op_remove(self, vid):
        it = self.items[vid]
        f = it._fit
        for coll in SET_KINDS.values():
            c = getattr(f, coll)
            if it in c:
                c.remove(it)
                return
        raise KeyError(vid)

    def op_rack(self, fid, rack, meth, idx, kind, tid, state, charge_tid):
        r = getattr(self.fits[fid].modules, rack)
        it = self.mk(kind, tid, state)
        if charge_tid is not None:
            ch = self.mk('charge', charge_tid)
            it.charge = ch
        if meth == 'append':
            r.append(it)
        elif meth == 'equip':
            r.equip(it)
        elif meth == 'place':
            r.place(idx, it)
        else:
            r.insert(idx, it)

    def op_rack_existing(self, fid, rack, meth, idx, vid):
        r = getattr(self.fits[fid].modules, rack)
        it = self.items[vid]
        {'append': lambda: r.append(it), 'equip': lambda: r.equip(it), 'place': lambda: r.place(idx, it),
         'insert': lambda: r.insert(idx, it)}[meth]()

    def op_rack_remove(self, fid, rack, meth, idx):
        r = getattr(self.fits[fid].modules, rack)
        getattr(r, meth)(idx)

    def op_rack_remove_item(self, vid, meth):
        it = self.items[vid]
        f = it._fit
        for rn in RACKS.values():
            r = getattr(f.modules, rn)
            if it in r:
                getattr(r, meth)(it)
                return
        raise ValueError(vid)

    def op_state(self, vid, state):
        self.items[vid].state = State(state)

    def op_mode(self, vid, eid, mode):
        self.items[vid].set_effect_mode(eid, EffectMode(mode))

    def op_charge(self, vid, tid):
        self.items[vid].charge = None if tid is None else self.mk('charge', tid)

    def op_charge_existing(self, vid, cvid):
        self.items[vid].charge = self.items[cvid]

    def op_fleet_remove_from(self, fid, flid):
        """Remove a fit from a fleet it may not be a member of (raises KeyError then)."""
        if flid not in self.fleets:
            fl = Fleet()
            fl._vid = flid
            self.fleets[flid] = fl
        self.fleets[flid].fits.remove(self.fits[fid])

    def op_target(self, vid, tvid):
        self.items[vid].target = None if tvid is None else self.items[tvid]

    def op_level(self, vid, level):
        self.items[vid].level = level

    def op_source(self, idx):
        self.ss.source = self._source(idx)
        self.src = idx

    def op_fleet_join(self, fid, flid):
        if flid not in self.fleets:
            fl = Fleet()
            fl._vid = flid
            self.fleets[flid] = fl
        self.fleets[flid].fits.add(self.fits[fid])

    def op_fleet_leave(self, fid):
        f = self.fits[fid]
        f.fleet.fits.remove(f)

    def op_profile(self, fid, which, vals):
        setattr(self.fits[fid], which, None if vals is None else DmgProfile(*vals))

    def op_read(self, pairs):
        for vid, a in pairs:
            try:
                self.items[vid].attrs[a]
            except (KeyError, ZeroDivisionError):
                pass

    def op_read_all(self):
        self.observe()

    # -- public configuration -> model lines
    def snapshot_lines(self):
        out = ['C %d' % (0 if self.src is None else 1)]
        fits = self.ss_fits()
        live = {}
        for f in fits:
            for it in self.fit_items(f):
                live[id(it)] = it
        for f in fits:
            out.append('F %d %s %s %s' % (f._vid, opt(getattr(f.ship, '_vid', None)),
                                           opt(getattr(f.character, '_vid', None)),
                                           opt(getattr(f.fleet, '_vid', None))))
        effect_ids = set()
        for u in self.unis:
            effect_ids.update(u.ch.effects)
        for f in fits:
            for it in self.fit_items(f):
                if not hasattr(it, '_vid'):
                    raise C.InfraError('item without serial on a fit: %r' % it)
                parent = it._container if isinstance(it, Charge) else None
                tgt = getattr(it, 'target', None)
                tv = tgt._vid if (tgt is not None and id(tgt) in live) else None
                st = it.state
                out.append('I %d %d %d %d %d %s %s %s' % (
                    it._vid, KIND[type(it)], it._type_id, f._vid, 0 if st is None else int(st),
                    opt(getattr(parent, '_vid', None)), opt(tv),
                    C.q(it.level) if isinstance(it, Skill) else '-'))
                for eid in sorted(effect_ids):
                    m = it.get_effect_mode(eid)
                    if int(m) != 1:
                        out.append('IM %d %d' % (eid, int(m)))
        return out

    def query_attr_ids(self):
        ids = list(reversed(self.uni.order)) if self.uni is not None else []
        return ids + [a for a in (SKILL_LEVEL, 999999) if a not in ids]

    def observe(self):
        """Full public observation: {(vid, attr): value|'absent'|'divzero'}, {vid: sorted running ids}."""
        vals, run = {}, {}
        ids = self.query_attr_ids()
        for it in self.all_items():
            run[it._vid] = sorted(eid for eid, d in it.effects.items() if d.status)
            raw = sorted(it._running_effect_ids)
            if raw != run[it._vid]:
                run[it._vid] = ('inconsistent', raw, run[it._vid])
            for eid, ac in it.autocharges.items():
                run[(it._vid, 'autocharge', int(eid))] = (ac._type_id, sorted(int(e) for e in ac._running_effect_ids))
            for a in ids:
                try:
                    vals[(it._vid, a)] = it.attrs[a]
                except KeyError:
                    vals[(it._vid, a)] = 'absent'
                except ZeroDivisionError:
                    vals[(it._vid, a)] = 'divzero'
        return vals, run

    def peek_cache(self):
        """White-box: currently cached (item, attr) -> value, without reading anything."""
        out = {}
        for it in self.all_items():
            for a, v in it.attrs._MutableAttrMap__modified_attrs.items():
                out[(it._vid, a)] = v
        return out


def parse_model(lines):
    """Driver output of one `Q` -> (vals, run)."""
    vals, run = {}, {}
    for ln in lines:
        p = ln.split(' ')
        if p[0] == 'W':
            if p[3] not in ('absent', 'divzero', 'notwf'):
                vals[('unrounded', int(p[1]), int(p[2]))] = C.unq(p[3])
        elif p[0] == 'R':
            run[int(p[1])] = sorted(int(x) for x in p[2].split(',') if x) if len(p) > 2 else []
        elif p[0] == 'V':
            v = p[3]
            vals[(int(p[1]), int(p[2]))] = v if v in ('absent', 'divzero', 'notwf') else C.unq(v)
        elif p[0] != '.':
            raise C.InfraError('model said: ' + ln)
    return vals, run


def same_value(model, impl, unrounded=None):
    """Model (exact) vs impl (float).  `unrounded` is the model's exact pre-rounding value of a
    limited-precision attribute: within 1e-7 of a rounding tie the neighbouring value is accepted too
    (returns 'fragile')."""
    if isinstance(model, str) or isinstance(impl, str):
        return model == impl
    if C.close(float(model), impl):
        return True
    if unrounded is not None:
        y = float(unrounded) * 100
        if abs(abs(y - round(y)) - 0.5) < 1e-7 and abs(float(model) - impl) < 0.0100001:
            return 'fragile'
    return False


# ------------------------------------------------------------------ op generation
class OpGen:
    """Mostly-valid ops chosen from the current world, a malformed stream at a fixed ratio.

    avoid_k1: keep histories outside the class of known finding K1 (DESIGN 8): targets are only set
    on loaded items of this solar system and are cleared before their item is unloaded; ships are not
    loaded/unloaded while a fleet-boost effect is running anywhere in the solar system."""

    def __init__(self, rnd, p):
        self.rnd = rnd
        self.p = p
        self.avoid_k1 = p.get('avoid_k1', True)
        self.malformed = p.get('malformed', 0.08)
        self.max_fits = p.get('nfits', 2)
        self.k1_entered = False

    # helpers
    def _buff_running(self, w):
        for it in w.all_items():
            for eid in it._running_effect_ids:
                if isinstance(it._type_effects.get(eid), WarfareBuffEffect):
                    return True
        return False

    def _fleet_shared(self, w):
        """Some fit shares a fleet with another fit (then a boost reaches ships of other fits, and the load order of a
        source switch decides what the known finding K1 lets through)."""
        return any(ft.fleet is not None and len(ft.fleet.fits) > 1 for ft in w.ss_fits())

    def _booster_present(self, w):
        """Some item's type carries a fleet-boost effect in one of the universes (it may start running when a source
        is set, before the ships of fleet mates load - class K1)."""
        if not hasattr(self, '_buff_type_ids'):
            self._buff_type_ids = {tid for uu in w.unis for tid, t in uu.ch.types.items()
                                   if any(isinstance(e, WarfareBuffEffect) for e in t.effects.values())}
        return any(it._type_id in self._buff_type_ids for it in w.all_items())

    def _switch_ok(self, w):
        """A source switch reloads every item fit by fit: with a booster in a shared fleet the outcome depends on the
        load order (K1); boosts that reach only the booster's own ship are fine."""
        return not (self.avoid_k1 and self._fleet_shared(w) and (self._booster_present(w) or self._buff_running(w)))

    def _untarget(self, w, doomed):
        """Ops clearing every target that points into `doomed` (set of python ids)."""
        pre = []
        for it in w.all_items():
            t = getattr(it, 'target', None)
            if t is not None and id(t) in doomed:
                pre.append(('target', it._vid, None))
        return pre

    def _item_filter_projector(self, w, it):
        """Could `it` (under any of the world's sources) carry a projectable effect with an item-filter
        modifier?  Only those record their target at application time (K1); location-filtered projections are
        keyed by the target's fit and survive an unload / reload of the target."""
        for u in w.unis:
            t = u.ch.types.get(it._type_id)
            if t is None:
                continue
            for e in t.effects.values():
                if e.category_id == EffectCategoryId.target and any(
                        m.affectee_domain == ModDomain.target and m.affectee_filter == ModAffecteeFilter.item
                        for m in e.modifiers):
                    return True
        return False

    def _untarget_reload(self, w):
        """Pre-ops for an op that unloads and reloads items in place (source switch): only projectors with
        item-filter projected modifiers have to let go of their targets."""
        pre = []
        for it in w.all_items():
            if getattr(it, 'target', None) is not None and self._item_filter_projector(w, it):
                pre.append(('target', it._vid, None))
        return pre

    def _subtree(self, it):
        return {id(it)} | {id(c) for c in it._child_item_iter(skip_autoitems=True)}

    def next(self, w):
        """Return a list of ops (pre-ops needed to stay outside K1, then the op itself)."""
        rnd = self.rnd
        fits = w.ss_fits()
        if not fits:
            return [('add_fit',)]
        if self.p.get('prefill') and not getattr(self, '_prefilled', False):
            # start from a populated world: every fit gets a ship and a few active modules
            self._prefilled = True
            anyu0 = w.uni or w.unis[0]
            ops = [('add_fit',)] * (self.max_fits - len(fits))
            nfit = self.max_fits
            vids = [f._vid for f in fits]
            nxt = max(list(w.fits) + list(w.items) + [0])
            for k in range(self.max_fits - len(fits)):
                vids.append(nxt + 1 + 2 * k)
            for fv in vids:
                ops.append(('set_single', fv, 'ship', 'ship', rnd.choice(anyu0.types['ship'])))
                for _ in range(2):
                    kind = rnd.choice(['mh', 'mm'])
                    ops.append(('rack', fv, RACKS[kind], 'equip', 0, kind, rnd.choice(anyu0.types[kind]), 3, None))
                ops.append(('add', fv, 'rig', rnd.choice(anyu0.types['rig']), 1, 0))
                if anyu0.types.get('mh_buff') and self.p.get('fleet_bias'):
                    # a running fleet booster on every fit, and the skills that change its buff attributes
                    ops.append(('rack', fv, 'high', 'equip', 0, 'mh', rnd.choice(anyu0.types['mh_buff']), 3, None))
                    ops.append(('add', fv, 'skill', rnd.choice(anyu0.skill_types), 1, rnd.randint(0, 5)))
                if getattr(anyu0, 'pymods', False):
                    for _ in range(2):
                        ops.append(('rack', fv, 'mid', 'equip', 0, 'mm', rnd.choice(anyu0.types['mm_py']), 3, 28668))
                    # a module that carries an autocharge, below the state its autocharge's effects need
                    ops.append(('rack', fv, 'high', 'equip', 0, 'mh', rnd.choice([9111, 9112]), rnd.choice([1, 2]), None))
            return ops
        if self.p.get('prefill') and self.p.get('proj_bias') and not getattr(self, '_pretargeted', False):
            # ... and every prefilled projector aims at a ship of another fit
            self._pretargeted = True
            ops = []
            ships = [x for x in w.all_items() if type(x) is Ship and x._is_loaded]
            for it in w.all_items():
                if hasattr(it, 'target') and it.target is None and any(
                        e.category_id == EffectCategoryId.target for e in it._type_effects.values()):
                    tg = [x for x in ships if x._fit is not it._fit] or ships
                    if tg:
                        ops.append(('target', it._vid, rnd.choice(tg)._vid))
            if ops:
                return ops
        if rnd.random() < self.malformed:
            op = self._malformed(w)
            if op:
                return [op]
        u = w.uni
        items = w.all_items()
        f = rnd.choice(fits)
        anyu = u or w.unis[0]
        ship_ok = not (self.avoid_k1 and self._buff_running(w))
        mods = [i for i in items if type(i) in (ModuleHigh, ModuleMid, ModuleLow)]
        projectors = [i for i in items if hasattr(i, 'target') and any(
            e.category_id == EffectCategoryId.target for e in i._type_effects.values())]

        def tid(kind):
            src = rnd.choice(w.unis) if rnd.random() < 0.15 else anyu
            return rnd.choice(src.types[kind])
        weights = {
            'add_fit': 3 if len(fits) < self.max_fits and len(w.fits) < self.max_fits + 1 else 0,
            'remove_fit': 1 if len(fits) > 1 and (ship_ok or f.fleet is None) else 0,
            'readd_fit': 2 if any(ft.solar_system is None and (ship_ok or ft.fleet is None)
                                  for ft in w.fits.values()) else 0,
            'ship': 6 if ship_ok else 0,
            'single': 3,
            'add': 12,
            'rack': 14,
            'remove': 6 if items else 0,
            'rack_remove': 5 if mods else 0,
            'state': 10 if items else 0,
            'mode': 6 if items else 0,
            'charge': 4 if mods else 0,
            'target': 10 if projectors or items else 0,
            'level': self.p.get('level_weight', 3),
            'source': self.p.get('switch_weight', 2) if self._switch_ok(w) and self.p.get('switch', True) else 0,
            'fleet': self.p.get('fleet_weight', 4) if any(uu.fleet for uu in w.unis) else 0,
            'profile': 1,
            'read': 6,
            'read_all': 1,
        }
        kinds = [k for k, v in weights.items() if v > 0]
        k = rnd.choices(kinds, [weights[x] for x in kinds])[0]
        if k == 'add_fit':
            return [('add_fit',)]
        if k == 'remove_fit':
            doomed = {id(it) for it in w.fit_items(f)}
            pre = self._untarget(w, doomed) if self.avoid_k1 else []
            return pre + [('remove_fit', f._vid)]
        if k == 'readd_fit':
            return [('readd_fit', rnd.choice([fid for fid, ft in w.fits.items()
                                              if ft.solar_system is None and (ship_ok or ft.fleet is None)]))]
        if k == 'ship':
            pre = []
            if f.ship is not None and self.avoid_k1:
                pre = self._untarget(w, self._subtree(f.ship))
            return pre + [('set_single', f._vid, 'ship', 'ship', None if rnd.random() < self.p.get('ship_none', 0.1) else tid('ship'))]
        if k == 'single':
            slot, kind = rnd.choice([('stance', 'stance'), ('effect_beacon', 'beacon'), ('character', 'character')])
            return [('set_single', f._vid, slot, kind, None if rnd.random() < 0.3 else tid(kind))]
        if k == 'add':
            kind = rnd.choice(['skill', 'skill', 'implant', 'booster', 'subsystem', 'rig', 'drone', 'drone', 'fighter'])
            return [('add', f._vid, kind, tid(kind), rnd.choice([1, 2, 3, 3, 4]), rnd.randint(0, 5))]
        if k == 'rack':
            kind = rnd.choice(['mh', 'mh', 'mm', 'ml'])
            meth = rnd.choice(['append', 'equip', 'equip', 'place', 'insert'])
            n = len(getattr(f.modules, RACKS[kind]))
            idx = rnd.randint(0, n + 2) if meth in ('place', 'insert') else 0
            ch = tid('charge') if rnd.random() < 0.35 else None
            return [('rack', f._vid, RACKS[kind], meth, idx, kind, tid(kind), rnd.choice([1, 2, 3, 3, 4]), ch)]
        if k == 'remove':
            cands = [i for i in items if type(i) in (Skill, Implant, Booster, Subsystem, Rig, Drone, FighterSquad)]
            if cands:
                it = rnd.choice(cands)
                pre = self._untarget(w, self._subtree(it)) if self.avoid_k1 else []
                return pre + [('remove', it._vid)]
        if k == 'rack_remove':
            it = rnd.choice(mods)
            pre = self._untarget(w, self._subtree(it)) if self.avoid_k1 else []
            return pre + [('rack_remove_item', it._vid, rnd.choice(['remove', 'free']))]
        if k == 'state':
            cands = [i for i in items if type(i) in (ModuleHigh, ModuleMid, ModuleLow, Drone, FighterSquad)]
            if cands:
                return [('state', rnd.choice(cands)._vid, rnd.choice([1, 2, 3, 3, 4]))]
        if k == 'mode':
            it = rnd.choice(items)
            eids = list(it._type_effects) or list(anyu.ch.effects)
            return [('mode', it._vid, rnd.choice(eids), rnd.randint(1, 4))]
        if k == 'charge':
            it = rnd.choice(mods)
            pre = []
            if it.charge is not None and self.avoid_k1:
                pre = self._untarget(w, {id(it.charge)})
            return pre + [('charge', it._vid, None if rnd.random() < 0.3 else tid('charge'))]
        if k == 'target':
            srcs = projectors if projectors and rnd.random() < 0.85 else [i for i in items if hasattr(i, 'target')]
            if srcs:
                it = rnd.choice(srcs)
                tg = [x for x in items if type(x) in (Ship, Drone, FighterSquad) and x is not it
                      and (x._is_loaded or not self.avoid_k1)]
                ships_elsewhere = [x for x in tg if type(x) is Ship and x._fit is not it._fit]
                if rnd.random() < 0.12 or not tg:
                    return [('target', it._vid, None)]
                if ships_elsewhere and rnd.random() < 0.6:
                    tg = ships_elsewhere
                ops = [('target', it._vid, rnd.choice(tg)._vid)]
                if type(it) is not Skill and getattr(it, 'state', 3) < 3 and rnd.random() < 0.7:
                    ops.append(('state', it._vid, rnd.choice([3, 4])))
                return ops
        if k == 'level':
            sk = [i for i in items if type(i) is Skill]
            if sk:
                return [('level', rnd.choice(sk)._vid, rnd.randint(0, 5))]
        if k == 'source':
            choices = [i for i in list(range(len(w.unis))) + [None] if i != w.src]
            if choices:
                pre = self._untarget_reload(w) if self.avoid_k1 else []
                return pre + [('source', rnd.choice(choices))]
        if k == 'fleet':
            if f.fleet is None:
                return [('fleet_join', f._vid, rnd.choice([901, 902]))]
            return [('fleet_leave', f._vid)]
        if k == 'profile':
            return [('profile', f._vid, rnd.choice(['default_incoming_dmg', 'rah_incoming_dmg']),
                     tuple(rnd.choice([0, 1, 25, 50]) for _ in range(4)))]
        if k == 'read_all':
            return [('read_all',)]
        ids = w.query_attr_ids()
        if items and ids:
            n = rnd.randint(1, 6)
            return [('read', tuple((rnd.choice(items)._vid, rnd.choice(ids)) for _ in range(n)))]
        return [('read_all',)]

    def _malformed(self, w):
        """A call that is expected to raise (wrong class, occupied slot, foreign / own item, bad index)."""
        rnd = self.rnd
        fits = w.ss_fits()
        f = rnd.choice(fits)
        items = w.all_items()
        k = rnd.randrange(9)
        mods = [i for i in items if type(i) is ModuleHigh]
        if k == 7:
            # a charge that sits in another module: rejected, the module's own charge is put back
            charged = [i for i in items if type(i) in (ModuleHigh, ModuleMid, ModuleLow) and i.charge is not None]
            if len(charged) >= 2:
                m1, m2 = rnd.sample(charged, 2)
                return ('charge_existing', m2._vid, m1.charge._vid)
        if k == 8 and f.fleet is not None:
            # leaving a fleet the fit is not in
            other = [x for x in (901, 902) if x != f.fleet._vid]
            return ('fleet_remove_from', f._vid, rnd.choice(other))
        if k == 0 and mods:
            return ('rack_existing', f._vid, 'high', rnd.choice(['append', 'equip', 'place', 'insert']),
                    rnd.randint(-3, 4), rnd.choice(mods)._vid)
        if k == 1 and mods:
            return ('rack_existing', f._vid, 'mid', 'append', 0, rnd.choice(mods)._vid)
        if k == 2:
            return ('rack_remove', f._vid, rnd.choice(['high', 'mid', 'low']), rnd.choice(['remove', 'free']),
                    rnd.randint(-4, 6))
        if k == 3:
            sk = [i for i in items if type(i) is Skill]
            if sk:
                return ('add', f._vid, 'skill', rnd.choice(sk)._type_id, 1, 1)
        if k == 4:
            ims = [i for i in items if type(i) in (Implant, Drone, Rig)]
            if ims:
                it = rnd.choice(ims)
                return ('add_existing', f._vid, {Implant: 'implants', Drone: 'drones', Rig: 'rigs'}[type(it)], it._vid)
        if k == 5:
            # a ship that already belongs to ANOTHER fit (re-assigning a fit's own ship is legal and reloads it)
            ships = [x.ship for x in fits if x.ship is not None and x is not f]
            # the failed assignment unloads and reloads f's current ship: K1 class if that ship is targeted/boosted
            safe = f.ship is None or not self.avoid_k1 or (
                not self._untarget(w, self._subtree(f.ship)) and not self._buff_running(w))
            if ships and safe:
                return ('set_single_existing', f._vid, 'ship', rnd.choice(ships)._vid)
        if k == 6 and items:
            return ('add_existing', f._vid, 'drones', rnd.choice(items)._vid)
        return None


# ------------------------------------------------------------------ mirror world (impl-level oracle)
def rebuild(w):
    """Build the current public configuration from scratch in a fresh solar system (canonical call
    order: fits, fleets, ships, then everything else, states and modes at construction, targets last).
    Returns (new World, {old vid: new item})."""
    n = World(w.unis, w.src)
    m = {}
    nf = {}

    def clone(it):
        cls = type(it)
        if cls is Skill:
            c = Skill(it._type_id, level=it.level)
        elif cls in (ModuleHigh, ModuleMid, ModuleLow):
            c = cls(it._type_id, state=it.state)
            if it.charge is not None:
                c.charge = clone(it.charge)
        elif cls in (Drone, FighterSquad):
            c = cls(it._type_id, state=it.state)
        else:
            c = cls(it._type_id)
        c._vid = it._vid
        n.items[it._vid] = c
        m[it._vid] = c
        eids = {-1, -2}          # eos-specific effects added by type customisation
        eids.update(it._type_effects)
        for u in w.unis:
            eids.update(u.ch.effects)
            t = u.ch.types.get(it._type_id)
            if t is not None:
                eids.update(t.effects)
        for eid in sorted(eids):
            mode = it.get_effect_mode(eid)
            if int(mode) != 1:
                c.set_effect_mode(eid, mode)
        return c
    for f in w.ss_fits():
        g = Fit(solar_system=n.ss)
        g._vid = f._vid
        n.fits[f._vid] = g
        g.character = None
        nf[f._vid] = g
    for f in w.ss_fits():
        if f.fleet is not None:
            n.op_fleet_join(f._vid, f.fleet._vid)
    for f in w.ss_fits():
        g = nf[f._vid]
        if f.ship is not None:
            g.ship = clone(f.ship)
    for f in w.ss_fits():
        g = nf[f._vid]
        if f.character is not None:
            g.character = clone(f.character)
        if f.stance is not None:
            g.stance = clone(f.stance)
        if f.effect_beacon is not None:
            g.effect_beacon = clone(f.effect_beacon)
        for coll in SET_KINDS.values():
            for it in sorted(getattr(f, coll), key=lambda i: i._vid):
                getattr(g, coll).add(clone(it))
        for rn in RACKS.values():
            for idx, it in enumerate(getattr(f.modules, rn)):
                if it is not None:
                    getattr(g.modules, rn).place(idx, clone(it))
        g.default_incoming_dmg = f.default_incoming_dmg
        g.rah_incoming_dmg = f.rah_incoming_dmg
    for it in w.all_items():
        t = getattr(it, 'target', None)
        if t is not None and getattr(t, '_vid', None) in m:
            m[it._vid].target = m[t._vid]
    return n, m


def coverage(w, dist):
    """Feature counters of the current world (call after a full observation: everything is cached)."""
    from eos.calculator.map import PENALIZABLE_OPERATORS, PENALTY_IMMUNE_CATEGORY_IDS
    calc = w.ss._calculator
    ids = w.query_attr_ids()
    u = w.uni
    for it in w.all_items():
        dist['items'] += 1
        if not it._is_loaded:
            dist['items_unloaded'] += 1
            continue
        for eid in it._running_effect_ids:
            e = it._type_effects[eid]
            dist['running_effects'] += 1
            if e.category_id == EffectCategoryId.target:
                t = getattr(it, 'target', None)
                dist['running_target_effects'] += 1
                if t is not None and t._is_loaded:
                    dist['running_target_effects_applied'] += 1
            if isinstance(e, WarfareBuffEffect):
                dist['running_buff_effects'] += 1
        if u is None:
            continue
        for a in ids:
            try:
                mods = calc.get_modifications(it, a)
            except Exception:
                continue
            if not mods:
                continue
            dist['attr_with_mods'] += 1
            try:
                at = u.ch.get_attr(a)
            except Exception:
                continue
            pen = {}
            for op, val, res, agg, key, aff in mods:
                if res != 1:
                    dist['mods_resisted'] += 1
                if int(agg) != 1:
                    dist['mods_aggregated'] += 1
                if aff is not it and aff._fit is not it._fit:
                    dist['mods_cross_fit'] += 1
                if not at.stackable and aff._type.category_id not in PENALTY_IMMUNE_CATEGORY_IDS \
                        and op in PENALIZABLE_OPERATORS:
                    pen[op] = pen.get(op, 0) + 1
            if any(v >= 2 for v in pen.values()):
                dist['penalised_chain_ge2'] += 1
            if at.max_attr_id is not None:
                try:
                    if it.attrs[a] == it.attrs[at.max_attr_id]:
                        dist['cap_hit'] += 1
                except (KeyError, ZeroDivisionError):
                    pass


def observe_stats(w):
    """Public statistics and validation verdict of every fit (values or exception class names)."""
    out = {}

    def put(key, f):
        try:
            v = f()
        except ValidationError as e:
            v = ('ValidationError', sorted((getattr(i, '_vid', None), sorted(int(r) for r in d))
                                           for i, d in e.data.items()))
        except DOCUMENTED as e:
            v = type(e).__name__
        except ZeroDivisionError:
            v = 'ZeroDivisionError'
        out[key] = v
    for f in w.ss_fits():
        s = f.stats
        for name in ('cpu', 'powergrid', 'calibration', 'dronebay', 'drone_bandwidth'):
            put((f._vid, name), lambda n=name: (getattr(s, n).used, getattr(s, n).output))
        for name in ('high_slots', 'mid_slots', 'low_slots', 'rig_slots', 'subsystem_slots', 'turret_slots',
                     'launcher_slots', 'launched_drones'):
            put((f._vid, name), lambda n=name: (getattr(s, n).used, getattr(s, n).total))
        put((f._vid, 'hp'), lambda: tuple(s.hp))
        put((f._vid, 'ehp'), lambda: tuple(s.get_ehp(f.default_incoming_dmg)))
        put((f._vid, 'worst_ehp'), lambda: tuple(s.worst_case_ehp))
        put((f._vid, 'dps'), lambda: tuple(s.get_dps()))
        put((f._vid, 'volley'), lambda: tuple(s.get_volley()))
        put((f._vid, 'validate'), lambda: f.validate())
    return out


def flat_equal(a, b):
    """Structural comparison with float tolerance."""
    if isinstance(a, (tuple, list)) and isinstance(b, (tuple, list)):
        return len(a) == len(b) and all(flat_equal(x, y) for x, y in zip(a, b))
    if isinstance(a, (int, float)) and isinstance(b, (int, float)) and not isinstance(a, bool):
        return C.close(a, b)
    return a == b
