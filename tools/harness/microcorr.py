"""Cache-level correspondence of the message-level model (lean/EosModel/WorldMicro.lean).

A spy subscriber on every fit records the loaded-item messages of the real code in delivery order, each
with the public configuration at that moment; the same stream (plus the public reads) drives the Lean model
of the calculation service's handlers, and after every public call the *set of cached (item, attribute)
entries and their values* must coincide on both sides.  This ties the model whose invariants are proved in
EosProofs/Props/C01World.lean to eos/calculator/service.py, map.py, affection.py, projection.py.
"""
import random

import common as C
from harness import world as W
from harness import worldcorr as WC

C.load_repo()

from eos.calculator.service import WARFARE_BUFF_ATTRS  # noqa: E402
from eos.eve_obj.effect.warfare_buff.base import WarfareBuffEffect  # noqa: E402
from eos.pubsub.message import (AttrsValueChanged, EffectApplied, EffectUnapplied, EffectsStarted, EffectsStopped, ItemLoaded,  # noqa: E402
                                ItemUnloaded)

TYPES = (ItemLoaded, ItemUnloaded, EffectsStarted, EffectsStopped, EffectApplied, EffectUnapplied)


class Spy:
    """Records every message the calculation service is notified of, in the order it handles them (the service's
    own `_notify` is wrapped, so messages it publishes from inside a handler are seen nested, with their depth)."""

    def __init__(self, world):
        self.w = world
        self.events = []
        self.depth = 0
        self.last_bs = {}
        self.buffs_after = []
        calc = world.ss._calculator
        self.calc = calc
        inner = calc._notify

        def notify(msg):
            self.record(msg)
            self.depth += 1
            try:
                inner(msg)
            finally:
                self.depth -= 1
        calc._notify = notify

    def buff_lines(self):
        """`BS` lines for projectors whose registered warfare-buff modifiers changed since last reported."""
        reg = self.calc._CalculationService__warfare_buffs
        now = {}
        for projector, specs in reg.items():
            vid = getattr(projector.item, '_vid', None)
            if vid is None:
                continue
            ms = sorted('%d,%d,%s,%d,%d,%d,%s,%d' % (
                int(m.affectee_filter), int(m.affectee_domain), W.opt(m.affectee_filter_extra_arg), m.affectee_attr_id,
                int(m.operator), int(m.aggregate_mode), W.opt(m.aggregate_key), m.affector_attr_id)
                for m in (sp.modifier for sp in specs))
            now[(vid, int(projector.effect.id))] = ';'.join(ms) or '-'
        out = []
        for key in sorted(set(now) | set(self.last_bs)):
            cur = now.get(key, '-')
            if self.last_bs.get(key, '-') != cur:
                out.append('BS %d %d %s' % (key[0], key[1], cur))
                self.last_bs[key] = cur
        return out

    def record(self, msg):
        w = self.w
        t = type(msg)
        if t is AttrsValueChanged:
            # the service re-reads the buff id attributes of running boost effects whose buff attributes changed
            reads = []
            for it, attr_ids in msg.attr_changes.items():
                if not attr_ids.intersection(WARFARE_BUFF_ATTRS) or getattr(it, '_vid', None) is None:
                    continue
                if any(isinstance(it._type_effects[e], WarfareBuffEffect) for e in it._running_effect_ids):
                    reads.append((it._vid, ['MR %d %d' % (it._vid, int(a)) for a in WARFARE_BUFF_ATTRS]))
            if self.depth == 0:
                # not raised by the service's own cascade: an override changed (skill level)
                for it, attr_ids in msg.attr_changes.items():
                    for a in sorted(attr_ids):
                        self.events.append({'line': 'MC %d %d' % (it._vid, int(a)), 'pre': [], 'post': [],
                                            'src': w.src_now(), 'snap': w.snapshot_lines(), 'depth': 0, 'kind': 'MC',
                                            'key': None})
            if reads:
                self.events.append({'line': None, 'pre': [], 'post': [], 'src': w.src_now(), 'snap': w.snapshot_lines(),
                                    'depth': self.depth, 'kind': 'RV', 'key': None, 'reads': reads})
            return
        if t not in TYPES:
            return
        it = msg.item
        vid = getattr(it, '_vid', None)
        if vid is None:
            raise C.InfraError('message for an item without serial: %r' % (it,))
        key = None
        post = []
        if t is ItemLoaded:
            line = 'ML %d' % vid
        elif t is ItemUnloaded:
            line = 'MU %d' % vid
        elif t is EffectsStarted:
            line = 'MS %d %s' % (vid, ','.join(str(int(e)) for e in sorted(msg.effect_ids)))
            # the handler reads the buff id attributes of every started boost effect
            for e in msg.effect_ids:
                if isinstance(it._type_effects[e], WarfareBuffEffect):
                    post.extend('MR %d %d' % (vid, int(a)) for a in WARFARE_BUFF_ATTRS)
        elif t is EffectsStopped:
            line = 'MT %d %s' % (vid, ','.join(str(int(e)) for e in sorted(msg.effect_ids)))
            key = (vid, set(int(e) for e in msg.effect_ids))
        else:
            # a fleet mate without a ship is announced as target `None` by the fleet handlers: not an item, nothing to record
            tg = [getattr(x, '_vid', None) for x in msg.tgt_items if x is not None]
            if any(v is None for v in tg):
                raise C.InfraError('message names a target without serial: %r' % (msg.tgt_items,))
            line = '%s %d %d %s' % ('MA' if t is EffectApplied else 'MN', vid, int(msg.effect_id),
                                    ','.join(map(str, tg)) or '-')
            key = (vid, int(msg.effect_id))
        ev = {'line': line, 'pre': self.buff_lines(), 'post': post, 'src': w.src_now(), 'snap': w.snapshot_lines(),
              'depth': self.depth, 'kind': line[:2], 'key': key}
        self.events.append(ev)

    def ordered(self):
        """The service un-applies the warfare buffs of stopping effects from inside its `EffectsStopped` handler,
        before it drops the effect's local specs; in the model that is `unapply` followed by `stop`."""
        evs = list(self.events)
        k = 0
        while k < len(evs):
            e = evs[k]
            if e['kind'] == 'MT':
                j = k + 1
                while (j < len(evs) and evs[j]['depth'] == e['depth'] + 1 and evs[j]['kind'] == 'MN'
                       and evs[j]['key'][0] == e['key'][0] and evs[j]['key'][1] in e['key'][1]):
                    j += 1
                if j > k + 1:
                    evs[k:j] = evs[k + 1:j] + [e]
                    k = j
                    continue
            k += 1
        # re-reads of buff id attributes happen after the nested cascade, before the re-application
        k = 0
        while k < len(evs):
            e = evs[k]
            if e['kind'] == 'RV' and e.get('reads'):
                end = k + 1
                while end < len(evs) and evs[end]['depth'] > e['depth']:
                    end += 1
                for vid, rl in e['reads']:
                    pos = end
                    for j in range(k + 1, end):
                        if evs[j]['kind'] == 'MA' and evs[j]['depth'] == e['depth'] + 1 and evs[j]['key'][0] == vid:
                            pos = j
                            break
                    evs.insert(pos, {'line': None, 'pre': [], 'post': rl, 'src': e['src'], 'snap': None,
                                     'depth': e['depth'] + 1, 'kind': 'RD', 'key': None})
                    end += 1
                e['reads'] = []
            k += 1
        return evs


def attach(w):
    spy = Spy(w)
    w.spy = spy
    from eos import Fit

    def op_add_fit():
        # same public effect as Fit(solar_system=ss), but the character has its serial before it loads
        f = Fit(solar_system=None)
        w.reg(f, w.fits)
        w.reg(f.character, w.items)
        w.ss.fits.add(f)
    w.op_add_fit = op_add_fit

    def src_now():
        s = w.ss.source
        if s is None:
            return None
        return int(s.alias[1:])
    w.src_now = src_now
    return spy


def run(seed, p, ops=None):
    """Execute a history; returns (ops, driver lines, [impl cache after each op], crash)."""
    rnd, w = WC.make_world(seed, p)
    spy = attach(w)
    run.last_spy = spy
    gen = W.OpGen(rnd, p)
    lines = ['X']
    cur_uni = 'unset'
    cur_snap = None
    impl = []
    done = []
    queue = list(ops) if ops is not None else None

    def emit_cfg(src, snap):
        nonlocal cur_uni, cur_snap
        if src != cur_uni:
            lines.extend(w.unis[src].lines() if src is not None else ['U'])
            cur_uni = src
        if snap != cur_snap:
            lines.extend(snap)
            lines.append('RC')
            cur_snap = snap
    while True:
        if queue is not None:
            if not queue:
                break
            batch = [queue.pop(0)]
        else:
            if len(done) >= p.get('nsteps', 30):
                break
            batch = gen.next(w)
        for op in batch:
            spy.events.clear()
            try:
                w.apply(op)
            except Exception as e:
                return done + [op], lines, impl, {'op': op, 'exc': type(e).__name__}
            done.append(op)
            for ev in spy.ordered():
                if ev['snap'] is not None and ev['line'] is not None:
                    emit_cfg(ev['src'], ev['snap'])
                lines.extend(ev['pre'])
                if ev['line'] is not None:
                    lines.append(ev['line'])
                lines.extend(ev['post'])
            emit_cfg(w.src_now(), w.snapshot_lines())
            lines.extend(spy.buff_lines())
            if op[0] == 'read':
                for vid, a in op[1]:
                    lines.append('MR %d %d' % (vid, a))
            elif op[0] == 'read_all':
                ids = w.query_attr_ids()
                for it in w.all_items():
                    for a in ids:
                        lines.append('MR %d %d' % (it._vid, a))
            lines.append('QK')
            impl.append(w.peek_cache())
            lines.append('QB')
            spy.buffs_after.append({k: v for k, v in spy.last_bs.items() if v != '-'})
    return done, lines, impl, None


def check(seed, p, ops=None):
    """Returns (ops, disagreement or None, stats)."""
    done, lines, impl, crash = run(seed, p, ops)
    if crash:
        return done, {'where': 'micro:impl-crash', 'detail': crash}, {}
    out = C.run_driver('drv_micro', '\n'.join(lines) + '\n')
    buffs_impl = run.last_spy.buffs_after
    answers, banswers, cur, curb = [], [], {}, {}
    in_b = False
    illegal = []
    divzero_at = []
    for ln in out:
        if ln.startswith('illegal '):
            illegal.append((len(answers), ln[8:]))
        elif ln.startswith('unnamed '):
            # a message about an item / effect the configuration does not hold: outside `StepFin`, where the table twin
            # of the model is not proved equal to the model
            illegal.append((len(answers), 'StepFin ' + ln[8:]))
        elif ln == '.':
            if in_b:
                banswers.append(curb)
                curb = {}
            else:
                answers.append(cur)
                cur = {}
            in_b = not in_b
        elif ln == 'v divzero':
            divzero_at.append(len(answers))
        elif ln.startswith('K '):
            _, i, a, v = ln.split(' ')
            cur[(int(i), int(a))] = C.unq(v)
        elif ln.startswith('B '):
            _, i, e, ms = ln.split(' ')
            curb[(int(i), int(e))] = ms
        elif ln.startswith('T '):
            _, i, e, rec, spec = ln.split(' ')
            curb[('tgts', int(i), int(e))] = (rec, spec)
        elif ln.startswith('bad-op'):
            raise C.InfraError('micro driver: ' + ln)
    if len(answers) != len(impl) or len(banswers) != len(impl):
        raise C.InfraError('micro driver answered %d/%d of %d steps' % (len(answers), len(banswers), len(impl)))
    stats = {'steps': len(impl), 'cached_entries': sum(len(x) for x in impl)}
    # load / unload of an item that is a recorded target or still has running effects is the K1 class (and the
    # wholesale unloading of a source switch / fit removal): counted, the theorems do not cover those histories
    stats['steps_outside_stepok_load_unload'] = sum(1 for _, ln in illegal if ln[:2] in ('ML', 'MU'))
    illegal = [x for x in illegal if x[1][:2] not in ('ML', 'MU')]
    if illegal:
        # the real message stream broke the protocol the legality theorems assume (side conditions StepOK of
        # start / stop / apply / buffset: effects start and stop with no targets recorded, ...)
        k, ln = illegal[0]
        return done, {'where': 'L2:step-legality', 'step': k, 'op': done[min(k, len(done) - 1)], 'model': 'StepOK ' + ln,
                      'impl': 'message delivered in a state where StepOK is false', 'count': len(illegal)}, stats
    # a read that ends in a division by zero aborts half-way: which dependencies were calculated (and cached) before
    # the exception depends on the iteration order of the affector-spec sets, i.e. on memory addresses.  From the
    # first such read on, only the values of the entries both sides hold are compared (coherence), not the key sets.
    loose_from = min(divzero_at) if divzero_at else len(impl)
    stats['histories_with_divzero_read'] = int(bool(divzero_at))
    for k, (m, i) in enumerate(zip(answers, impl)):
        if k >= loose_from:
            for key in set(m) & set(i):
                if not C.close(float(m[key]), i[key]):
                    return done, {'where': 'L2:cache-values', 'step': k, 'op': done[k], 'key': key,
                                  'model': str(m[key]), 'impl': i[key]}, stats
            continue
        if set(m) != set(i):
            return done, {'where': 'L2:cache-keys', 'step': k, 'op': done[k],
                          'model_only': sorted(set(m) - set(i))[:5], 'impl_only': sorted(set(i) - set(m))[:5]}, stats
        for key, v in i.items():
            if not C.close(float(m[key]), v):
                return done, {'where': 'L2:cache-values', 'step': k, 'op': done[k], 'key': key,
                              'model': str(m[key]), 'impl': v}, stats
    # the registered warfare-buff modifiers (payload of the message-level model) against what the specification
    # derives from the buff id attributes and the templates
    for k, (mb, ib) in enumerate(zip(banswers, buffs_impl)):
        for key, ms in mb.items():
            if key[0] == 'tgts':
                stats['buff_target_sets_compared'] = stats.get('buff_target_sets_compared', 0) + 1
                # a boost without registered modifiers records no targets (nothing is applied for it)
                if ms[0] != ms[1] and mb.get(key[1:], '-') not in ('-', 'err'):
                    return done, {'where': 'L2:buff-targets', 'step': k, 'op': done[k], 'projector': key[1:],
                                  'model': ms[0], 'impl': ms[0], 'spec': ms[1]}, stats
                continue
            if ms == 'err':
                stats['buff_spec_err'] = stats.get('buff_spec_err', 0) + 1
                continue
            stats['buff_registrations_compared'] = stats.get('buff_registrations_compared', 0) + (ms != '-')
            if ib.get(key, '-') != ms:
                return done, {'where': 'L2:buff-registry', 'step': k, 'op': done[k], 'projector': key, 'spec': ms,
                              'impl': ib.get(key, '-')}, stats
        for key in ib:
            if key not in mb:
                return done, {'where': 'L2:buff-registry', 'step': k, 'op': done[k], 'projector': key,
                              'spec': 'no running boost', 'impl': ib[key]}, stats
    return done, None, stats
