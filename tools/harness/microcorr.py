"""Cache-level correspondence of the message-level model (lean/EosModel/WorldMicro.lean).

A spy subscriber on every fit records the loaded-item messages of the real code in delivery order, each
with the public configuration at that moment; the same stream (plus the public reads) drives the Lean model
of the calculation service's handlers, and after every public call the *set of cached (item, attribute)
entries and their values* must coincide on both sides.  This ties the model whose invariants are proved in
EosProofs/Props/C01World.lean to eos/calculator/service.py, map.py, affection.py, projection.py.
"""
import random

import common as C
from harness import world as W
from harness import worldcorr as WC

C.load_repo()

from eos.pubsub.message import (EffectApplied, EffectUnapplied, EffectsStarted, EffectsStopped, ItemLoaded,  # noqa: E402
                                ItemUnloaded)
from eos.pubsub.subscriber import BaseSubscriber  # noqa: E402

TYPES = (ItemLoaded, ItemUnloaded, EffectsStarted, EffectsStopped, EffectApplied, EffectUnapplied)


class Spy(BaseSubscriber):
    _handler_map = {}

    def __init__(self, world):
        self.w = world
        self.events = []

    def _notify(self, msg):
        w = self.w
        t = type(msg)
        it = msg.item
        vid = getattr(it, '_vid', None)
        if vid is None:
            raise C.InfraError('message for an item without serial: %r' % (it,))
        if t is ItemLoaded:
            line = 'ML %d' % vid
        elif t is ItemUnloaded:
            line = 'MU %d' % vid
        elif t is EffectsStarted:
            line = 'MS %d %s' % (vid, ','.join(str(int(e)) for e in sorted(msg.effect_ids)))
        elif t is EffectsStopped:
            line = 'MT %d %s' % (vid, ','.join(str(int(e)) for e in sorted(msg.effect_ids)))
        else:
            tg = [getattr(x, '_vid', None) for x in msg.tgt_items]
            if any(v is None for v in tg):
                return            # target outside the world (never generated)
            line = '%s %d %d %s' % ('MA' if t is EffectApplied else 'MN', vid, int(msg.effect_id),
                                    ','.join(map(str, tg)) or '-')
        self.events.append((line, w.src_now(), w.snapshot_lines()))


def attach(w):
    spy = Spy(w)
    w.spy = spy
    from eos import Fit

    def op_add_fit():
        # same public effect as Fit(solar_system=ss), but the spy is in place before the character loads
        f = Fit(solar_system=None)
        w.reg(f, w.fits)
        w.reg(f.character, w.items)
        f._subscribe(spy, TYPES)
        w.ss.fits.add(f)
    w.op_add_fit = op_add_fit

    def src_now():
        s = w.ss.source
        if s is None:
            return None
        return int(s.alias[1:])
    w.src_now = src_now
    return spy


def run(seed, p, ops=None):
    """Execute a history; returns (ops, driver lines, [impl cache after each op], crash)."""
    rnd, w = WC.make_world(seed, p)
    spy = attach(w)
    gen = W.OpGen(rnd, p)
    lines = ['X']
    cur_uni = 'unset'
    cur_snap = None
    impl = []
    done = []
    queue = list(ops) if ops is not None else None

    def emit_cfg(src, snap):
        nonlocal cur_uni, cur_snap
        if src != cur_uni:
            lines.extend(w.unis[src].lines() if src is not None else ['U'])
            cur_uni = src
        if snap != cur_snap:
            lines.extend(snap)
            lines.append('RC')
            cur_snap = snap
    while True:
        if queue is not None:
            if not queue:
                break
            batch = [queue.pop(0)]
        else:
            if len(done) >= p.get('nsteps', 30):
                break
            batch = gen.next(w)
        for op in batch:
            spy.events.clear()
            try:
                w.apply(op)
            except Exception as e:
                return done + [op], lines, impl, {'op': op, 'exc': type(e).__name__}
            done.append(op)
            for line, src, snap in spy.events:
                emit_cfg(src, snap)
                lines.append(line)
            emit_cfg(w.src_now(), w.snapshot_lines())
            if op[0] == 'level':
                lines.append('MC %d %d' % (op[1], W.SKILL_LEVEL))
            elif op[0] == 'read':
                for vid, a in op[1]:
                    lines.append('MR %d %d' % (vid, a))
            elif op[0] == 'read_all':
                ids = w.query_attr_ids()
                for it in w.all_items():
                    for a in ids:
                        lines.append('MR %d %d' % (it._vid, a))
            lines.append('QK')
            impl.append(w.peek_cache())
    return done, lines, impl, None


def check(seed, p, ops=None):
    """Returns (ops, disagreement or None, stats)."""
    done, lines, impl, crash = run(seed, p, ops)
    if crash:
        return done, {'where': 'micro:impl-crash', 'detail': crash}, {}
    out = C.run_driver('drv_micro', '\n'.join(lines) + '\n')
    answers, cur = [], {}
    for ln in out:
        if ln == '.':
            answers.append(cur)
            cur = {}
        elif ln.startswith('K '):
            _, i, a, v = ln.split(' ')
            cur[(int(i), int(a))] = C.unq(v)
        elif ln.startswith('bad-op'):
            raise C.InfraError('micro driver: ' + ln)
    if len(answers) != len(impl):
        raise C.InfraError('micro driver answered %d of %d steps' % (len(answers), len(impl)))
    stats = {'steps': len(impl), 'cached_entries': sum(len(x) for x in impl)}
    for k, (m, i) in enumerate(zip(answers, impl)):
        if set(m) != set(i):
            return done, {'where': 'L2:cache-keys', 'step': k, 'op': done[k],
                          'model_only': sorted(set(m) - set(i))[:5], 'impl_only': sorted(set(i) - set(m))[:5]}, stats
        for key, v in i.items():
            if not C.close(float(m[key]), v):
                return done, {'where': 'L2:cache-values', 'step': k, 'op': done[k], 'key': key,
                              'model': str(m[key]), 'impl': v}, stats
    return done, None, stats
