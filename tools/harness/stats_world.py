"""World used by property C04: a universe of damage dealers, repairers and resource users built through the
repo's own factories, replayable random histories over a real Fit (plus a second fit carrying remote
repairers), snapshots of the public configuration as driver lines, and the observation of `fit.stats.*`.

Everything random is derived from the `random.Random` handed in; a history is a list of plain op dicts,
so (universe seed, ops) replays exactly."""
import math

import common as C
from harness import mem

from eos import (Charge, Drone, FighterSquad, Fit, Implant, ModuleHigh, ModuleLow, ModuleMid, Rig, Ship,
                 SolarSystem, State, Subsystem, DmgProfile, ResistProfile)
from eos.const.eos import EffectMode
from eos.const.eve import AttrId, EffectCategoryId, EffectId, FighterAbilityId, TypeId
from eos.eve_obj.effect import Effect
from eos.eve_obj.effect.dmg_dealer.base import DmgDealerEffect
from eos.eve_obj.effect.repairs.base import (LocalArmorRepairEffect, LocalShieldRepairEffect,
                                             RemoteArmorRepairEffect, RemoteShieldRepairEffect)
from eos.eve_obj.type import AbilityData
from eos.pubsub.message import (EffectsStarted, EffectsStopped, ItemLoaded, ItemUnloaded, StatesActivated,
                                StatesActivatedLoaded, StatesDeactivated, StatesDeactivatedLoaded)
from eos.pubsub.subscriber import BaseSubscriber

A = AttrId
E = EffectId
CAT = EffectCategoryId
RES = [A.em_dmg_resonance, A.therm_dmg_resonance, A.kin_dmg_resonance, A.expl_dmg_resonance,
       A.armor_em_dmg_resonance, A.armor_therm_dmg_resonance, A.armor_kin_dmg_resonance, A.armor_expl_dmg_resonance,
       A.shield_em_dmg_resonance, A.shield_therm_dmg_resonance, A.shield_kin_dmg_resonance, A.shield_expl_dmg_resonance]
DMG = [A.em_dmg, A.therm_dmg, A.kin_dmg, A.expl_dmg]
SHIP_OUT = [A.cpu_output, A.power_output, A.upgrade_capacity, A.drone_capacity, A.drone_bandwidth]
SHIP_SLOTS = [A.hi_slots, A.med_slots, A.low_slots, A.rig_slots, A.max_subsystems, A.fighter_tubes,
              A.turret_slots_left, A.launcher_slots_left, A.fighter_support_slots, A.fighter_light_slots,
              A.fighter_heavy_slots]
FTR = [A.fighter_ability_attack_missile_dmg_em, A.fighter_ability_attack_missile_dmg_therm,
       A.fighter_ability_attack_missile_dmg_kin, A.fighter_ability_attack_missile_dmg_expl,
       A.fighter_ability_attack_missile_dmg_mult, A.fighter_ability_missiles_dmg_em,
       A.fighter_ability_missiles_dmg_therm, A.fighter_ability_missiles_dmg_kin, A.fighter_ability_missiles_dmg_expl,
       A.fighter_ability_missiles_dmg_mult, A.fighter_ability_kamikaze_dmg_em, A.fighter_ability_kamikaze_dmg_therm,
       A.fighter_ability_kamikaze_dmg_kin, A.fighter_ability_kamikaze_dmg_expl, A.fighter_squadron_max_size,
       A.fighter_squadron_is_support, A.fighter_squadron_is_light, A.fighter_squadron_is_heavy,
       A.fighter_ability_launch_bomb_type]
OTHER = [A.hp, A.armor_hp, A.shield_capacity, A.cpu, A.power, A.upgrade_cost, A.volume, A.capacity, A.charge_rate,
         A.reload_time, A.module_reactivation_delay, A.drone_bandwidth_used, A.dmg_mult, A.dmg_mult_bonus_max,
         A.max_active_drones, A.ammo_loaded, A.crystals_get_damaged, A.crystal_volatility_chance,
         A.crystal_volatility_dmg, A.armor_dmg_amount, A.shield_bonus, A.repair_mult_bonus_max, A.agility, A.mass]
CLS = {Ship: 'ship', ModuleHigh: 'modHigh', ModuleMid: 'modMid', ModuleLow: 'modLow', Rig: 'rig',
       Subsystem: 'subsystem', Drone: 'drone', FighterSquad: 'fighter', Charge: 'charge', Implant: 'implant'}
CONT = {'high': ModuleHigh, 'mid': ModuleMid, 'low': ModuleLow, 'rig': Rig, 'subsystem': Subsystem, 'drone': Drone,
        'fighter': FighterSquad, 'implant': Implant}
DD_KIND = {'EmpWave': 'ddSimple', 'DoomsdayDirect': 'ddSimple', 'UseMissiles': 'ddMissiles', 'ChainLightning': 'ddTurret',
           'ProjectileFired': 'ddTurret', 'TargetDisintegratorAttack': 'ddDisint', 'TargetAttack': 'ddTargetAttack',
           'FighterAbilityAttackM': 'ddFtrAttack:fighter_ability_attack_missile',
           'FighterAbilityMissiles': 'ddFtrAttack:fighter_ability_missiles',
           'FighterAbilityKamikaze': 'ddKamikaze', 'FighterAbilityLaunchBomb': 'ddBomb'}
FILTERS = ['all', 'odd', '!odd', 'cls=modHigh', '!cls=modHigh', 'cls=drone', '!cls=drone', 'cls=fighter', 'cls=charge',
           'st>=3', '!st>=3', 'st>=4', '!all']


def mrg(a, b):
    d = dict(a)
    d.update(b)
    return d


def aname(a):
    try:
        return AttrId(a).name
    except ValueError:
        return 'a%d' % a


def ename(e):
    try:
        return EffectId(e).name
    except ValueError:
        return 'e%d' % e


def eff_kind(e):
    """Which effect class the factory built (what the model calls EffKind)."""
    n = type(e).__name__
    if isinstance(e, DmgDealerEffect):
        return DD_KIND.get(n, 'unknown-dd:' + n)
    for cls, layer, remote in ((LocalArmorRepairEffect, 'armor', 0), (RemoteArmorRepairEffect, 'armor', 1),
                               (LocalShieldRepairEffect, 'shield', 0), (RemoteShieldRepairEffect, 'shield', 1)):
        if isinstance(e, cls):
            fueled = type(e).get_cycles_until_reload is not Effect.get_cycles_until_reload
            return 'rep:%s:%d:%d:%d' % (layer, remote, int(fueled), int('Mutadaptive' in n))
    return 'plain'


# ------------------------------------------------------------------ universe
class Universe:
    """Attributes, effects and item types for statistics, as two sources (B lacks some types, alters values)."""

    def __init__(self, rnd):
        self.rnd = rnd
        self.a = mem.MemCache()
        self.attr_ids = []
        for aid in RES + DMG + SHIP_OUT + SHIP_SLOTS + FTR + OTHER:
            self.a.mkattr(attr_id=aid, default_value=(0 if aid == A.module_reactivation_delay and rnd.random() < .5 else None))
            self.attr_ids.append(aid)
        self.dur = [self.a.mkattr().id for _ in range(3)]
        self.attr_ids += self.dur
        mk = self.a.mkeffect
        d = lambda: rnd.choice(self.dur + [None] if rnd.random() < .15 else self.dur)  # noqa: E731
        act = lambda: rnd.choice([CAT.active, CAT.target])  # noqa: E731
        self.fx = {
            'online': mk(effect_id=E.online, category_id=CAT.online),
            'rig_slot': mk(effect_id=E.rig_slot, category_id=CAT.passive),
            'turret_fitted': mk(effect_id=E.turret_fitted, category_id=CAT.passive),
            'launcher_fitted': mk(effect_id=E.launcher_fitted, category_id=CAT.passive),
            'missile_launching': mk(effect_id=E.missile_launching, category_id=rnd.choice([CAT.passive, CAT.active])),
            'fof_missile_launching': mk(effect_id=E.fof_missile_launching, category_id=CAT.passive),
            'bomb_launching': mk(effect_id=E.bomb_launching, category_id=CAT.passive),
            'plain': mk(category_id=CAT.passive),
            'plain_active': mk(category_id=CAT.active, duration_attr_id=self.dur[0]),
        }
        for name, eid, cat in (
                ('emp_wave', E.emp_wave, CAT.active), ('doomsday', E.super_weapon_amarr, act()),
                ('use_missiles', E.use_missiles, act()), ('projectile_fired', E.projectile_fired, act()),
                ('chain_lightning', E.chain_lightning, act()), ('disintegrator', E.target_disintegrator_attack, act()),
                ('target_attack', E.target_attack, act()),
                ('ftr_attack', E.fighter_ability_attack_m, act()), ('ftr_missiles', E.fighter_ability_missiles, act()),
                ('ftr_kamikaze', E.fighter_ability_kamikaze, act()), ('ftr_bomb', E.fighter_ability_launch_bomb, act()),
                ('armor_repair', E.armor_repair, CAT.active), ('fueled_armor_repair', E.fueled_armor_repair, CAT.active),
                ('shield_boosting', E.shield_boosting, CAT.active), ('fueled_shield_boosting', E.fueled_shield_boosting, CAT.active),
                ('remote_armor', E.ship_module_remote_armor_repairer, act()),
                ('anc_remote_armor', E.ship_module_ancillary_remote_armor_repairer, CAT.target),
                ('muta_remote_armor', E.ship_module_remote_armor_mutadaptive_repairer, CAT.target),
                ('npc_remote_armor', E.npc_entity_remote_armor_repairer, CAT.target),
                ('remote_shield', E.ship_module_remote_shield_booster, act()),
                ('anc_remote_shield', E.ship_module_ancillary_remote_shield_booster, CAT.target),
                ('npc_remote_shield', E.npc_entity_remote_shield_booster, CAT.target)):
            self.fx[name] = mk(effect_id=eid, category_id=cat, duration_attr_id=d())
        self.specs = {}          # type id -> spec dict
        self.by_kind = {}        # kind -> [type ids]
        self._types()
        self.b = mem.MemCache()
        self.b.attrs, self.b.effects = self.a.attrs, self.a.effects
        for tid, sp in self.specs.items():
            self._mk(self.a, tid, sp['attrs'], sp)
            if sp['kind'] in ('ship', 'character') or rnd.random() < .75:
                ids = (A.ammo_loaded, A.fighter_ability_launch_bomb_type)       # type references stay as they are
                attrs = {k: (self._jiggle(v) if k not in ids and rnd.random() < .3 else v)
                         for k, v in sp['attrs'].items() if k in ids or rnd.random() < .9}
                self._mk(self.b, tid, attrs, sp)

    def _jiggle(self, v):
        return self.rnd.choice([v, v * 2, v / 2, v + 1, 0])

    def _mk(self, ch, tid, attrs, sp):
        ch.mktype(type_id=tid, attrs=dict(attrs), effects=[self.fx[e] for e in sp['effects']],
                  default_effect=self.fx[sp['default']] if sp['default'] else None,
                  abilities_data={k: AbilityData(*v) for k, v in sp['abilities'].items()})

    def _add(self, kind, attrs, effects=(), default=None, abilities=None, tid=None):
        tid = tid or 5000 + len(self.specs)
        self.specs[tid] = {'kind': kind, 'attrs': {k: v for k, v in attrs.items() if v is not None},
                           'effects': list(effects), 'default': default, 'abilities': abilities or {}}
        self.by_kind.setdefault(kind, []).append(tid)
        return tid

    def _types(self):
        r = self.rnd
        ch = r.choice
        opt = lambda v, p=.15: None if r.random() < p else v  # noqa: E731
        hp = lambda: opt(ch([0, 100, 1500.5, 320, 87.25, 1e4]))  # noqa: E731
        res = lambda: opt(ch([1, 1, 0.5, 0.75, 0.9, 0.25, 0.6, 0.13, 0, 0]), .1)  # noqa: E731
        cyc = lambda: ch([1000, 2500, 4000, 500, 12000, 8000, 3000, 250, 6500, 1500, 2000, 30000, 750, 0])  # noqa: E731
        dmg = lambda: {a: opt(ch([0, 1.2, 2.4, 10, 4.8, 33.3, 7]), .25) for a in DMG}  # noqa: E731
        durs = lambda: {a: cyc() for a in self.dur if r.random() < .9}  # noqa: E731
        fit_use = lambda: {A.cpu: opt(ch([10, 12.345, 0.005, 33.33, 7.125, 50, 2.675])),  # noqa: E731
                           A.power: opt(ch([1, 100.005, 12.5, 0.015, 70, 8.335]))}
        delay = lambda: {A.module_reactivation_delay: opt(ch([0, 0, 3000, 10000, 500]), .4),  # noqa: E731
                         A.reload_time: opt(ch([10000, 5000, 0, 2000, 35000]), .2)}
        for _ in range(3):
            at = {a: res() for a in RES}
            if r.random() < .3:       # a layer with 100 % resist against something / everything (D15 boundary)
                for a in RES[4:8]:
                    at[a] = ch([0, 0, 0.5])
            at.update({A.hp: hp(), A.armor_hp: hp(), A.shield_capacity: hp()})
            at.update({a: opt(ch([100, 375.5, 1000, 50, 0])) for a in SHIP_OUT})
            at.update({a: opt(ch([0, 1, 2, 3, 3.0, 2.7, 5, 8, -1, 0.999])) for a in SHIP_SLOTS})
            at.update({A.agility: opt(ch([0.5, 3.25, 0.0315, 1])), A.mass: opt(ch([1200000, 10500000, 1e9, 0, 850000.5]))})
            self._add('ship', at, effects=['plain'])
        self._add('ship', {A.hp: ch([-5, 10]), A.armor_hp: 10, A.em_dmg_resonance: ch([1.5, -0.25, 1])}, effects=[])  # ValueError in ItemHP / ResistProfile
        self._add('character', {A.max_active_drones: ch([5, 5.0, 2, 0, 3.9])}, tid=int(TypeId.character_static))
        # charges
        ammo = [self._add('charge', mrg(dmg(), {A.volume: opt(ch([0.5, 1, 0.025, 2, 0.1]), .1)})) for _ in range(2)]
        missile = [self._add('charge', mrg(dmg(), {A.volume: ch([0.5, 1, 0.015, 3])}),
                             effects=[e], default=e) for e in ('missile_launching', 'fof_missile_launching', 'bomb_launching')]
        missile.append(self._add('charge', mrg(dmg(), {A.volume: 1}), effects=['plain'], default='plain'))
        crystal = [self._add('charge', mrg(dmg(), {
            A.volume: 1, A.crystals_get_damaged: opt(ch([1, 1, 0])), A.hp: opt(ch([1, 1, 0, 2]), .1),
            A.crystal_volatility_chance: opt(ch([0.1, 0.001, 0, 0.3]), .1),
            A.crystal_volatility_dmg: opt(ch([0.01, 0.025, 0, 1]), .1)})) for _ in range(2)]
        # a damageable crystal that survives a fractional number of cycles (1 / 0.025 / 0.3 = 133.3): with several of them
        # in the magazine the rounding must happen per crystal
        crystal.append(self._add('charge', mrg(dmg(), {A.volume: ch([1, 0.5]), A.crystals_get_damaged: 1, A.hp: 1,
                                                       A.crystal_volatility_chance: 0.3, A.crystal_volatility_dmg: 0.025})))
        fuel = [self._add('charge', {A.volume: ch([1, 4, 0.5])})]
        self.charges_for = {}
        # modules
        mag = lambda: {A.capacity: opt(ch([1, 2, 0.5, 10, 0.3, 3.0]), .1), A.charge_rate: opt(ch([1, 1, 2, 0, 3, 1.0]), .1)}  # noqa: E731
        mult = lambda: {A.dmg_mult: opt(ch([1, 2, 2.5, 0, 1.1])), A.dmg_mult_bonus_max: opt(ch([0.5, 1.5, 0]), .5)}  # noqa: E731

        def gun(rack, eff, extra, charges, fitted='turret_fitted', n=1):
            for _ in range(n):
                at = mrg(fit_use(), durs())
                at.update(delay())
                at.update(mag())
                at.update(extra())
                effs = [eff, 'online'] + ([fitted] if fitted and r.random() < .9 else []) + (['plain_active'] if r.random() < .3 else [])
                tid = self._add(rack, at, effects=effs, default=ch([eff, eff, eff, 'plain_active' if 'plain_active' in effs else eff]))
                self.charges_for[tid] = charges
        gun('high', 'projectile_fired', mult, ammo + missile[:1], n=2)
        gun('high', 'chain_lightning', mult, ammo)
        gun('high', 'disintegrator', mult, ammo)
        gun('high', 'use_missiles', dict, missile + ammo[:1], fitted='launcher_fitted', n=2)
        gun('high', 'target_attack', lambda: mrg(mult(), (dmg() if r.random() < .4 else {})), crystal + ammo, n=2)
        civ = self._add('charge', mrg(dmg(), {A.volume: 1}))      # autocharge of the civilian gun
        gun('high', 'target_attack', lambda: mrg(mult(), {A.ammo_loaded: ch([civ, 999999])}), crystal)
        gun('high', 'emp_wave', dmg, [], fitted=None)
        gun('high', 'doomsday', dmg, ammo[:1], fitted=None)
        self.remote_types = []
        for eff, amount in (('remote_armor', A.armor_dmg_amount), ('anc_remote_armor', A.armor_dmg_amount),
                            ('muta_remote_armor', A.armor_dmg_amount), ('npc_remote_armor', A.armor_dmg_amount),
                            ('remote_shield', A.shield_bonus), ('anc_remote_shield', A.shield_bonus),
                            ('npc_remote_shield', A.shield_bonus)):
            gun('high', eff, lambda: {amount: opt(ch([50, 120.5, 0, 8])), A.repair_mult_bonus_max: opt(ch([1, 0.5]), .5)},
                fuel, fitted=None)
            self.remote_types.append(self.by_kind['high'][-1])
        for rack, eff, amount in (('low', 'armor_repair', A.armor_dmg_amount), ('low', 'fueled_armor_repair', A.armor_dmg_amount),
                                  ('mid', 'shield_boosting', A.shield_bonus), ('mid', 'fueled_shield_boosting', A.shield_bonus)):
            gun(rack, eff, lambda: {amount: opt(ch([50, 120.5, 0, 8]))}, fuel, fitted=None, n=2)
        gun('mid', 'plain_active', dict, [], fitted=None)
        gun('low', 'plain_active', dict, [], fitted=None)
        for _ in range(2):
            self._add('rig', {A.upgrade_cost: opt(ch([100, 50, 0, 150.5]))}, effects=['rig_slot'] if r.random() < .85 else ['plain'])
        self._add('subsystem', {}, effects=['plain'])
        for _ in range(3):
            at = mrg(dmg(), durs())
            at.update({A.volume: opt(ch([5, 10, 25, 0.5])), A.drone_bandwidth_used: opt(ch([5, 10, 25, 12.5])),
                       A.dmg_mult: opt(ch([1, 1.5, 3])), A.hp: hp(), A.armor_dmg_amount: 10})
            effs = ['target_attack'] + (['armor_repair'] if r.random() < .3 else [])
            self._add('drone', at, effects=effs, default='target_attack')
        bomb = self._add('charge', mrg(dmg(), {A.volume: 1}), effects=['bomb_launching'], default='bomb_launching')
        for i in range(3):
            at = {a: opt(ch([0, 5, 12.5, 40, 1, 2]), .2) for a in FTR[:14]}
            at.update(durs())
            at.update({A.fighter_squadron_max_size: opt(ch([9, 6, 1, 12]), .1),
                       A.fighter_squadron_is_support: opt(ch([1, 0, 1.0]), .5), A.fighter_squadron_is_light: opt(ch([1, 0]), .4),
                       A.fighter_squadron_is_heavy: opt(ch([1, 0, 0.0]), .5),
                       A.fighter_ability_launch_bomb_type: opt(ch([bomb, bomb, 999998]), .3)})
            effs = r.sample(['ftr_attack', 'ftr_missiles', 'ftr_kamikaze', 'ftr_bomb'], r.randint(1, 4))
            ab = {}
            amap = {'ftr_attack': FighterAbilityId.autocannon, 'ftr_missiles': FighterAbilityId.heavy_rocket_salvo_em,
                    'ftr_kamikaze': FighterAbilityId.kamikaze, 'ftr_bomb': FighterAbilityId.launch_bomb}
            for e in effs:
                if r.random() < .9:
                    ab[int(amap[e])] = (ch([0, 4, 20, 1.5]), ch([0, 1, 3, 12, 0, 2]))
            self._add('fighter', at, effects=effs, default=ch(effs), abilities=ab)
        # an implant carrying a local repairer (runs under force_run; its solar-system carrier is None)
        self._add('implant', {A.armor_dmg_amount: 30, self.dur[0]: 2000}, effects=['plain', 'armor_repair'])
        self.types_absent = [999001, 999002]      # ids no source knows


# ------------------------------------------------------------------ message spy (white-box view of the registers)
class Spy(BaseSubscriber):
    """Records the messages the stat registers of a fit receive, as `msg` driver lines (facts read off the item at
    publication time, exactly what the real handlers can see)."""

    def __init__(self, world, fit):
        self.w = world
        self.lines = ['hist']
        fit._subscribe(self, self._handler_map.keys())
        # the character was added (and loaded) by Fit.__init__ before anybody could listen: replay its messages
        class M:
            item = fit.character
        states = [int(x) for x in State if x <= M.item.state]
        self._rec(1, M, ['state:%d' % x for x in states])
        if M.item._is_loaded:
            self._rec(1, M, ['loaded'])
            self._rec(1, M, ['stateLoaded:%d' % x for x in states])
            if M.item._running_effect_ids:
                self._rec(1, M, ['effect:%s' % ename(e) for e in sorted(M.item._running_effect_ids)])

    def _rec(self, on, msg, points):
        it = msg.item
        ta = it._type_attrs
        self.lines.append('msg %d %d %s P %s A %s T %s K %s' % (
            on, self.w.spy_id(it), CLS.get(type(it), 'character' if type(it).__name__ == 'Character' else 'autocharge'),
            ' '.join(points), ' '.join(aname(a) for a in ta), ' '.join(aname(a) for a, v in ta.items() if v),
            ' '.join('%s=%s' % (ename(e.id), eff_kind(e)) for e in it._type_effects.values())))

    _handler_map = {
        ItemLoaded: lambda self, m: self._rec(1, m, ['loaded']),
        ItemUnloaded: lambda self, m: self._rec(0, m, ['loaded']),
        StatesActivated: lambda self, m: self._rec(1, m, ['state:%d' % s for s in sorted(m.states)]),
        StatesDeactivated: lambda self, m: self._rec(0, m, ['state:%d' % s for s in sorted(m.states)]),
        StatesActivatedLoaded: lambda self, m: self._rec(1, m, ['stateLoaded:%d' % s for s in sorted(m.states)]),
        StatesDeactivatedLoaded: lambda self, m: self._rec(0, m, ['stateLoaded:%d' % s for s in sorted(m.states)]),
        EffectsStarted: lambda self, m: self._rec(1, m, ['effect:%s' % ename(e) for e in sorted(m.effect_ids)]),
        EffectsStopped: lambda self, m: self._rec(0, m, ['effect:%s' % ename(e) for e in sorted(m.effect_ids)])}

    def take(self):
        out, self.lines = self.lines, []
        return out


SET_REGS = (('CpuRegister', 'cpu'), ('PowergridRegister', 'powergrid'), ('CalibrationRegister', 'calibration'),
            ('DronebayVolumeRegister', 'dronebay'), ('DroneBandwidthRegister', 'drone_bandwidth'),
            ('TurretSlotRegister', 'turret_slots'), ('LauncherSlotRegister', 'launcher_slots'),
            ('LaunchedDroneRegister', 'launched_drones'), ('FighterSquadSupportRegister', 'fighter_squads_support'),
            ('FighterSquadLightRegister', 'fighter_squads_light'), ('FighterSquadHeavyRegister', 'fighter_squads_heavy'))


def register_contents(world):
    """{(register class, effect name or ''): sorted member ids} read from the private containers of fit 0."""
    st = world.fit.stats
    out = {}
    for name, attr in SET_REGS:
        out[(name, '')] = sorted(world.spy_id(i) for i in getattr(st, attr)._users)
    dd = getattr(getattr(st, '_StatService__dd_reg'), '_DmgDealerRegister__dmg_dealers')
    arm = getattr(getattr(st, '_StatService__armor_rep_reg'), '_ArmorRepairerRegister__local_repairers')
    shl = getattr(getattr(st, '_StatService__shield_rep_reg'), '_ShieldRepairerRegister__local_repairers')
    running = set()
    for it in world.fit._item_iter():
        running.update(it._running_effect_ids)
    for e in world.u.a.effects.values():
        n = ename(e.id)
        for reg, ids in (('DmgDealerRegister', sorted(world.spy_id(i) for i, es in dd.items() if e in es)),
                         ('ArmorRepairerRegister', sorted(world.spy_id(i) for i, x in arm if x is e)),
                         ('ShieldRepairerRegister', sorted(world.spy_id(i) for i, x in shl if x is e))):
            if ids or e.id in running:      # per-effect slices that can be non-empty on either side
                out[(reg, n)] = ids
    return out


# ------------------------------------------------------------------ world
class World:
    """Fit 0 is observed; fit 1 carries remote repairers which may target fit 0's ship."""

    def __init__(self, seed):
        self.seed = seed
        import random
        self.u = Universe(random.Random('u/%s' % (seed,)))
        self.src = {'A': mem.source(self.u.a, 'A'), 'B': mem.source(self.u.b, 'B'), None: None}
        self.ss = SolarSystem(source=self.src['A'])
        self.fit = Fit(solar_system=self.ss)
        self.fit2 = Fit(solar_system=self.ss)
        self.items = {}          # harness id -> item object (kept alive)
        self.ids = {}            # id(object) -> harness id
        self.next = 1
        self.extra = {}          # id(object) -> id of items the harness did not create (autocharges), for the spy
        self.register(self.fit.character)
        self.register(self.fit2.character)
        self.spy = Spy(self, self.fit)
        self.ships = []          # every ship ever assigned to fit 0 (possible targets)
        self.log = []

    def register(self, obj):
        hid = self.next
        self.next += 1
        self.items[hid] = obj
        self.ids[id(obj)] = hid
        return hid

    def hid(self, obj):
        return self.ids.get(id(obj))

    def spy_id(self, obj):
        h = self.ids.get(id(obj))
        if h is None:
            h = self.extra.get(id(obj))
            if h is None:
                h = self.extra[id(obj)] = 500000 + len(self.extra)
                self.items[h] = obj          # keep it alive so id() stays unique
        return h

    # ---- random op generation (mostly valid; `bad` ops are the malformed stream)
    def container(self, fit, name):
        return {'high': fit.modules.high, 'mid': fit.modules.mid, 'low': fit.modules.low, 'rig': fit.rigs,
                'subsystem': fit.subsystems, 'drone': fit.drones, 'fighter': fit.fighters, 'implant': fit.implants}[name]

    def present(self, fit=None):
        fit = fit or self.fit
        return [i for i in fit._item_iter(skip_autoitems=True) if self.hid(i) is not None and i is not fit.character]

    def prefill(self, rnd):
        """Opening ops of a history: a ship and a few active weapons, repairers, drones, a fighter squad, a rig."""
        u = self.u
        ops = [{'op': 'ship', 'type': rnd.choice(u.by_kind['ship'][:3])}]
        for cont, n in (('high', 3), ('mid', 1), ('low', 1), ('drone', 2), ('fighter', 2), ('rig', 1)):
            for _ in range(n):
                tid = rnd.choice(u.by_kind[cont])
                op = {'op': 'add', 'cont': cont, 'type': tid, 'state': rnd.choice([2, 3, 3, 3, 4]) if cont != 'rig' else None}
                if cont in ('high', 'mid', 'low'):
                    chs = u.charges_for.get(tid) or [None]
                    op.update(how='append', idx=0, charge=rnd.choice(chs))
                ops.append(op)
        for k in range(2):       # two remote repairers on the second fit, aimed at the ship (harness ids are deterministic)
            ops.append({'op': 'add2', 'type': rnd.choice(u.remote_types), 'state': rnd.choice([3, 3, 4]),
                        'charge': rnd.choice((u.charges_for.get(u.remote_types[0]) or [None]) + [None])})
        return ops

    def aim_all(self):
        """Op list aiming every remote repairer of the second fit at the current ship."""
        sh = self.fit.ship
        return [{'op': 'target', 'item': self.hid(i), 'ship': self.hid(sh)} for i in self.present(self.fit2)
                if sh is not None and self.hid(i) is not None]

    def gen_op(self, rnd):
        u = self.u
        pres = self.present()
        mods = [i for i in pres if isinstance(i, (ModuleHigh, ModuleMid, ModuleLow))]
        stateful = [i for i in pres if isinstance(i, (ModuleHigh, ModuleMid, ModuleLow, Drone, FighterSquad))]
        x = rnd.random()
        if rnd.random() < .08:
            return self.gen_bad(rnd, pres)
        if x < .30 or len(pres) < 4:
            cont = rnd.choice(['high'] * 5 + ['mid', 'low', 'low', 'rig', 'subsystem', 'drone', 'drone', 'fighter', 'fighter', 'implant', 'ship', 'ship'])
            if cont == 'ship':
                return {'op': 'ship', 'type': rnd.choice(u.by_kind['ship'][:3] * 4 + u.by_kind['ship'][3:] + u.types_absent + [None])}
            tid = rnd.choice(u.by_kind[cont] + (u.types_absent if rnd.random() < .1 else []))
            op = {'op': 'add', 'cont': cont, 'type': tid, 'state': rnd.choice([1, 2, 3, 3, 3, 4]) if cont not in ('rig', 'subsystem', 'implant') else None}
            if cont in ('high', 'mid', 'low'):
                op['how'] = rnd.choice(['append', 'append', 'equip', 'place'])
                op['idx'] = rnd.randrange(0, 7)
                chs = u.charges_for.get(tid) or []
                op['charge'] = rnd.choice(chs) if chs and rnd.random() < .8 else None
            return op
        if x < .40 and pres:
            it = rnd.choice(pres)
            how = rnd.choice(['remove', 'free']) if isinstance(it, (ModuleHigh, ModuleMid, ModuleLow)) else 'remove'
            return {'op': 'remove', 'item': self.hid(it), 'how': how}
        if x < .56 and stateful:
            return {'op': 'state', 'item': self.hid(rnd.choice(stateful)), 'state': rnd.choice([1, 2, 3, 4])}
        if x < .64 and pres:
            it = rnd.choice(stateful if stateful and rnd.random() < .7 else pres)
            effs = sorted(it._type_effects) or [int(E.online)]
            return {'op': 'mode', 'item': self.hid(it), 'effect': rnd.choice(effs), 'mode': int(rnd.choice(list(EffectMode)))}
        if x < .71 and mods:
            it = rnd.choice(mods)
            chs = u.charges_for.get(it._type_id) or []
            return {'op': 'charge', 'item': self.hid(it), 'type': rnd.choice(chs + [None] + (u.types_absent[:1] if rnd.random() < .2 else [])) if chs else None}
        if x < .78:
            return {'op': 'source', 'to': rnd.choice(['A', 'A', 'B', 'B', None])}
        if x < .81:
            return {'op': 'profile', 'p': rnd_profile(rnd)}
        if x < .86:
            fs = [i for i in pres if isinstance(i, FighterSquad) and i._is_loaded and i._type.abilities_data]
            if fs:
                it = rnd.choice(fs)
                return {'op': 'ability', 'item': self.hid(it), 'ability': rnd.choice(sorted(it._type.abilities_data)), 'on': rnd.random() < .6}
        # second fit: remote repairers
        mods2 = [i for i in self.present(self.fit2)]
        y = rnd.random()
        if (y < .3 and len(mods2) < 5) or not mods2:
            return {'op': 'add2', 'type': rnd.choice(u.remote_types), 'state': rnd.choice([1, 3, 3, 4]),
                    'charge': rnd.choice((u.charges_for.get(u.remote_types[0]) or [None]) + [None])}
        it = rnd.choice(mods2)
        if y < .75:
            cur = self.fit.ship
            tg = cur if cur is not None and rnd.random() < .8 else (rnd.choice(self.ships + [None]) if self.ships else None)
            return {'op': 'target', 'item': self.hid(it), 'ship': self.hid(tg) if tg is not None else None}
        if y < .9:
            return {'op': 'state', 'item': self.hid(it), 'state': rnd.choice([1, 3, 4])}
        return {'op': 'remove2', 'item': self.hid(it)}

    def gen_bad(self, rnd, pres):
        k = rnd.choice(['readd', 'remove_absent', 'wrong_class', 'taken', 'bad_profile', 'bad_state_obj'])
        if k == 'readd' and pres:
            return {'op': 'bad', 'kind': k, 'item': self.hid(rnd.choice(pres)), 'cont': rnd.choice(['high', 'drone', 'rig'])}
        if k == 'taken':
            return {'op': 'bad', 'kind': k, 'type': rnd.choice(self.u.by_kind['high']), 'idx': 0}
        if k == 'wrong_class':
            return {'op': 'bad', 'kind': k, 'type': rnd.choice(self.u.by_kind['drone']), 'cont': rnd.choice(['high', 'rig', 'fighter'])}
        if k == 'remove_absent':
            return {'op': 'bad', 'kind': k, 'type': rnd.choice(self.u.by_kind['drone'])}
        return {'op': 'bad', 'kind': 'bad_profile'}

    # ---- op application
    def apply(self, op):
        """Apply one op through the public API; return the exception class name or None."""
        try:
            self._apply(op)
            return None
        except Exception as e:   # the outcome class is part of the log; C04 only needs stats to stay consistent
            return type(e).__name__

    def _mk(self, cont, tid, state, charge=None):
        cls = CONT[cont]
        if cls in (Rig, Subsystem, Implant):
            it = cls(tid)
        elif cls in (Drone, FighterSquad):
            it = cls(tid, state=State(state))
        else:
            ch = None
            if charge is not None:
                ch = Charge(charge)
                self.register(ch)
            it = cls(tid, state=State(state), charge=ch)
        self.register(it)
        return it

    def _apply(self, op):
        k = op['op']
        fit = self.fit
        if k == 'ship':
            if op['type'] is None:
                fit.ship = None
            else:
                sh = Ship(op['type'])
                self.register(sh)
                self.ships.append(sh)
                fit.ship = sh
        elif k == 'add':
            it = self._mk(op['cont'], op['type'], op['state'] or 1, op.get('charge'))
            c = self.container(fit, op['cont'])
            if op['cont'] in ('high', 'mid', 'low'):
                if op['how'] == 'append':
                    c.append(it)
                elif op['how'] == 'equip':
                    c.equip(it)
                else:
                    c.place(op['idx'], it)
            else:
                c.add(it)
        elif k == 'add2':
            it = self._mk('high', op['type'], op['state'], op.get('charge'))
            self.fit2.modules.high.append(it)
        elif k == 'remove2':
            self.fit2.modules.high.remove(self.items[op['item']])
        elif k == 'remove':
            it = self.items[op['item']]
            if isinstance(it, Ship):
                fit.ship = None
            elif isinstance(it, Charge):
                it._container.charge = None
            else:
                c = self.container(fit, {v: k2 for k2, v in CONT.items()}[type(it)])
                (c.free if op.get('how') == 'free' else c.remove)(it)
        elif k == 'state':
            self.items[op['item']].state = State(op['state'])
        elif k == 'mode':
            self.items[op['item']].set_effect_mode(op['effect'], EffectMode(op['mode']))
        elif k == 'ability':
            self.items[op['item']].set_ability_status(op['ability'], op['on'])
        elif k == 'charge':
            it = self.items[op['item']]
            if op['type'] is None:
                it.charge = None
            else:
                ch = Charge(op['type'])
                self.register(ch)
                it.charge = ch
        elif k == 'source':
            self.ss.source = self.src[op['to']]
        elif k == 'profile':
            fit.default_incoming_dmg = DmgProfile(*op['p'])
        elif k == 'target':
            self.items[op['item']].target = self.items[op['ship']] if op['ship'] is not None else None
        elif k == 'bad':
            b = op['kind']
            if b == 'readd':
                c = self.container(fit, op['cont'])
                (c.append if op['cont'] == 'high' else c.add)(self.items[op['item']])
            elif b == 'taken':
                fit.modules.high.place(op['idx'], self._mk('high', op['type'], 1))
                fit.modules.high.place(op['idx'], self._mk('high', op['type'], 3))
            elif b == 'wrong_class':
                c = self.container(fit, op['cont'])
                (c.append if op['cont'] == 'high' else c.add)(self._mk('drone', op['type'], 2))
            elif b == 'remove_absent':
                fit.drones.remove(self._mk('drone', op['type'], 2))
            else:
                fit.default_incoming_dmg = (25, 25, 25, 25)
        else:
            raise C.InfraError('unknown op %r' % (op,))

    # ---- snapshot of the public configuration -> driver lines
    def snapshot(self):
        u = self.u
        lines = ['snap']
        for e in u.a.effects.values():
            lines.append('eff %s %s %d %s' % (ename(e.id), eff_kind(e), int(e.category_id == CAT.target),
                                              aname(e.duration_attr_id) if e.duration_attr_id is not None else '-'))
        for fi, hid, it in self.index():
            cls = CLS.get(type(it), 'character' if it is self.fit.character or it is self.fit2.character else 'autocharge')
            par = it._container if cls in ('charge', 'autocharge') else None
            tgt = getattr(it, 'target', None)
            chg = getattr(it, 'charge', None) if cls.startswith('mod') else None
            de = it._type_default_effect_id
            st = it.state
            lines.append('it %d %d %s %d %d %s %s %s %s' % (
                hid, fi, cls, int(it._is_loaded), int(st) if st is not None else 0,
                self._ref(par), self._ref(tgt), self._ref(chg), ename(de) if de is not None else '-'))
            ta = it._type_attrs
            lines.append('te %d %s' % (hid, ' '.join(ename(e) for e in it._type_effects)))
            lines.append('ru %d %s' % (hid, ' '.join(sorted(ename(e) for e in it._running_effect_ids))))
            lines.append('ta %d %s' % (hid, ' '.join(aname(a) for a in ta)))
            lines.append('tt %d %s' % (hid, ' '.join(aname(a) for a, v in ta.items() if v)))
            vals = []
            for a in u.attr_ids:
                v = it.attrs.get(a)
                if v is not None:
                    vals += [aname(a), C.q(v)]
            lines.append('av %d %s' % (hid, ' '.join(vals)))
            if it._is_loaded:
                for eid, ad in it._type.effects_data.items():
                    lines.append('ab %d %s %s %s' % (hid, ename(eid), C.q(ad.cooldown_time), C.q(ad.charge_quantity)))
            for eid, c in it.autocharges.items():
                lines.append('ac %d %s %d' % (hid, ename(eid), self.auto_ids[id(c)]))
        f = self.fit
        p = f.default_incoming_dmg
        lines.append('fit %s %s %d %d %d %s' % (
            self._ref(f.ship), self._ref(f.character), len(f.modules.high), len(f.modules.mid), len(f.modules.low),
            prof_txt(p) if p is not None else '-'))
        return [ln.rstrip() for ln in lines]

    def index(self):
        """(fit index, harness id, item) of every item; autocharges get ids derived from holder and effect."""
        self.auto_ids = {}
        seen = []
        for fi, fit in enumerate((self.fit, self.fit2)):
            for it in fit._item_iter(skip_autoitems=False):
                hid = self.hid(it)
                if hid is None:
                    par = it._container
                    k = sorted(par.autocharges).index([e for e, c in par.autocharges.items() if c is it][0])
                    hid = 100000 + self.hid(par) * 10 + k
                    self.auto_ids[id(it)] = hid
                seen.append((fi, hid, it))
        return seen

    def rebuild(self):
        """A fresh world holding the same public configuration (same harness ids), built from scratch."""
        m = World.__new__(World)
        m.seed, m.u, m.src = self.seed, self.u, self.src
        m.ss = SolarSystem(source=self.ss.source)
        m.fit, m.fit2 = Fit(solar_system=m.ss), Fit(solar_system=m.ss)
        m.items, m.ids, m.ships, m.log, m.auto_ids = {}, {}, [], [], {}
        m.next = self.next

        def reg(old, new):
            hid = self.hid(old)
            m.items[hid] = new
            m.ids[id(new)] = hid
            return new

        def clone(it):
            cls = type(it)
            if cls in (ModuleHigh, ModuleMid, ModuleLow):
                ch = it.charge
                nch = None
                if ch is not None:
                    nch = reg(ch, Charge(ch._type_id))
                    for eid, mode in (getattr(ch, '_BaseItemMixin__effect_mode_overrides') or {}).items():
                        nch.set_effect_mode(eid, mode)
                n = cls(it._type_id, state=it.state, charge=nch)
            elif cls in (Drone, FighterSquad):
                n = cls(it._type_id, state=it.state)
            else:
                n = cls(it._type_id)
            for eid, mode in (getattr(it, '_BaseItemMixin__effect_mode_overrides') or {}).items():
                n.set_effect_mode(eid, mode)
            return reg(it, n)
        for old, new in ((self.fit, m.fit), (self.fit2, m.fit2)):
            reg(old.character, new.character)
            if old.ship is not None:
                new.ship = clone(old.ship)
            for name in ('rigs', 'subsystems', 'drones', 'fighters', 'implants'):
                for it in getattr(old, name):
                    getattr(new, name).add(clone(it))
            for rack in ('high', 'mid', 'low'):
                for idx, it in enumerate(getattr(old.modules, rack)):
                    if it is not None:
                        getattr(new.modules, rack).place(idx, clone(it))
            new.default_incoming_dmg = old.default_incoming_dmg
        for it in self.fit2.modules.high.items():
            tg = it.target
            if tg is not None and tg is self.fit.ship:
                m.items[self.hid(it)].target = m.fit.ship
        # racks keep their length (holes at the end included)
        return m

    def _ref(self, obj):
        if obj is None:
            return '-'
        h = self.hid(obj)
        if h is None:
            h = self.auto_ids.get(id(obj))
        return '-' if h is None else '%d' % h

    def any_id(self, obj):
        h = self.hid(obj)
        return h if h is not None else self.auto_ids.get(id(obj), 0)

    def mk_filter(self, spec):
        """The predicate language shared with the model (`Driver/Stats.lean::parseFilter?`)."""
        if spec is None:
            return None
        neg = spec.startswith('!')
        body = spec[1:] if neg else spec
        if body == 'all':
            f = lambda it: True  # noqa: E731
        elif body == 'odd':
            f = lambda it: self.any_id(it) % 2 == 1  # noqa: E731
        elif body.startswith('cls='):
            f = lambda it: CLS.get(type(it), 'autocharge') == body[4:]  # noqa: E731
        elif body.startswith('st>='):
            f = lambda it: (it.state or 0) >= int(body[4:])  # noqa: E731
        else:
            raise C.InfraError('filter %r' % spec)
        return (lambda it: not f(it)) if neg else f


# ------------------------------------------------------------------ profiles, queries, observation
def rnd_profile(rnd):
    while True:
        p = [rnd.choice([0, 0, 1, 25, 0.5, 3.7, 100]) for _ in range(4)]
        if sum(p) > 0:
            return p


def rnd_resists(rnd):
    return [rnd.choice([0, 0, 0.25, 0.5, 0.9, 1, 0.333, 0.1]) for _ in range(4)]


def prof_txt(p):
    return ','.join(C.q(x) for x in (p if isinstance(p, (list, tuple)) else list(p)))


def gen_queries(rnd):
    """The observations taken after a step: (driver line, python thunk description)."""
    qs = [('use',), ('slots',), ('hp',), ('resists',), ('wc',), ('ehp', None), ('ehp', rnd_profile(rnd))]
    for _ in range(2):
        qs.append(('volley', rnd.choice(FILTERS), rnd.choice([None, None, rnd_resists(rnd)])))
        qs.append(('dps', rnd.choice(FILTERS), rnd.random() < .5, rnd.choice([None, rnd_resists(rnd)])))
    f, t = rnd.choice(FILTERS), rnd.choice([None, rnd_resists(rnd)])
    qs += [('dps', f, False, t), ('dps', f, True, t)]
    for layer in ('armor', 'shield'):
        qs.append(('rps', layer, rnd.choice(['default', 'none', rnd_profile(rnd)]), rnd.random() < .5))
    return qs


def query_line(world, q):
    k = q[0]
    if k in ('use', 'slots', 'hp', 'resists', 'wc'):
        return 'q ' + k
    if k == 'ehp':
        return 'q ehp %s' % ('default' if q[1] is None else prof_txt(q[1]))
    if k == 'volley':
        return 'q volley %s %s' % (q[1], '-' if q[2] is None else prof_txt(q[2]))
    if k == 'dps':
        return 'q dps %s %d %s' % (q[1], int(q[2]), '-' if q[3] is None else prof_txt(q[3]))
    if k == 'rps':
        p = q[2]
        if p == 'default':     # StatService substitutes the fit default before calling the register
            d = world.fit.default_incoming_dmg
            p = 'none' if d is None else list(d)
        return 'q rps %s %s %d' % (q[1], p if p == 'none' else prof_txt(p), int(q[3]))
    raise C.InfraError('query %r' % (q,))


def _guard(f):
    try:
        v = f()
    except Exception as e:
        return 'E:' + type(e).__name__
    return v


def observe(world, q):
    """Run one observation on the real fit; floats, or 'E:<class>' for a raised exception."""
    st = world.fit.stats
    k = q[0]
    if k == 'use':
        out = []
        for reg in (st.cpu, st.powergrid, st.calibration, st.dronebay, st.drone_bandwidth):
            out += [_guard(lambda: reg.used), _guard(lambda: reg.output)]
        return out
    if k == 'slots':
        out = []
        for get in (lambda: st.high_slots, lambda: st.mid_slots, lambda: st.low_slots, lambda: st.rig_slots,
                    lambda: st.subsystem_slots, lambda: st.fighter_squads):
            s = get()
            out += [s.used, s.total]
        for reg in (st.turret_slots, st.launcher_slots, st.launched_drones, st.fighter_squads_support,
                    st.fighter_squads_light, st.fighter_squads_heavy):
            out += [_guard(lambda: reg.used), _guard(lambda: reg.total)]
        return out
    if k == 'hp':
        return _guard(lambda: list(st.hp)[:3])
    if k == 'resists':
        return _guard(lambda: [x for layer in st.resists for x in layer])
    if k == 'wc':
        return _guard(lambda: list(st.worst_case_ehp)[:3])
    if k == 'ehp':
        return _guard(lambda: list(st.get_ehp(None if q[1] is None else DmgProfile(*q[1])))[:3])
    if k == 'volley':
        return _guard(lambda: list(st.get_volley(world.mk_filter(q[1]), None if q[2] is None else ResistProfile(*q[2])))[:4])
    if k == 'dps':
        return _guard(lambda: list(st.get_dps(world.mk_filter(q[1]), q[2], None if q[3] is None else ResistProfile(*q[3])))[:4])
    if k == 'rps':
        kw = {'reload': q[3]}
        if q[2] == 'none':
            kw['dmg_profile'] = None
        elif q[2] != 'default':
            kw['dmg_profile'] = DmgProfile(*q[2])
        fn = st.get_armor_rps if q[1] == 'armor' else st.get_shield_rps
        return _guard(lambda: [fn(**kw)])
    raise C.InfraError('query %r' % (q,))


def agree(model_line, impl):
    """Model answer (tokens `n/d`, `v~w`, or one `E:A|B`) against the impl observation."""
    toks = model_line.split()
    if isinstance(impl, str):
        return len(toks) == 1 and toks[0].startswith('E:') and impl[2:] in toks[0][2:].split('|')
    if len(toks) != len(impl):
        return False
    for t, v in zip(toks, impl):
        if isinstance(v, str) or t.startswith('E:'):
            if not (isinstance(v, str) and t.startswith('E:') and v[2:] in t[2:].split('|')):
                return False
            continue
        if isinstance(v, float) and (v != v or v in (math.inf, -math.inf)):
            return False
        if not any(C.close(v, float(C.unq(alt)), rel=1e-9, abs_=1e-9) for alt in t.split('~')):
            return False
    return True
