"""In-memory cache handler of the harness (independent of the repo's test helpers).

Objects go through the repo's own factories (AttrFactory/EffectFactory/TypeFactory) so the
universe eos sees is exactly what a real cache handler would serve.
"""
import common as C

C.load_repo()

from eos.cache_handler import AttrFetchError, BuffTemplatesFetchError, EffectFetchError, TypeFetchError  # noqa: E402
from eos.cache_handler.base import BaseCacheHandler  # noqa: E402
from eos.eve_obj.attribute import AttrFactory  # noqa: E402
from eos.eve_obj.effect import EffectFactory  # noqa: E402
from eos.eve_obj.type import TypeFactory  # noqa: E402
from eos.source import Source  # noqa: E402


def _reserved():
    from eos.const import eos as ce
    from eos.const import eve as cv
    def vals(*enums):
        return {int(m) for e in enums for m in e}
    return {'t': vals(cv.TypeId, ce.EosTypeId), 'a': vals(cv.AttrId), 'e': vals(cv.EffectId, ce.EosEffectId)}


RESERVED = _reserved()


class MemCache(BaseCacheHandler):
    def __init__(self):
        self.types = {}
        self.attrs = {}
        self.effects = {}
        self.buffs = {}
        self._next = {'t': 1000, 'a': 1000, 'e': 1000}

    def _id(self, k, given, table):
        if given is None:
            # never hand out an id the engine gives a meaning of its own (type 1381 is every fit's character, 28668 the
            # nanite paste, attribute / effect ids drive customisations and registers)
            self._next[k] += 1
            while self._next[k] in table or self._next[k] in RESERVED[k]:
                self._next[k] += 1
            given = self._next[k]
        if given in table:
            raise KeyError(given)
        return given

    def mkattr(self, attr_id=None, **kw):
        attr_id = self._id('a', attr_id, self.attrs)
        a = AttrFactory.make(attr_id=attr_id, **kw)
        self.attrs[a.id] = a
        return a

    def mkeffect(self, effect_id=None, **kw):
        effect_id = self._id('e', effect_id, self.effects)
        e = EffectFactory.make(effect_id=effect_id, **kw)
        self.effects[e.id] = e
        return e

    def mktype(self, type_id=None, **kw):
        type_id = self._id('t', type_id, self.types)
        t = TypeFactory.make(type_id=type_id, **kw)
        self.types[t.id] = t
        return t

    def get_type(self, type_id):
        try:
            return self.types[type_id]
        except (KeyError, TypeError):
            raise TypeFetchError(type_id)

    def get_attr(self, attr_id):
        try:
            return self.attrs[attr_id]
        except (KeyError, TypeError):
            raise AttrFetchError(attr_id)

    def get_effect(self, effect_id):
        try:
            return self.effects[effect_id]
        except (KeyError, TypeError):
            raise EffectFetchError(effect_id)

    def get_buff_templates(self, buff_id):
        try:
            return self.buffs[int(buff_id)]
        except (KeyError, TypeError, ValueError):
            raise BuffTemplatesFetchError(buff_id)

    def get_fingerprint(self):
        return None

    def update_cache(self, eve_objects, fingerprint):
        raise NotImplementedError


def source(ch, alias='verif'):
    return Source(alias, ch)
