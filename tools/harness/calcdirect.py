"""Feeds the real `MutableAttrMap.__calculate` with arbitrary modification multisets through stub
item / solar-system objects (only the calculation code of eos/calculator/map.py runs), and writes the
same case as a `K` line for the Lean driver."""
import common as C

C.load_repo()

from eos.calculator.map import MutableAttrMap  # noqa: E402
from eos.cache_handler import AttrFetchError  # noqa: E402
from eos.const.eos import ModAggregateMode, ModOperator  # noqa: E402
from eos.eve_obj.attribute import Attribute  # noqa: E402


class _T:
    def __init__(self, cat):
        self.category_id = cat
        self.id = 1


class _Aff:
    def __init__(self, cat):
        self._type = _T(cat)
        self._type_id = 1


class _CH:
    def __init__(self, attrs):
        self.attrs = attrs

    def get_attr(self, a):
        try:
            return self.attrs[a]
        except KeyError:
            raise AttrFetchError(a)


class _Obj:
    pass


class _Calc:
    def __init__(self, mods):
        self.mods = mods

    def get_modifications(self, item, attr_id):
        return self.mods.get(attr_id, [])


class StubItem:
    """Quacks like an item for MutableAttrMap."""
    _is_loaded = True
    _type_id = 1

    def __init__(self, attrs_meta, base, mods):
        self._type_attrs = base
        fit = _Obj()
        fit.solar_system = _Obj()
        fit.solar_system.source = _Obj()
        fit.solar_system.source.cache_handler = _CH(attrs_meta)
        fit.solar_system._calculator = _Calc(mods)
        self._fit = fit
        self.attrs = MutableAttrMap(self)


IMMUNE_CAT, PLAIN_CAT = 6, 7   # ship (immune) / module


def run_case(case):
    """case: dict(stackable, hig, base, cap (None|value), limited, mods=[(op, value, resist, agg, key, immune)])
    Returns impl outcome: float | 'divzero' | 'raises:<Class>'."""
    attr_id = 50 if case['limited'] else 2001
    cap_id = 2002
    meta = {attr_id: Attribute(attr_id, max_attr_id=cap_id if case['cap'] is not None else None,
                               high_is_good=case['hig'], stackable=case['stackable']),
            cap_id: Attribute(cap_id, stackable=True)}
    base = {attr_id: case['base']}
    if case['cap'] is not None:
        base[cap_id] = case['cap']
    mods = []
    for op, v, r, agg, key, imm in case['mods']:
        try:
            opv = ModOperator(op)
        except ValueError:
            opv = op
        mods.append((opv, v, r, ModAggregateMode(agg), key, _Aff(IMMUNE_CAT if imm else PLAIN_CAT)))
    it = StubItem(meta, base, {attr_id: mods})
    try:
        return it.attrs[attr_id]
    except ZeroDivisionError:
        return 'divzero'
    except Exception as e:
        return 'raises:' + type(e).__name__


def line(case):
    head = 'K %d %d %s %s %d' % (case['stackable'], case['hig'], C.q(case['base']),
                                 '-' if case['cap'] is None else C.q(case['cap']), case['limited'])
    ms = ['%d %s %s %d %s %d' % (op, C.q(v), C.q(r), agg, '-' if key is None else key, 1 if imm else 0)
          for op, v, r, agg, key, imm in case['mods']]
    return ' ; '.join([head] + ms)


def gen_case(rnd, dyadic):
    vals = ([0.5, 2, 3, -1, 10, 1.5, 50, 0.25, 4, 100, -0.5, 1, 0, 8, -25, 12.5, 0.125] if dyadic else
            [0.1, 2.3, 3, -1.1, 10, 1.7, 50, 0.3, 33.3, 100, -0.7, 1, 0, 7.77, -20, 15, 0.05])
    shape = rnd.random()
    n = rnd.choice([0, 1, 1, 2, 3, 5, 8])
    ops = list(range(1, 11))
    if shape < 0.12:
        # aggregate tie: equal values from a penalised and an immune source in one min/max group, next to other
        # penalised modifications of the same operator (which pick wins decides the position in the chain)
        op = rnd.choice([2, 3, 6, 8, 9])
        agg = rnd.choice([2, 3])
        v = rnd.choice([x for x in vals if x not in (0, 1)])
        mods = [(op, v, 1, agg, 1, False), (op, v, 1, agg, 1, True)]
        mods += [(op, rnd.choice([x for x in vals if x not in (0, 1)]), 1, 1, None, False) for _ in range(rnd.randint(1, 3))]
        rnd.shuffle(mods)
        return {'stackable': 0, 'hig': int(rnd.random() < 0.5), 'base': rnd.choice(vals), 'cap': None, 'limited': 0,
                'mods': mods}
    if shape < 0.30:
        # long penalised chain of one operator around the 11-modification cut-off
        op = rnd.choice([2, 3, 6, 8, 9])
        n = rnd.choice([2, 3, 10, 11, 12, 13])
        mods = [(op, rnd.choice([v for v in vals if v != 0]), 1, 1, None, False) for _ in range(n)]
        stackable = False
    else:
        mods = []
        for _ in range(n):
            op = rnd.choice(ops + ([11, 0] if rnd.random() < 0.05 else []))
            v = rnd.choice(vals)
            if op in (3, 8) and v == 0 and rnd.random() < 0.8:
                v = 2
            agg = rnd.choice([1, 1, 1, 2, 3])
            key = None if agg == 1 else rnd.choice([1, 2])
            mods.append((op, v, rnd.choice([1, 1, 1, 0.5, 0, 0.25 if dyadic else 0.3]), agg, key,
                         rnd.random() < 0.3))
        stackable = rnd.random() < 0.4
        if rnd.random() < 0.3 and mods:
            # ties inside aggregate groups, with and without the penalise flag
            m = rnd.choice(mods)
            mods.append((m[0], m[1], m[2], m[3], m[4], not m[5]))
    return {'stackable': int(stackable), 'hig': int(rnd.random() < 0.5), 'base': rnd.choice(vals),
            'cap': rnd.choice([None, None, rnd.choice(vals)]), 'limited': int(rnd.random() < 0.3), 'mods': mods}
