"""Harness-side instrumentation for C08 (no change to /repo): controllable delivery order of a fit's
subscribers and controllable hash order of items / fits / effects / modifiers.

* `PermDict` replaces a fit's private `{message type: set(subscribers)}` dict: `get()` - the only access the
  two publish loops make - hands back the subscribers as a list in an order chosen by the installed policy.
  The broker's own code (subscribe / unsubscribe / the publish loops) keeps running unchanged.
* `salted_hashes(salt)` gives every item, fit, effect and modifier a `__hash__` that is a function of the salt
  and of a serial number handed out at first use, so the iteration order of every internal set becomes a
  deterministic, replayable function of the salt instead of an accident of memory addresses.
"""
import contextlib
import itertools
import random

import common as C

C.load_repo()

from eos.calculator.service import CalculationService  # noqa: E402
from eos.eve_obj.effect import Effect  # noqa: E402
from eos.eve_obj.modifier.base import BaseModifier  # noqa: E402
from eos.fit import Fit  # noqa: E402
from eos.item.mixin.base import BaseItemMixin  # noqa: E402
from eos.sim.reactive_armor_hardener import ReactiveArmorHardenerSimulator  # noqa: E402

GROUPS = ('calculator', 'simulator', 'stats', 'restriction')


def group_of(sub):
    if isinstance(sub, CalculationService):
        return 'calculator'
    if isinstance(sub, ReactiveArmorHardenerSimulator):
        return 'simulator'
    mod = type(sub).__module__
    if mod.startswith('eos.stats'):
        return 'stats'
    if mod.startswith('eos.restriction'):
        return 'restriction'
    return 'other'


CALLS = {'get': 0, 'hash': 0}


class PermDict(dict):
    def __init__(self, base, policy):
        super().__init__(base)
        self.policy = policy

    def get(self, key, default=None):
        subs = dict.get(self, key, None)
        if subs is None:
            return default
        base = sorted(subs, key=lambda s: (type(s).__module__, type(s).__qualname__))
        CALLS['get'] += 1
        return self.policy(base, key)


def group_policy(order):
    rank = {g: i for i, g in enumerate(order)}
    return lambda subs, key: sorted(subs, key=lambda s: rank.get(group_of(s), 99))


def random_policy(seed):
    rnd = random.Random('sched/%s' % seed)

    def pol(subs, key):
        subs = list(subs)
        rnd.shuffle(subs)
        return subs
    return pol


def install(fit, policy):
    name = '_FitMsgBroker__subscribers'
    cur = getattr(fit, name)
    if not isinstance(cur, dict):
        raise C.InfraError('FitMsgBroker subscriber table has an unexpected shape')
    setattr(fit, name, PermDict(cur, policy))


@contextlib.contextmanager
def salted_hashes(salt):
    """Inside the context every item/fit/effect/modifier hashes to a salted serial."""
    counter = itertools.count(1)
    classes = (BaseItemMixin, Fit, Effect, BaseModifier)
    saved = {c: c.__dict__.get('__hash__') for c in classes}
    rnd = random.Random('salt/%s' % salt)
    mult = rnd.randrange(1, 2 ** 40) * 2 + 1
    add = rnd.randrange(2 ** 40)

    def h(self):
        CALLS['hash'] += 1
        n = self.__dict__.get('_verif_serial')
        if n is None:
            n = next(counter)
            self.__dict__['_verif_serial'] = n
        return (n * mult + add) % (2 ** 61 - 1)
    try:
        for c in classes:
            c.__hash__ = h
        yield
    finally:
        for c, old in saved.items():
            if old is None:
                del c.__hash__
            else:
                c.__hash__ = old
