"""Generic emptiness walk over the service objects reachable from a solar system and its fits.

After a complete tear-down every container (dict / set / list / KeyedStorage) reachable through instance
attributes of solar system, fits, their services, registers, simulators and message broker must be empty.
Eve objects (types, effects, attributes), sources, classes and constants are not walked.
"""
import common as C

C.load_repo()

from eos.eve_obj.attribute import Attribute  # noqa: E402
from eos.eve_obj.effect import Effect  # noqa: E402
from eos.eve_obj.type import Type  # noqa: E402
from eos.stats_container import DmgProfile  # noqa: E402

from eos.calculator.service import CalculationService  # noqa: E402
from eos.fit import Fit  # noqa: E402
from eos.fleet import Fleet  # noqa: E402
from eos.item.mixin.base import BaseItemMixin  # noqa: E402

SKIP_TYPES = (Attribute, Effect, Type, DmgProfile, str, bytes, int, float, bool, type(None), type)
SKIP_ATTRS = {'_SolarSystem__source', '_handler_map'}


def is_payload(x):
    """Something that must not be retained after tear-down: an item, a fit, a fleet, or a tuple
    (AffectorSpec, Projector, ...) that contains one."""
    if isinstance(x, (BaseItemMixin, Fit, Fleet)):
        return True
    if isinstance(x, tuple):
        return any(is_payload(y) for y in x)
    return False


def residue(root, max_nodes=20000):
    """List of (path, entry) for every item / fit / spec still held by a container reachable from root
    (service objects inside containers are walked, not reported), plus calculator subscriptions."""
    out = []
    seen = set()
    stack = [(root, type(root).__name__)]
    n = 0
    while stack and n < max_nodes:
        obj, path = stack.pop()
        if id(obj) in seen or isinstance(obj, SKIP_TYPES):
            continue
        seen.add(id(obj))
        n += 1
        if isinstance(obj, dict):
            for k, v in obj.items():
                if is_payload(k) or is_payload(v):
                    out.append((path, ('%r: %r' % (k, v))[:200]))
                else:
                    stack.append((k, path + '{key}'))
                    stack.append((v, path + '[%s]' % (getattr(k, '__name__', None) or type(k).__name__)))
            continue
        if isinstance(obj, (set, frozenset, list, tuple)):
            for x in obj:
                if is_payload(x):
                    out.append((path, repr(x)[:200]))
                elif isinstance(x, CalculationService) and 'subscribers' in path:
                    out.append((path, 'calculation service still subscribed'))
                else:
                    stack.append((x, path + '[]'))
            continue
        if isinstance(obj, (BaseItemMixin,)) and obj is not root:
            continue
        try:
            d = vars(obj)
        except TypeError:
            continue
        for k, v in d.items():
            if k in SKIP_ATTRS or (k.startswith('__') and k.endswith('__')):
                continue
            if is_payload(v) and not (isinstance(obj, (Fit,)) and k in ('_fit',)):
                # direct references (e.g. a simulator's fit back-reference) are structure, not residue,
                # unless they point at an item
                if isinstance(v, BaseItemMixin):
                    out.append((path + '.' + k, repr(v)[:200]))
                continue
            stack.append((v, path + '.' + k))
    return out


def teardown(w, rnd, k1safe=True):
    """Remove everything from the world in a random order. Returns the fits that were emptied.

    k1safe: stay outside the class of known finding K1 - clear all targets and switch off running fleet
    boosters (in random order) before anything is unloaded."""
    from eos import State
    from eos.eve_obj.effect.warfare_buff.base import WarfareBuffEffect
    fits = list(w.fits.values())
    if k1safe:
        pre = []
        for f in fits:
            for it in f._item_iter(skip_autoitems=True):
                if getattr(it, 'target', None) is not None:
                    pre.append(('untarget', it))
                if any(isinstance(it._type_effects.get(e), WarfareBuffEffect) for e in it._running_effect_ids):
                    pre.append(('offline', it))
        rnd.shuffle(pre)
        for k, it in pre:
            if k == 'untarget':
                it.target = None
            else:
                it.state = State.offline
                for eid in list(it._type_effects):
                    it.set_effect_mode(eid, 1)
    steps = []
    for f in fits:
        for slot in ('ship', 'stance', 'effect_beacon', 'character'):
            steps.append(('single', f, slot))
        for coll in ('skills', 'implants', 'boosters', 'subsystems', 'rigs', 'drones', 'fighters'):
            for it in list(getattr(f, coll)):
                steps.append(('set', f, coll, it))
        for rack in ('high', 'mid', 'low'):
            for it in list(getattr(f.modules, rack)):
                if it is not None:
                    if it.charge is not None and rnd.random() < 0.5:
                        steps.append(('charge', it))
                    steps.append(('rack', f, rack, it))
        steps.append(('fleet', f))
        steps.append(('solsys', f))
        for it in f._item_iter(skip_autoitems=True):
            if hasattr(it, 'target'):
                steps.append(('untarget', it))
    rnd.shuffle(steps)
    for s in steps:
        k = s[0]
        if k == 'single':
            setattr(s[1], s[2], None)
        elif k == 'set':
            if s[3] in getattr(s[1], s[2]):
                getattr(s[1], s[2]).remove(s[3])
        elif k == 'rack':
            r = getattr(s[1].modules, s[2])
            if s[3] in r:
                r.remove(s[3])
        elif k == 'charge':
            s[1].charge = None
        elif k == 'fleet':
            if s[1].fleet is not None:
                s[1].fleet.fits.remove(s[1])
        elif k == 'solsys':
            if s[1].solar_system is not None:
                s[1].solar_system.fits.remove(s[1])
        elif k == 'untarget':
            s[1].target = None
    return fits
