import EosModel.EffectStatus
/-! Line protocol of the effect-status model (one answer line per input line).

Universe:  `sources <n>` | `ability <abilityId> <effectId>` |
           `type <source> <typeId> <defaultEffect|-> <abilityIds a,b|-> <effects id:category:hasChance:chance|- ;...|->`
           -> `ok` (or `bad-universe`; categories without a state are refused).
Ops:       `new id kind typeId state` `add id` `remove id` `state id s` `modes id <0 self|1 charge> e:m,..`
           `charge id <typeId|-> <e:m,..|->` `source <k|->` `attach` `detach` `setside id e <0|1>`
           `randomize id r1,r2,..` `setability id a <0|1>`
           -> `<ok|Exception class>|<item>|<item>...`, item = `id <L|U> effects events [c <L|U> effects events]
              [side e=chance:0/1,..] [abil a=0/1,..]`, effects = `e=mode:0/1,..`, events = `+1.2,-3`.
Table:     `row s m c d o h v` -> `run` | `stop` | `undocumented`.  Anything else -> `bad-op`. -/
open Eos Eos.EffectStatus

def nats? (s : String) (sep : String := ",") : Option (List Nat) :=
  if s == "-" then some [] else (s.splitOn sep).mapM String.toNat?

def pairs? (s : String) : Option (List (Nat × Nat)) :=
  if s == "-" then some [] else (s.splitOn ",").mapM fun p =>
    match p.splitOn ":" with
    | [a, b] => do pure (← a.toNat?, ← b.toNat?)
    | _ => none

def bool? : String → Option Bool | "0" => some false | "1" => some true | _ => none

def optNat? (s : String) : Option (Option Nat) := if s == "-" then some none else s.toNat?.map some

def effect? (s : String) : Option EffectDef :=
  match s.splitOn ":" with
  | [id, cat, h, ch] => do
    let es ← (← Cat.ofNat? (← cat.toNat?)).state?
    let chance ← if ch == "-" then some none else (parseRat? ch).map some
    let h ← bool? h
    if chance.isSome ∧ !h then none      -- a chance value needs a chance attribute
    pure ⟨← id.toNat?, es, h, chance⟩
  | _ => none

def type? (dflt abil effs : String) : Option TypeDef := do
  let es ← if effs == "-" then some [] else (effs.splitOn ";").mapM effect?
  pure ⟨es, ← optNat? dflt, ← nats? abil⟩

def join (l : List String) : String := if l.isEmpty then "-" else ",".intercalate l
def b01 (b : Bool) : String := if b then "1" else "0"
def dots (l : List Nat) : String := ".".intercalate ((l.mergeSort (· ≤ ·)).map toString)

def showCore (c : Core) : String :=
  let effs := c.effects.map fun e => s!"{e.id}={getMode c.modes e.id}:{b01 (c.running.contains e.id)}"
  let evs := c.log.map fun | .started l => "+" ++ dots l | .stopped l => "-" ++ dots l
  s!"{if c.type.isSome then "L" else "U"} {join effs} {join evs}"

def showAbilities (w : World) (c : Core) : String :=
  match c.type with
  | none => "-"
  | some t =>
    match t.abilities.mapM fun a => (Core.abilityEffect w.abilityMap a).map fun e => (a, c.abilityStatus e) with
    | none => "KeyError"
    | some l => join (l.filterMap fun (a, st) => st.map fun b => s!"{a}={b01 b}")

def showHolder (w : World) (h : Holder) : String :=
  let c := match h.charge with | none => "" | some c => " c " ++ showCore c
  let side := if h.kind = .booster then
    " side " ++ join (h.core.sideEffects.map fun (e, ch) => s!"{e}={showRat ch}:{b01 (h.core.sideStatus e)}") else ""
  let abil := if h.kind = .fighter then " abil " ++ showAbilities w h.core else ""
  s!"{h.id} {showCore h.core}{c}{side}{abil}"

def op? (ws : List String) : Option Op :=
  match ws with
  | ["new", id, kind, tid, st] => do
    pure (.new (← id.toNat?) (← Kind.all[← kind.toNat?]?) (← tid.toNat?) (← State.ofNat? (← st.toNat?)))
  | ["add", id] => (.item · .add) <$> id.toNat?
  | ["remove", id] => (.item · .remove) <$> id.toNat?
  | ["state", id, st] => do pure (.item (← id.toNat?) (.setState (← State.ofNat? (← st.toNat?))))
  | ["modes", id, who, ms] => do pure (.item (← id.toNat?) (.setModes (← bool? who) (← pairs? ms)))
  | ["charge", id, tid, ms] => do
    let t ← optNat? tid
    let ms ← pairs? ms
    pure (.item (← id.toNat?) (.setCharge (t.map fun t => (t, ms))))
  | ["source", k] => .setSource <$> optNat? k
  | ["attach"] => some .attach
  | ["detach"] => some .detach
  | ["setside", id, e, on] => do pure (.item (← id.toNat?) (.setSide (← e.toNat?) (← bool? on)))
  | ["randomize", id, ds] => do
    pure (.item (← id.toNat?) (.randomize (← if ds == "-" then some [] else (ds.splitOn ",").mapM parseRat?)))
  | ["setability", id, a, on] => do pure (.item (← id.toNat?) (.setAbility (← a.toNat?) (← bool? on)))
  | _ => none

def row? (ws : List String) : Option Key :=
  match ws.mapM String.toNat? with
  | some [s, m, c, d, o, h, v] => do
    let online ← if o = 0 then some Online.absent else if o = 6 then some .self else
      if o ≤ 5 then some (.present o) else none
    let override ← if v = 0 then some none else (State.ofNat? v).map some
    if d > 1 ∨ h > 1 then none
    pure ⟨← State.ofNat? s, m, ← Cat.ofNat? c, d == 1, online, h == 1, override⟩
  | _ => none

def stepLine (w : World) (line : String) : World × List String :=
  match line.splitOn " " with
  | ["sources", n] => match n.toNat? with
    | some n => ({ w with sources := List.replicate n [] }, ["ok"])
    | none => (w, ["bad-universe"])
  | ["ability", a, e] => match a.toNat?, e.toNat? with
    | some a, some e => ({ w with abilityMap := w.abilityMap ++ [(a, e)] }, ["ok"])
    | _, _ => (w, ["bad-universe"])
  | ["type", k, tid, dflt, abil, effs] =>
    match k.toNat?, tid.toNat?, type? dflt abil effs with
    | some k, some tid, some t =>
      if k < w.sources.length then ({ w with sources := w.sources.modify k (· ++ [(tid, t)]) }, ["ok"])
      else (w, ["bad-universe"])
    | _, _, _ => (w, ["bad-universe"])
  | "row" :: ws => match row? ws with
    | some k => (w, [match k.spec with | none => "undocumented" | some true => "run" | some false => "stop"])
    | none => (w, ["bad-op"])
  | ws => match op? ws with
    | none => (w, ["bad-op"])
    | some op =>
      let (w', st) := w.step op
      (w', ["|".intercalate ((match st with | .ok => "ok" | .err c => c) :: w'.items.map (showHolder w'))])

def main : IO Unit := do lineLoop (← IO.getStdin) ({ sources := [], abilityMap := [] } : World) stepLine
