import EosModel.Num
import EosModel.Keyed
/-! Line protocol (one `KeyedStorage` per run): `new` | `as k v,v,..` | `rs k v,v,..` | `ae k v` | `re k v` | `dk k`
    (`-` = empty data) -> canonical dump `k:v,v;k:v` (keys and members ascending, `-` for an empty bucket,
    `empty` for the empty dict); anything else -> `bad-op`. -/
open Eos Eos.Keyed

def insSorted (x : Nat) : List Nat → List Nat
  | [] => [x]
  | y :: l => if x ≤ y then x :: y :: l else y :: insSorted x l
def sortNat (l : List Nat) : List Nat := l.foldr insSorted []

def dump (s : Store) : String :=
  if s.isEmpty then "empty" else
  ";".intercalate ((sortNat (keys s)).map fun k =>
    let b := sortNat (bucket s k)
    s!"{k}:" ++ (if b.isEmpty then "-" else ",".intercalate (b.map toString)))

def parseData? (t : String) : Option (List Nat) :=
  if t = "-" then some [] else (t.splitOn ",").mapM String.toNat?

def stepKeyed (s : Store) (line : String) : Store × List String :=
  let r : Option Store :=
    match line.splitOn " " with
    | ["new"] => some []
    | ["as", k, d] => do let k ← k.toNat?; let d ← parseData? d; pure (addSet s k d)
    | ["rs", k, d] => do let k ← k.toNat?; let d ← parseData? d; pure (rmSet s k d)
    | ["ae", k, v] => do let k ← k.toNat?; let v ← v.toNat?; pure (addEntry s k v)
    | ["re", k, v] => do let k ← k.toNat?; let v ← v.toNat?; pure (rmEntry s k v)
    | ["dk", k] => do let k ← k.toNat?; pure (delKey s k)
    | _ => none
  match r with
  | some s' => (s', [dump s'])
  | none => (s, ["bad-op"])

def main : IO Unit := do lineLoop (← IO.getStdin) ([] : Store) stepKeyed
