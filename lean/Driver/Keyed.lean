import EosModel.Num
import EosModel.Keyed
/-! Line protocol (one `KeyedStorage` per run): `new` | `as k v,v,..` | `rs k v,v,..` | `ae k v` | `re k v` | `dk k`;
    projection register pair: `pnew` | `pa p t,t` | `pu p t,t` -> `<dump projector_tgts> | <dump tgt_projectors>`
    (`-` = empty data) -> canonical dump `k:v,v;k:v` (keys and members ascending, `-` for an empty bucket,
    `empty` for the empty dict); anything else -> `bad-op`. -/
open Eos Eos.Keyed

def insSorted (x : Nat) : List Nat → List Nat
  | [] => [x]
  | y :: l => if x ≤ y then x :: y :: l else y :: insSorted x l
def sortNat (l : List Nat) : List Nat := l.foldr insSorted []

def dump (s : Store) : String :=
  if s.isEmpty then "empty" else
  ";".intercalate ((sortNat (keys s)).map fun k =>
    let b := sortNat (bucket s k)
    s!"{k}:" ++ (if b.isEmpty then "-" else ",".intercalate (b.map toString)))

def parseData? (t : String) : Option (List Nat) :=
  if t = "-" then some [] else (t.splitOn ",").mapM String.toNat?

def stepKeyed (st : Store × ProjReg) (line : String) : (Store × ProjReg) × List String :=
  let (s, r) := st
  let res : Option ((Store × ProjReg) × String) :=
    match line.splitOn " " with
    | ["new"] => some (([], r), dump [])
    | ["as", k, d] => do let k ← k.toNat?; let d ← parseData? d; let s' := addSet s k d; pure ((s', r), dump s')
    | ["rs", k, d] => do let k ← k.toNat?; let d ← parseData? d; let s' := rmSet s k d; pure ((s', r), dump s')
    | ["ae", k, v] => do let k ← k.toNat?; let v ← v.toNat?; let s' := addEntry s k v; pure ((s', r), dump s')
    | ["re", k, v] => do let k ← k.toNat?; let v ← v.toNat?; let s' := rmEntry s k v; pure ((s', r), dump s')
    | ["dk", k] => do let k ← k.toNat?; let s' := delKey s k; pure ((s', r), dump s')
    | ["pnew"] => some ((s, {}), "empty | empty")
    | ["pa", p, d] => do
        let p ← p.toNat?; let d ← parseData? d; let r' := r.apply p d
        pure ((s, r'), dump r'.projTgts ++ " | " ++ dump r'.tgtProjs)
    | ["pu", p, d] => do
        let p ← p.toNat?; let d ← parseData? d; let r' := r.unapply p d
        pure ((s, r'), dump r'.projTgts ++ " | " ++ dump r'.tgtProjs)
    | _ => none
  match res with
  | some (st', o) => (st', [o])
  | none => (st, ["bad-op"])

def main : IO Unit := do lineLoop (← IO.getStdin) (([], {}) : Store × ProjReg) stepKeyed
