import EosModel.Num
import EosModel.Keyed
/-! Line protocol (one `KeyedStorage` per run): `new` | `as k v,v,..` | `rs k v,v,..` | `ae k v` | `re k v` | `dk k`;
    projection register pair: `pnew` | `pa p t,t` | `pu p t,t` -> `<dump projector_tgts> | <dump tgt_projectors>`;
    ship-domain spec parking: `anew` | `sa x` | `su x` | `rsh s` | `ush` -> `<dump awaiting> | <dump active>`
    (`-` = empty data) -> canonical dump `k:v,v;k:v` (keys and members ascending, `-` for an empty bucket,
    `empty` for the empty dict); anything else -> `bad-op`. -/
open Eos Eos.Keyed

def insSorted (x : Nat) : List Nat → List Nat
  | [] => [x]
  | y :: l => if x ≤ y then x :: y :: l else y :: insSorted x l
def sortNat (l : List Nat) : List Nat := l.foldr insSorted []

def dump (s : Store) : String :=
  if s.isEmpty then "empty" else
  ";".intercalate ((sortNat (keys s)).map fun k =>
    let b := sortNat (bucket s k)
    s!"{k}:" ++ (if b.isEmpty then "-" else ",".intercalate (b.map toString)))

def parseData? (t : String) : Option (List Nat) :=
  if t = "-" then some [] else (t.splitOn ",").mapM String.toNat?

def stepKeyed (st : Store × ProjReg × AffReg) (line : String) : (Store × ProjReg × AffReg) × List String :=
  let (s, r, a) := st
  let da (a : AffReg) : String := dump a.awaiting ++ " | " ++ dump a.active
  let res : Option ((Store × ProjReg × AffReg) × String) :=
    match line.splitOn " " with
    | ["new"] => some (([], r, a), dump [])
    | ["as", k, d] => do let k ← k.toNat?; let d ← parseData? d; let s' := addSet s k d; pure ((s', r, a), dump s')
    | ["rs", k, d] => do let k ← k.toNat?; let d ← parseData? d; let s' := rmSet s k d; pure ((s', r, a), dump s')
    | ["ae", k, v] => do let k ← k.toNat?; let v ← v.toNat?; let s' := addEntry s k v; pure ((s', r, a), dump s')
    | ["re", k, v] => do let k ← k.toNat?; let v ← v.toNat?; let s' := rmEntry s k v; pure ((s', r, a), dump s')
    | ["dk", k] => do let k ← k.toNat?; let s' := delKey s k; pure ((s', r, a), dump s')
    | ["pnew"] => some ((s, {}, a), "empty | empty")
    | ["pa", p, d] => do
        let p ← p.toNat?; let d ← parseData? d; let r' := r.apply p d
        pure ((s, r', a), dump r'.projTgts ++ " | " ++ dump r'.tgtProjs)
    | ["pu", p, d] => do
        let p ← p.toNat?; let d ← parseData? d; let r' := r.unapply p d
        pure ((s, r', a), dump r'.projTgts ++ " | " ++ dump r'.tgtProjs)
    | ["anew"] => some ((s, r, {}), "empty | empty")
    | ["sa", x] => do let x ← x.toNat?; let a' := a.step (.regSpec x); pure ((s, r, a'), da a')
    | ["su", x] => do let x ← x.toNat?; let a' := a.step (.unregSpec x); pure ((s, r, a'), da a')
    | ["rsh", x] => do let x ← x.toNat?; let a' := a.step (.regShip x); pure ((s, r, a'), da a')
    | ["ush"] => let a' := a.step .unregShip; some ((s, r, a'), da a')
    | _ => none
  match res with
  | some (st', o) => (st', [o])
  | none => (st, ["bad-op"])

def main : IO Unit := do lineLoop (← IO.getStdin) (([], {}, {}) : Store × ProjReg × AffReg) stepKeyed
