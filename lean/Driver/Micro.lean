import Driver.WorldCommon
import EosModel.WorldMicroExec
/-! Driver of the message-level model (`EosModel/WorldMicro.lean`).

Universe and configuration lines as in Driver/WorldCommon.lean (`U A E M T TA TE TS B C F I IM`); a
configuration block becomes current with `RC` (a `reconfig` step).  Message lines:
  ML i            ItemLoaded            MU i            ItemUnloaded (+ attrs._clear)
  MS i e1,e2      EffectsStarted        MT i e1,e2      EffectsStopped
  MA i e t1,t2    EffectApplied         MN i e t1,t2    EffectUnapplied
  MC i attr       AttrsValueChanged raised for an overridden attribute (skill level)
  BS i e mods     warfare-buff modifiers registered for projector (i, e)  (`-` = none)
  MR i attr       public read, prints `v <value>`
  QB              prints `B item effect mods` (specification-derived buff modifiers of running boosts), then `.`
  QK              prints `K item attr value` for every cached entry of the configuration's items, then `.`
  X               forget everything dynamic (new solar system)
-/
open Eos Eos.World Eos.Calc Eos.Micro

structure MSt where
  st : St := {}
  m : TState := { cfg := {}, dyn := { loaded := fun _ => false, on := fun _ _ => false, tgts := fun _ _ => [] },
                  tbl := [] }

def ints? (s : String) : Option (List Int) :=
  if s == "-" || s == "" then some [] else (s.splitOn ",").mapM (·.toInt?)
def nats? (s : String) : Option (List Nat) :=
  if s == "-" || s == "" then some [] else (s.splitOn ",").mapM (·.toNat?)

def mdo (x : MSt) (st : MStep) : MSt := { x with m := mdoT x.st.u x.m st }

/-- Process one message; print `illegal <line>` when the side conditions of the legality theorems do not hold. -/
def mdoC (x : MSt) (st : MStep) (line : String) : MSt × List String :=
  (mdo x st,
    (if stepOKb x.st.u x.m st then [] else ["illegal " ++ line]) ++
    -- `StepFin`: the message names a configured item and effects of its type (then `mdoT` is `mstep`: `mdoT_toM`)
    (if stepFinb x.st.u x.m st then [] else ["unnamed " ++ line]))

def mstepLine (x : MSt) (line : String) : MSt × List String :=
  let bad := (x, ["bad-op " ++ line])
  match line.splitOn " " with
  | ["RC"] =>
    -- `rcFinb`: everything the registers mention is still named by the new configuration (`rcFinb_sound`: DynFin is kept)
    ({ x with m := { x.m with cfg := x.st.cfg } },
      if rcFinb x.st.u x.m x.st.cfg then [] else ["unnamed RC"])
  | ["X"] => ({ x with m := { cfg := {}, dyn := { loaded := fun _ => false, on := fun _ _ => false, tgts := fun _ _ => [] },
                               tbl := [] } }, [])
  | ["ML", i] => match i.toNat? with | some i => mdoC x (.load i) line | none => bad
  | ["MU", i] => match i.toNat? with | some i => mdoC x (.unload i) line | none => bad
  | ["MS", i, es] => match i.toNat?, ints? es with | some i, some es => mdoC x (.start i es) line | _, _ => bad
  | ["MT", i, es] => match i.toNat?, ints? es with | some i, some es => mdoC x (.stop i es) line | _, _ => bad
  | ["MA", i, e, ts] => match i.toNat?, e.toInt?, nats? ts with
    | some i, some e, some ts => mdoC x (.apply i e ts) line | _, _, _ => bad
  | ["MN", i, e, ts] => match i.toNat?, e.toInt?, nats? ts with
    | some i, some e, some ts => mdoC x (.unapply i e ts) line | _, _, _ => bad
  | ["BS", i, e, ms] =>
    -- warfare-buff modifiers: `-` or `f,d,x,t,o,a,k,s;...` (8 fields per modifier, `_` for none)
    let parseM (t : String) : Option Modifier :=
      match t.splitOn "," with
      | [f, d, x, ta, o, a, k, sa] => do
        let f ← f.toNat?; let d ← d.toNat?; let x ← optInt? (if x == "_" then "-" else x); let ta ← ta.toInt?
        let o ← o.toNat?; let a ← a.toNat?; let k ← optInt? (if k == "_" then "-" else k); let sa ← sa.toInt?
        pure { filter := f, domain := d, extra := x, tgtAttr := ta, op := o, agg := a, aggKey := k, srcAttr := sa }
      | _ => none
    match i.toNat?, e.toInt?, (if ms == "-" then some [] else (ms.splitOn ";").mapM parseM) with
    | some i, some e, some ms =>
      -- the model ignores payload that is not a buff modifier of this universe; the real service never builds such
      if ms.all (bspecOK x.st.u) then mdoC x (.buffset i e ms) line else (x, ["bad-op ill-formed buff payload"])
    | _, _, _ => bad
  | ["MC", i, a] => match i.toNat?, a.toInt? with | some i, some a => (mdo x (.changed i a), []) | _, _ => bad
  | ["MR", i, a] => match i.toNat?, a.toInt? with
    | some i, some a =>
      let r := readStepT x.st.u specImmune specLimited pen x.m i a
      ({ x with m := r.1 }, [s!"v {showVal r.2}"])
    | _, _ => bad
  | ["QK"] =>
    (x, (tblOf x.st.u x.m.cfg (tblFun x.m.tbl)).map (fun e => s!"K {e.1.1} {e.1.2} {showRat e.2}") ++ ["."])
  | ["QB"] =>
    -- the warfare-buff modifiers the *specification* derives (buff id attributes read from the from-scratch
    -- table, templates of the universe) for every running boost effect
    let u := x.st.u
    let t := evalAll u x.m.cfg specImmune specLimited pen
    let oi (o : Option Int) : String := match o with | some v => toString v | none => "-"
    let showM (m : Modifier) : String :=
      s!"{m.filter},{m.domain},{oi m.extra},{m.tgtAttr},{m.op},{m.agg},{oi m.aggKey},{m.srcAttr}"
    let ls := x.m.cfg.items.flatMap fun a =>
      ((running u x.m.dyn a).filter (·.isBuff)).map fun e =>
        match buffModifiers u (readDep u t) a with
        | .ok ms =>
          let l := (ms.map showM).mergeSort (fun p q => p ≤ q)
          s!"B {a.id} {e.id} " ++ (if l.isEmpty then "-" else ";".intercalate l)
        | .error _ => s!"B {a.id} {e.id} err"
    -- ... and the recorded targets of those boosts against the ships the specification boosts
    let showIds (l : List Nat) : String := if l.isEmpty then "-" else ",".intercalate ((l.mergeSort (· ≤ ·)).map toString)
    let ts := x.m.cfg.items.flatMap fun a =>
      ((running u x.m.dyn a).filter (·.isBuff)).map fun e =>
        s!"T {a.id} {e.id} {showIds (x.m.dyn.tgts a.id e.id)} {showIds ((boostTargets x.m.cfg a.fit).map (·.id))}"
    (x, ls ++ ts ++ ["."])
  | _ =>
    -- universe / configuration lines go to the shared parser
    let r := step x.st line
    ({ x with st := r.1 }, r.2)

def main : IO Unit := do lineLoop (← IO.getStdin) ({} : MSt) mstepLine
