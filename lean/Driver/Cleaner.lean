import EosModel.Num
import EosModel.Cleaner
/-! Line protocol (one raw data set = `row`/`mod`/`buff` lines, then `run`):
    `row <table> k=<val> ...`, `mod k=<val> ...` | `mod !` (modifierInfo entry of the last row; `!` = not a
    mapping), `buff <section> k=<val> ...` (modifier row of the last row), `run` -> observation lines, `end`.
    Values: `N`, `B0|B1`, `I<int>`, `F<num>/<den>`, `S<hex utf-8>`, `W1` (non-finite float) | `W0` (object).
    Observation: `clean <table> <row>` (after the cleaner), `fin <table> <row>` (converter input),
    `type`/`attr`/`effect`/`buff` lines of the built objects, or `error KeyError`. -/
open Eos Eos.Cleaner

def tblOfString? (s : String) : Option Tbl :=
  allTables.find? fun t => tblName t == s
where tblName : Tbl → String
  | .evetypes => "evetypes" | .evegroups => "evegroups" | .dgmattribs => "dgmattribs"
  | .dgmtypeattribs => "dgmtypeattribs" | .dgmeffects => "dgmeffects" | .dgmtypeeffects => "dgmtypeeffects"
  | .dbuffcollections => "dbuffcollections" | .skillreqs => "skillreqs" | .typefighterabils => "typefighterabils"

def hexVal (c : Char) : Option Nat :=
  if c.isDigit then some (c.toNat - '0'.toNat)
  else if 'a' ≤ c ∧ c ≤ 'f' then some (c.toNat - 'a'.toNat + 10) else none

def unhex : List Char → Option (List UInt8)
  | [] => some []
  | a :: b :: t => do
    let x ← hexVal a
    let y ← hexVal b
    (UInt8.ofNat (16 * x + y) :: ·) <$> unhex t
  | _ => none

def hexOf (s : String) : String :=
  let d (n : Nat) : Char := if n < 10 then Char.ofNat (n + 48) else Char.ofNat (n + 87)
  String.ofList (s.toUTF8.toList.flatMap fun b => [d (b.toNat / 16), d (b.toNat % 16)])

def parseVal? (s : String) : Option Val :=
  match s.toList with
  | ['N'] => some .none
  | ['B', '0'] => some (.bool false)
  | ['B', '1'] => some (.bool true)
  | ['W', '0'] => some (.weird false)
  | ['W', '1'] => some (.weird true)
  | 'I' :: t => (String.ofList t).toInt?.map Val.ofInt
  | 'F' :: t => (parseRat? (String.ofList t)).map (Val.num · false)
  | 'S' :: t => do
    let bytes ← unhex t
    Val.str <$> String.fromUTF8? (ByteArray.mk bytes.toArray)
  | _ => none

def showVal : Val → String
  | .none => "N"
  | .bool b => if b then "B1" else "B0"
  | .num q true => s!"I{q.num}"
  | .num q false => s!"F{q.num}/{q.den}"
  | .str s => "S" ++ hexOf s
  | .weird r => if r then "W1" else "W0"

def parseFields? (toks : List String) : Option Fields :=
  toks.mapM fun t => match t.splitOn "=" with
    | [k, v] => (parseVal? v).map fun x => (k, x)
    | _ => none

structure St where
  rows : List Row := []          -- reversed
  counts : List (Tbl × Nat) := []

def St.count (s : St) (t : Tbl) : Nat := ((s.counts.lookup t).getD 0)

def setOf (l : List String) : String := if l.isEmpty then "-" else ",".intercalate l

def rowKey (r : Row) : String :=
  match r.pos with
  | some p => s!"p{p}"
  | none => s!"n{showVal (r.get "typeID")}:{showVal (r.get "attributeID")}"

def tableOf (l : List Row) (t : Tbl) : List Row := l.filter (·.tbl = t)

def observe (raw : List Row) : List String :=
  let cl := clean (prepare raw)
  let fin := preconv cl
  if convertAborts fin then ["error KeyError"] else
  let name := tblOfString?.tblName
  let ofType (t : Tbl) (ty : Row) := (tableOf fin t).filter fun r => Val.pyEq (r.get "typeID") (ty.get "typeID")
  let effects := tableOf fin .dgmeffects
  let hasEffect (v : Val) := effects.any fun e => Val.pyEq (e.get "effectID") v
  cl.map (fun r => s!"clean {name r.tbl} {rowKey r}")
  ++ (fin.filter (·.tbl ≠ .typefighterabils)).map (fun r =>
      s!"fin {name r.tbl} {rowKey r}" ++
        (if r.tbl = .dgmtypeeffects then s!" d={showVal (r.get "isDefault")}" else ""))
  ++ (tableOf fin .evetypes).map (fun ty =>
      let g := ty.get "groupID"
      let cat := match (tableOf fin .evegroups).find? fun gr => Val.pyEq (gr.get "groupID") g with
        | some gr => gr.get "categoryID"
        | none => .none
      let effs := ((ofType .dgmtypeeffects ty).filter fun r => hasEffect (r.get "effectID"))
      let dflt := match (ofType .dgmtypeeffects ty).find? fun r => r.get "isDefault" = .bool true with
        | some r => if hasEffect (r.get "effectID") then r.get "effectID" else .none
        | none => .none
      let skills := ofType .skillreqs ty
      s!"type {showVal (ty.get "typeID")} g={showVal g} c={showVal cat} " ++
      s!"a={setOf ((ofType .dgmtypeattribs ty).map fun r => showVal (r.get "attributeID"))} " ++
      s!"e={setOf (effs.map fun r => showVal (r.get "effectID"))} d={showVal dflt} " ++
      s!"s={if skills.isEmpty then "N" else setOf (skills.map fun r => showVal (r.get "skillTypeID"))}")
  ++ (tableOf fin .dgmattribs).map (fun a =>
      s!"attr {showVal (a.get "attributeID")} max={showVal (a.get "maxAttributeID")}")
  ++ effects.map (fun e =>
      let mods := (e.mods.filterMap builtMod).map fun m =>
        s!"I{m.1}/I{m.2.1}/" ++ (match m.2.2 with | some x => s!"I{x}" | none => "N")
      s!"effect {showVal (e.get "effectID")} r={";".intercalate (effectAttrFields.map fun f => showVal (e.get f))} " ++
      s!"m={setOf mods}")
  ++ (tableOf fin .dbuffcollections).flatMap (fun b => b.buffs.filterMap fun sd =>
      (buffSections.idxOf? sd.1).map fun i =>
        let extra := if i = 2 then sd.2.get "groupID" else if i = 3 then sd.2.get "skillID" else .none
        s!"buff {showVal (b.get "buffID")} {i + 1} {showVal (sd.2.get "dogmaAttributeID")} {showVal extra}")

def stepCleaner (st : St) (line : String) : St × List String :=
  match line.splitOn " " with
  | "row" :: t :: rest =>
    match tblOfString? t, parseFields? rest with
    | some t, some fs =>
      ({ rows := { tbl := t, pos := some (st.count t), fields := fs } :: st.rows,
         counts := (t, st.count t + 1) :: st.counts }, [])
    | _, _ => (st, ["bad-op"])
  | ["mod", "!"] =>
    match st.rows with
    | r :: rs => ({ st with rows := { r with mods := r.mods ++ [none] } :: rs }, [])
    | [] => (st, ["bad-op"])
  | "mod" :: rest =>
    match st.rows, parseFields? rest with
    | r :: rs, some fs => ({ st with rows := { r with mods := r.mods ++ [some fs] } :: rs }, [])
    | _, _ => (st, ["bad-op"])
  | "buff" :: sec :: rest =>
    match st.rows, parseFields? rest with
    | r :: rs, some fs => ({ st with rows := { r with buffs := r.buffs ++ [(sec, fs)] } :: rs }, [])
    | _, _ => (st, ["bad-op"])
  | ["run"] => ({}, observe st.rows.reverse ++ ["end"])
  | _ => (st, ["bad-op"])

def main : IO Unit := do lineLoop (← IO.getStdin) ({} : St) stepCleaner
