import EosModel.World
import EosGen.Consts
/-! Line protocol of the world / calculator model (see tools/harness/world.py for the writer).

  U                      start a new universe
  A id max|- default|- hig stackable          (attributes in rank order, highest first)
  E id category chance|- resist|- isBuff
  M filter domain extra|- tgtAttr op agg aggKey|- srcAttr      (modifier of the last E)
  T id group|- category|- defaultEffect|-
  TA attr value ; TE effect ; TS skillType                       (of the last T)
  B buffId filter extra|- tgtAttr op agg
  C hasSource(0/1)       start a new configuration
  F id ship|- character|- fleet|-
  I id kind typeId fit state parent|- target|- level|-
  IM effect mode                                                  (of the last I)
  Q                      print `R item e1,e2,..` and `V item attr value` for everything, then `.`
  K stackable hig base cap|- limited ; op value resist agg key|- immune ; ...     direct calculation
-/
open Eos Eos.World Eos.Calc

structure St where
  u : Universe := {}
  cfg : Config := {}

def optInt? (s : String) : Option (Option Int) := if s == "-" then some none else s.toInt?.map some
def optNat? (s : String) : Option (Option Nat) := if s == "-" then some none else s.toNat?.map some
def optRat? (s : String) : Option (Option Rat) := if s == "-" then some none else (parseRat? s).map some
def bool? (s : String) : Option Bool := if s == "1" then some true else if s == "0" then some false else none

def pen (i : Nat) : Rat := penOfList EosGen.Consts.penaltyFactors i

def showVal : Val → String
  | .absent => "absent" | .ok v => showRat v | .divZero => "divzero" | .notWF => "notwf"

def updLast {α : Type} (l : List α) (f : α → α) : List α :=
  match l.reverse with
  | [] => []
  | x :: xs => (f x :: xs).reverse

def parseMod (s : String) : Option Mod :=
  match (s.trimAscii.toString).splitOn " " with
  | [op, v, r, agg, key, imm] => do
    let op ← op.toNat?; let v ← parseRat? v; let r ← parseRat? r; let agg ← agg.toNat?
    let key ← optInt? key; let imm ← bool? imm
    pure { op := op, value := v, resist := r, agg := agg, aggKey := key, immune := imm }
  | _ => none

def query (st : St) : List String :=
  let t := evalAll st.u st.cfg specImmune specLimited pen
  let extra : List Int := [280, 999999]
  let attrIds := st.u.attrs.map (·.id) ++ extra.filter fun a => !(st.u.attrs.any (·.id == a))
  let lines := st.cfg.items.flatMap fun x =>
    let rs := (runningIds st.u st.cfg x)
    (s!"R {x.id} {",".intercalate (rs.map toString)}") ::
      (attrIds.map fun a => s!"V {x.id} {a} {showVal (read t x a)}") ++
      -- unrounded value of limited-precision attributes (lets the harness spot float-fragile rounding ties)
      (st.u.attrs.filter fun am => specLimited.contains am.id).map fun am =>
        s!"W {x.id} {am.id} {showVal (valueOf st.u st.cfg specImmune [] pen (readDep st.u t) x am)}"
  lines ++ ["."]

def step (st : St) (line : String) : St × List String :=
  let bad := (st, ["bad-op " ++ line])
  match line.splitOn " " with
  | ["U"] => ({ st with u := {} }, [])
  | ["A", id, mx, df, hig, stk] =>
    match id.toInt?, optInt? mx, optRat? df, bool? hig, bool? stk with
    | some id, some mx, some df, some hig, some stk =>
      ({ st with u := { st.u with attrs := st.u.attrs ++ [{ id := id, maxAttr := mx, default := df, hig := hig, stackable := stk }] } }, [])
    | _, _, _, _, _ => bad
  | ["E", id, cat, ch, rs, bf] =>
    match id.toInt?, cat.toNat?, optInt? ch, optInt? rs, bool? bf with
    | some id, some cat, some ch, some rs, some bf =>
      ({ st with u := { st.u with effects := st.u.effects ++ [{ id := id, category := cat, chanceAttr := ch, resistAttr := rs, isBuff := bf, mods := [] }] } }, [])
    | _, _, _, _, _ => bad
  | ["M", f, d, ex, ta, op, agg, key, sa] =>
    match f.toNat?, d.toNat?, optInt? ex, ta.toInt?, op.toNat?, agg.toNat?, optInt? key, sa.toInt? with
    | some f, some d, some ex, some ta, some op, some agg, some key, some sa =>
      let m : Modifier := { filter := f, domain := d, extra := ex, tgtAttr := ta, op := op, agg := agg, aggKey := key, srcAttr := sa }
      ({ st with u := { st.u with effects := updLast st.u.effects fun e => { e with mods := e.mods ++ [m] } } }, [])
    | _, _, _, _, _, _, _, _ => bad
  | ["T", id, g, c, de] =>
    match id.toInt?, optInt? g, optInt? c, optInt? de with
    | some id, some g, some c, some de =>
      ({ st with u := { st.u with types := st.u.types ++ [{ id := id, group := g, category := c, defaultEffect := de, attrs := [], effects := [], reqSkills := [] }] } }, [])
    | _, _, _, _ => bad
  | ["TA", a, v] =>
    match a.toInt?, parseRat? v with
    | some a, some v => ({ st with u := { st.u with types := updLast st.u.types fun t => { t with attrs := t.attrs ++ [(a, v)] } } }, [])
    | _, _ => bad
  | ["TE", e] =>
    match e.toInt? with
    | some e => ({ st with u := { st.u with types := updLast st.u.types fun t => { t with effects := t.effects ++ [e] } } }, [])
    | _ => bad
  | ["TS", s] =>
    match s.toInt? with
    | some s => ({ st with u := { st.u with types := updLast st.u.types fun t => { t with reqSkills := t.reqSkills ++ [s] } } }, [])
    | _ => bad
  | ["B", id, f, ex, ta, op, agg] =>
    match id.toInt?, f.toNat?, optInt? ex, ta.toInt?, op.toNat?, agg.toNat? with
    | some id, some f, some ex, some ta, some op, some agg =>
      ({ st with u := { st.u with buffs := st.u.buffs ++ [{ buffId := id, filter := f, extra := ex, tgtAttr := ta, op := op, agg := agg }] } }, [])
    | _, _, _, _, _, _ => bad
  | ["C", src] =>
    match bool? src with
    | some b => ({ st with cfg := { hasSource := b } }, [])
    | none => bad
  | ["F", id, sh, ch, fl] =>
    match id.toNat?, optNat? sh, optNat? ch, optNat? fl with
    | some id, some sh, some ch, some fl =>
      ({ st with cfg := { st.cfg with fits := st.cfg.fits ++ [{ id := id, ship := sh, character := ch, fleet := fl }] } }, [])
    | _, _, _, _ => bad
  | ["I", id, k, ty, fit, state, par, tg, lv] =>
    match id.toNat?, k.toNat?.bind Kind.ofNat?, ty.toInt?, fit.toNat?, state.toNat?, optNat? par, optNat? tg, optRat? lv with
    | some id, some k, some ty, some fit, some state, some par, some tg, some lv =>
      ({ st with cfg := { st.cfg with items := st.cfg.items ++ [{ id := id, kind := k, typeId := ty, fit := fit, state := state, parent := par, target := tg, level := lv, modes := [] }] } }, [])
    | _, _, _, _, _, _, _, _ => bad
  | ["IM", e, m] =>
    match e.toInt?, m.toNat? with
    | some e, some m => ({ st with cfg := { st.cfg with items := updLast st.cfg.items fun i => { i with modes := i.modes ++ [(e, m)] } } }, [])
    | _, _ => bad
  | ["Q"] => (st, query st)
  | "K" :: _ =>
    match (line.drop 2).toString.splitOn ";" with
    | hd :: ms =>
      match (hd.trimAscii.toString).splitOn " ", ms.mapM parseMod with
      | [stk, hig, base, cap, lim], some mods =>
        match bool? stk, bool? hig, parseRat? base, optRat? cap, bool? lim with
        | some stk, some hig, some base, some cap, some lim =>
          match calculate pen stk hig base mods cap lim with
          | .ok v =>
            let frag := if lim then s!" {showRat (round2Margin ((foldOps pen hig (contributions ((normAll stk mods).toOption.getD [])) base)))}" else ""
            (st, [s!"ok {showRat v}{frag}"])
          | .error _ => (st, ["divzero"])
        | _, _, _, _, _ => bad
      | _, _ => bad
    | [] => bad
  | _ => bad
