import EosModel.Range
import EosGen.Range
/-! Line protocol:  `ctc <p1> <p2> x1 y1 z1 x2 y2 z2`  ->  `mismatch` | `ok <spec d²> <generated d²>`;
    `sts <ctc> <r1> <r2>` -> `ok <generated sts>`;  anything else -> `bad-op`. -/
open Eos Eos.Range

def stepRange (_ : Unit) (line : String) : Unit × List String :=
  match line.splitOn " " with
  | ["ctc", p1, p2, x1, y1, z1, x2, y2, z2] =>
    match p1.toNat?.bind Place.ofNat?, p2.toNat?.bind Place.ofNat?, parseRats? [x1, y1, z1, x2, y2, z2] with
    | some p1, some p2, some [x1, y1, z1, x2, y2, z2] =>
      match query p1 p2 ⟨x1, y1, z1⟩ ⟨x2, y2, z2⟩ with
      | .mismatch => ((), ["mismatch"])
      | .ok d => ((), [s!"ok {showRat d} {showRat (EosGen.Range.ctcSq x1 y1 z1 x2 y2 z2)}"])
    | _, _, _ => ((), ["bad-op"])
  | ["sts", c, r1, r2] =>
    match parseRats? [c, r1, r2] with
    | some [c, r1, r2] => ((), [s!"ok {showRat (EosGen.Range.sts c r1 r2)}"])
    | _ => ((), ["bad-op"])
  | _ => ((), ["bad-op"])

def main : IO Unit := do lineLoop (← IO.getStdin) () stepRange
