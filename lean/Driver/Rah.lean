import EosModel.Rah
/-! Line protocol of the RAH model (stateful: one `World` per `reset`). Vectors are `em therm kin expl`,
rationals `n/d`, `-` = unavailable.

  reset | maxt <n>
  ship none | ship <4 base> <pen>            pen = `-` (stackable) or `p0,p1,...` (PENALTY_BASE**(k*k) as ratios)
  shipmod <t,t,..> <4 base> <pen>            modifiers of these ship resonances changed
  rahp <4>|- | defp <4> | start <4 base> <shift> <dur> <shiftCached 0|1> <durCached 0|1> | stop <i> | shift <i> <v> | dur <i> <v> | base <i> <4>
  readrah   -> `rah <outcome> <looped> <ticks> <frag>;<4>;<4>...`   (outcome `stored` when nothing was run)
  readship <t> -> `ship <outcome> <looped> <ticks> <frag> <value|none>`
  dump      -> `state res=<0|1> n=<k> shipC=<t,..>`
Anything else -> `bad-op`. -/
open Eos Eos.Rah

structure ShipCfg where
  base : Vec
  pen : Option (List Rat)

def insertBy (le : Rat → Rat → Bool) (x : Rat) : List Rat → List Rat
  | [] => [x]
  | y :: l => if le x y then x :: y :: l else y :: insertBy le x l

def chain (pen : List Rat) (l : List Rat) : Rat :=
  ((l.zip pen).take 11).foldl (fun acc (v, p) => acc * (1 + v * p)) 1

/-- `MutableAttrMap.__calculate` for a ship resonance whose only modifications are the hardeners' `pre_mul`s. -/
def shipFn (c : ShipCfg) (rs : List Vec) : Option Vec :=
  some <| Vec.ofFn fun t =>
    let mods := rs.map fun r => r.get t - 1
    match c.pen with
    | none => mods.foldl (fun acc v => acc * (1 + v)) (c.base.get t)
    | some pen =>
      let pos := (mods.filter (0 ≤ ·)).foldr (insertBy (fun a b => b ≤ a)) []
      let neg := (mods.filter (· < 0)).foldr (insertBy (fun a b => a ≤ b)) []
      c.base.get t * (1 + (chain pen pos * chain pen neg - 1))

structure DState where
  w : World ShipCfg
  maxT : Nat

def dmgOf? : String → Option Dmg
  | "em" => some .em | "therm" => some .therm | "kin" => some .kin | "expl" => some .expl | _ => none

def dmgName : Dmg → String
  | .em => "em" | .therm => "therm" | .kin => "kin" | .expl => "expl"

def vec? (l : List String) : Option Vec :=
  match parseRats? l with
  | some [a, b, c, d] => some ⟨a, b, c, d⟩
  | _ => none

def optRat? (s : String) : Option (Option Rat) := if s = "-" then some none else (parseRat? s).map some

def pen? (s : String) : Option (Option (List Rat)) :=
  if s = "-" then some none else (parseRats? (s.splitOn ",")).map some

def showVec (v : Vec) : String := s!"{showRat v.em} {showRat v.therm} {showRat v.kin} {showRat v.expl}"

def b01 (b : Bool) : String := if b then "1" else "0"

/-- What a read that finds nothing stored is about to run: `<outcome> <looped> <ticks> <fragile>`. -/
def fillInfo (s : DState) : String :=
  if s.w.res.isSome || s.w.rahs.isEmpty then "stored 0 0 0"
  else match getResults (s.w.ship.map shipFn) s.w.profile s.maxT s.w.inputs with
    | (_, .noShip, _) => "noship 0 0 0"
    | (_, .failed, _) => "failed 0 0 0"
    | (_, .ok, some o) => s!"ok {b01 o.looped} {o.ticks} {b01 o.frag}"
    | (_, .ok, none) => "ok 0 0 0"

def applyOp (s : DState) (op : Op ShipCfg) : DState := { s with w := s.w.step shipFn s.maxT op }

def stepRah (s : DState) (line : String) : DState × List String :=
  let ok (s' : DState) := (s', ["ok"])
  let bad := (s, ["bad-op"])
  match line.splitOn " " with
  | ["reset"] => ok { s with w := World.init }
  | ["maxt", n] => match n.toNat? with | some n => ok { s with maxT := n } | none => bad
  | ["ship", "none"] => ok (applyOp s (.setShip none))
  | ["ship", a, b, c, d, p] =>
    match vec? [a, b, c, d], pen? p with
    | some v, some p => ok (applyOp s (.setShip (some ⟨v, p⟩)))
    | _, _ => bad
  | ["shipmod", ts, a, b, c, d, p] =>
    match (ts.splitOn ",").mapM dmgOf?, vec? [a, b, c, d], pen? p with
    | some ts, some v, some p => ok (applyOp s (.shipMod ts ⟨v, p⟩))
    | _, _, _ => bad
  | ["rahp", "-"] => ok (applyOp s (.setRahProfile none))
  | ["rahp", a, b, c, d] =>
    match vec? [a, b, c, d] with | some v => ok (applyOp s (.setRahProfile (some v))) | none => bad
  | ["defp", a, b, c, d] =>
    match vec? [a, b, c, d] with | some v => ok (applyOp s (.setDefProfile v)) | none => bad
  | ["start", a, b, c, d, sh, du, sc, dc] =>
    match vec? [a, b, c, d], optRat? sh, optRat? du with
    | some v, some sh, some du => ok (applyOp s (.start ⟨v, sh, du⟩ (sc == "1") (dc == "1")))
    | _, _, _ => bad
  | ["stop", i] => match i.toNat? with | some i => ok (applyOp s (.stop i)) | none => bad
  | ["shift", i, v] =>
    match i.toNat?, optRat? v with | some i, some v => ok (applyOp s (.setShift i v)) | _, _ => bad
  | ["dur", i, v] =>
    match i.toNat?, optRat? v with | some i, some v => ok (applyOp s (.setDur i v)) | _, _ => bad
  | ["base", i, a, b, c, d] =>
    match i.toNat?, vec? [a, b, c, d] with | some i, some v => ok (applyOp s (.setBase i v)) | _, _ => bad
  | ["readrah"] =>
    let s' := applyOp s .readRah
    (s', [";".intercalate (s!"rah {fillInfo s}" :: s'.w.exposed.map showVec)])
  | ["readship", t] =>
    match dmgOf? t with
    | none => bad
    | some t =>
      let runs := !(s.w.ship.isNone || t ∈ s.w.shipC)
      let s' := applyOp s (.readShip t)
      let info := if runs then fillInfo s else "stored 0 0 0"
      (s', [match s'.w.shipReso shipFn with
        | some v => s!"ship {info} {showRat (v.get t)}" | none => s!"ship {info} none"])
  | ["dump"] =>
    let w := s.w
    let cs := [Dmg.em, .therm, .kin, .expl].filter (· ∈ w.shipC)
    (s, [s!"state res={b01 w.res.isSome} n={w.rahs.length} shipC={",".intercalate (cs.map dmgName)}"])
  | _ => bad

def main : IO Unit := do lineLoop (← IO.getStdin) (⟨World.init, maxTicks⟩ : DState) stepRah
