import EosModel.Num
import EosModel.Stats
/-! Line protocol of the stateless statistics model (`drv_stats`).  A snapshot is built by
`snap` / `eff` / `it` / `te` `ru` `ta` `tt` `av` `ab` `ac` / `fit` lines (no output), then each `q ...`
line answers one observation:

* `q use`    -> cpu, powergrid, calibration, dronebay, drone_bandwidth as `used output` pairs
* `q slots`  -> `used total` for high mid low rig subsystem fighter turret launcher launched_drones support light heavy
* `q hp` | `q resists` | `q ehp <profile|default>` | `q wc`
* `q volley <filter> <tgt|->` | `q dps <filter> <reload> <tgt|->` | `q rps <armor|shield> <profile|none> <reload>`
* `q cyc <cycles|none|inf> <dur|-> <inact|-> <reloadtime|-> <reload>` (no snapshot needed)

White-box view of the registers: `hist` clears the recorded message stream, each
`msg <on> <item> <cls> P <points> A <type attrs> T <truthy type attrs> K <effect=kind ...>` appends one message
as the fit published it, and `q reg <RegisterClass> [effect]` answers `reg <alternates 0/1> <member ids, sorted>`
computed by the toggle-register model (`RegSpec.run`).

Values are `n/d`; a rounded value whose argument sits on a rounding boundary is printed `v~w` (both accepted);
errors are `E:<Name>[|<Name>...]` (every error some member of an aggregate raises). -/
open Eos Eos.Stats Eos.Cycle

def opt (f : String → Option α) (s : String) : Option (Option α) := if s == "-" then some none else (f s).map some

def parseD4? (s : String) : Option D4 :=
  match parseRats? (s.splitOn ",") with
  | some [a, b, c, d] => some ⟨a, b, c, d⟩
  | _ => none

def parseCls? : String → Option Cls
  | "ship" => some .ship | "character" => some .character | "modHigh" => some .modHigh | "modMid" => some .modMid
  | "modLow" => some .modLow | "rig" => some .rig | "subsystem" => some .subsystem | "drone" => some .drone
  | "fighter" => some .fighter | "charge" => some .charge | "autocharge" => some .autocharge
  | "implant" => some .implant | "booster" => some .booster | "skill" => some .skill | "stance" => some .stance
  | "beacon" => some .beacon | _ => none

def parseBool? : String → Option Bool
  | "1" => some true | "0" => some false | _ => none

def parseKind? (s : String) : Option EffKind :=
  match s.splitOn ":" with
  | ["plain"] => some .plain | ["ddSimple"] => some .ddSimple | ["ddMissiles"] => some .ddMissiles
  | ["ddTurret"] => some (.ddTurretCharge false) | ["ddDisint"] => some (.ddTurretCharge true)
  | ["ddTargetAttack"] => some .ddTargetAttack | ["ddFtrAttack", p] => some (.ddFtrAttack p)
  | ["ddKamikaze"] => some .ddFtrKamikaze | ["ddBomb"] => some .ddFtrBomb
  | ["rep", l, r, f, sp] =>
    match (match l with | "armor" => some Layer.armor | "shield" => some .shield | _ => none),
          parseBool? r, parseBool? f, parseBool? sp with
    | some l, some r, some f, some sp => some (.rep l r f sp)
    | _, _, _, _ => none
  | _ => none

def parseFilter? (s : String) : Option (Item → Bool) :=
  let (neg, body) := if s.startsWith "!" then (true, (s.drop 1).toString) else (false, s)
  let base : Option (Item → Bool) :=
    if body == "all" then some fun _ => true
    else if body == "odd" then some fun it => it.id % 2 == 1
    else if body.startsWith "cls=" then (parseCls? (body.drop 4).toString).map fun c => fun it => it.cls == c
    else if body.startsWith "st>=" then (body.drop 4).toString.toNat?.map fun n => fun it => decide (n ≤ it.state)
    else none
  base.map fun f => if neg then fun it => !f it else f

def updItem (s : Snap) (i : Nat) (f : Item → Item) : Option Snap :=
  if s.items.any (·.id == i) then some { s with items := s.items.map fun it => if it.id == i then f it else it } else none

def pairs? : List String → Option (List (String × Rat))
  | [] => some []
  | k :: v :: t => do pure ((k, ← parseRat? v) :: (← pairs? t))
  | _ => none

def showR (r : R Rat) : String := match r with | .ok v => showRat v | .error e => "E:" ++ e.name
def showInt (n : Int) : String := s!"{n}/1"

/-- `round(x, 2)` with the neighbouring value when `x` is within 1e-6 of a rounding boundary. -/
def showRound2 (r : R Rat) : String :=
  match r with
  | .error e => "E:" ++ e.name
  | .ok x =>
    let v := roundN x 2
    let y := x * 100
    let d := y - y.floor - 1/2
    if (if d < 0 then -d else d) < 1/1000000 then s!"{showRat v}~{showRat (if x ≥ v then v + 1/100 else v - 1/100)}"
    else showRat v

def showLayers (r : R (Layers Rat)) : String :=
  match r with
  | .ok l => s!"{showRat l.hull} {showRat l.armor} {showRat l.shield}"
  | .error e => "E:" ++ e.name

def showD4 (d : D4) : String := s!"{showRat d.em} {showRat d.th} {showRat d.ki} {showRat d.ex}"

def errNames (es : List Err) : String :=
  "E:" ++ "|".intercalate ((es.foldl (fun acc e => if acc.contains e then acc else acc ++ [e]) []).map Err.name)

/-- Aggregate over members: the value when every member succeeds, otherwise every error raised by some member. -/
def showAgg (parts : List (R D4)) (whole : R D4) : String :=
  let errs := parts.filterMap fun p => match p with | .error e => some e | .ok _ => none
  match whole with
  | .ok d => showD4 d
  | .error e => errNames (errs ++ [e])

def ships (s : Snap) : Option Item := s.shipItem
def charI (s : Snap) : Option Item := s.char.bind s.item?

def showERat : ERat → String
  | .fin q => showRat q
  | .inf => "inf"

def showInfo (c : Info) : String := s!"{showRat c.active} {showRat c.inactive} {showERat c.quantity}"

def answer (s : Snap) : List String → String
  | ["use"] =>
    let out := fun a => showRat (holderAttr (ships s) a)
    let cpu := showRound2 (sumAttr (effectUsers s "online" (some "cpu")) "cpu")
    let pg := showRound2 (sumAttr (effectUsers s "online" (some "power")) "power")
    let cal := showR (sumAttr (effectUsers s "rig_slot" (some "upgrade_cost")) "upgrade_cost")
    let bay := showR (sumAttr (dronesLoaded s "volume") "volume")
    let bw := showR (sumAttr (dronesOnlineLoaded s "drone_bandwidth_used") "drone_bandwidth_used")
    s!"{cpu} {out "cpu_output"} {pg} {out "power_output"} {cal} {out "upgrade_capacity"} {bay} {out "drone_capacity"} {bw} {out "drone_bandwidth"}"
  | ["slots"] =>
    let tot := fun (h : Option Item) a => showInt (trunc (holderAttr h a))
    let sh := ships s
    let n := fun (k : Nat) => s!"{k}/1"
    " ".intercalate [
      n s.nHigh, tot sh "hi_slots", n s.nMid, tot sh "med_slots", n s.nLow, tot sh "low_slots",
      n (countCls s .rig), tot sh "rig_slots", n (countCls s .subsystem), tot sh "max_subsystems",
      n (countCls s .fighter), tot sh "fighter_tubes",
      n (effectUsers s "turret_fitted" none).length, tot sh "turret_slots_left",
      n (effectUsers s "launcher_fitted" none).length, tot sh "launcher_slots_left",
      n (dronesLaunched s).length, tot (charI s) "max_active_drones",
      n (fighterSquads s "fighter_squadron_is_support").length, tot sh "fighter_support_slots",
      n (fighterSquads s "fighter_squadron_is_light").length, tot sh "fighter_light_slots",
      n (fighterSquads s "fighter_squadron_is_heavy").length, tot sh "fighter_heavy_slots"]
  | ["hp"] => showLayers (match ships s with | none => .ok zeroHP | some sh => sh.hp)
  | ["resists"] =>
    match ships s with
    | none => " ".intercalate (List.replicate 12 "0/1")
    | some sh => (match sh.resists with
      | .ok l => s!"{showD4 l.hull} {showD4 l.armor} {showD4 l.shield}"
      | .error e => "E:" ++ e.name)
  | ["ehp", p] =>
    match (if p == "default" then some none else (parseD4? p).map some) with
    | none => "bad-op"
    | some prof => showLayers (match ships s with | none => .ok zeroHP | some sh => sh.ehp s.profile prof)
  | ["wc"] => showLayers (match ships s with | none => .ok zeroHP | some sh => sh.worstEhp)
  | ["volley", f, t] =>
    match parseFilter? f, opt parseD4? t with
    | some f, some tgt => showAgg (((ddItems s).filter f).map fun it => itemVolley s it tgt) (fitVolley s f tgt)
    | _, _ => "bad-op"
  | ["dps", f, r, t] =>
    match parseFilter? f, parseBool? r, opt parseD4? t with
    | some f, some r, some tgt => showAgg (((ddItems s).filter f).map fun it => itemDps s it r tgt) (fitDps s f r tgt)
    | _, _, _ => "bad-op"
  | ["rps", l, p, r] =>
    match (match l with | "armor" => some Layer.armor | "shield" => some .shield | _ => none),
          (if p == "none" then some none else (parseD4? p).map some), parseBool? r with
    | some l, some prof, some r =>
      match fitRps s l prof r with
      | .ok v => showRat v
      | .error e =>
        let errs := (localReps s l ++ remoteReps s l).filterMap fun p =>
          match effRps s p.1 p.2 r with | .error e => some e | .ok _ => none
        errNames (errs ++ [e])
    | _, _, _ => "bad-op"
  | ["cyc", c, d, i, rt, r] =>
    let cyc : Option (Option ERat) :=
      if c == "none" then some none else if c == "inf" then some (some .inf) else (parseRat? c).map fun q => some (.fin q)
    match cyc, opt parseRat? d, opt parseRat? i, opt parseRat? rt, parseBool? r with
    | some c, some d, some i, some rt, some r =>
      match params c d i rt r with
      | none => "none"
      | some cy =>
        let avg := match avgTime cy with | .ok t => showRat t | .divZero => "E:ZeroDivisionError" | .nan => "nan"
        match cy with
        | .info x => s!"info {showInfo x} avg {avg}"
        | .seq l q => s!"seq {" ".intercalate (l.map showInfo)} x {showERat q} avg {avg}"
    | _, _, _, _, _ => "bad-op"
  | _ => "bad-op"

def parsePoint? (s : String) : Option Point :=
  match s.splitOn ":" with
  | ["loaded"] => some .loaded
  | ["state", n] => n.toNat?.map .state
  | ["stateLoaded", n] => n.toNat?.map .stateLoaded
  | ["effect", e] => some (.effect e)
  | _ => none

/-- Split `P a b A c T d K e` into its four sections. -/
def sections (l : List String) : List String × List String × List String × List String :=
  let rec go (cur : String) (acc : List String × List String × List String × List String) : List String → _
    | [] => acc
    | x :: t =>
      if x == "P" || x == "A" || x == "T" || x == "K" then go x acc t
      else go cur (match cur with
        | "P" => (acc.1 ++ [x], acc.2)
        | "A" => (acc.1, acc.2.1 ++ [x], acc.2.2)
        | "T" => (acc.1, acc.2.1, acc.2.2.1 ++ [x], acc.2.2.2)
        | _ => (acc.1, acc.2.1, acc.2.2.1, acc.2.2.2 ++ [x])) t
  go "P" ([], [], [], []) l

def parseMsg? (on id cls : String) (rest : List String) : Option Msg := do
  let (ps, as, ts, ks) := sections rest
  let pts ← ps.mapM parsePoint?
  let kinds ← ks.mapM fun kv => match kv.splitOn "=" with
    | [e, k] => (parseKind? k).map (e, ·)
    | _ => none
  pure ⟨← parseBool? on, ← id.toNat?, { cls := ← parseCls? cls, typeAttrs := as, truthy := ts, effKinds := kinds }, pts⟩

def regByName (name : String) (e : String) : Option RegSpec :=
  if name == "DmgDealerRegister" then some (regDmgDealer e)
  else if name == "ArmorRepairerRegister" then some (regArmorRep e)
  else if name == "ShieldRepairerRegister" then some (regShieldRep e)
  else allRegs.find? (·.name == name)

def insertSorted (x : Nat) : List Nat → List Nat
  | [] => [x]
  | y :: t => if x ≤ y then x :: y :: t else y :: insertSorted x t

def answerReg (hist : List Msg) (name e : String) : String :=
  match regByName name e with
  | none => "bad-op"
  | some r =>
    let ids := (r.run hist).foldl (fun acc x => insertSorted x.1 acc) []
    let alt := if alternatesB r.point (fun _ => none) hist then "1" else "0"
    " ".intercalate (["reg", alt] ++ ids.map toString)

structure St where
  snap : Snap := {}
  hist : List Msg := []      -- newest first

def stepSnap (s : Snap) (line : String) : Snap × List String :=
  let bad := (s, ["bad-op"])
  match line.splitOn " " with
  | ["snap"] => ({}, [])
  | ["eff", id, k, p, d] =>
    match parseKind? k, parseBool? p with
    | some k, some p => ({ s with effs := ⟨id, k, p, if d == "-" then none else some d⟩ :: s.effs }, [])
    | _, _ => bad
  | ["it", id, fit, cls, ld, st, par, tg, ch, de] =>
    match id.toNat?, fit.toNat?, parseCls? cls, parseBool? ld, st.toNat?, opt String.toNat? par, opt String.toNat? tg,
          opt String.toNat? ch with
    | some id, some fit, some cls, some ld, some st, some par, some tg, some ch =>
      ({ s with items := s.items ++ [{ id := id, fit := fit, cls := cls, loaded := ld, state := st, parent := par,
                                       target := tg, charge := ch, defEff := if de == "-" then none else some de }] }, [])
    | _, _, _, _, _, _, _, _ => bad
  | "te" :: id :: l => match id.toNat?.bind fun i => updItem s i ({ · with typeEffects := l }) with | some s => (s, []) | none => bad
  | "ru" :: id :: l => match id.toNat?.bind fun i => updItem s i ({ · with running := l }) with | some s => (s, []) | none => bad
  | "ta" :: id :: l => match id.toNat?.bind fun i => updItem s i ({ · with typeAttrs := l }) with | some s => (s, []) | none => bad
  | "tt" :: id :: l => match id.toNat?.bind fun i => updItem s i ({ · with typeTruthy := l }) with | some s => (s, []) | none => bad
  | "av" :: id :: l =>
    match id.toNat?, pairs? l with
    | some i, some ps => (match updItem s i ({ · with attrs := ps }) with | some s => (s, []) | none => bad)
    | _, _ => bad
  | ["ab", id, e, cd, q] =>
    match id.toNat?, parseRat? cd, parseRat? q with
    | some i, some cd, some q =>
      (match updItem s i (fun it => { it with abilities := (e, cd, q) :: it.abilities }) with | some s => (s, []) | none => bad)
    | _, _, _ => bad
  | ["ac", id, e, c] =>
    match id.toNat?, c.toNat? with
    | some i, some c =>
      (match updItem s i (fun it => { it with autocharges := (e, c) :: it.autocharges }) with | some s => (s, []) | none => bad)
    | _, _ => bad
  | ["fit", sh, ch, nh, nm, nl, p] =>
    match opt String.toNat? sh, opt String.toNat? ch, nh.toNat?, nm.toNat?, nl.toNat?, opt parseD4? p with
    | some sh, some ch, some nh, some nm, some nl, some p =>
      ({ s with ship := sh, char := ch, nHigh := nh, nMid := nm, nLow := nl, profile := p }, [])
    | _, _, _, _, _, _ => bad
  | "q" :: rest => (s, [answer s rest])
  | _ => bad

def stepStats (st : St) (line : String) : St × List String :=
  match line.splitOn " " with
  | ["hist"] => ({ st with hist := [] }, [])
  | "msg" :: on :: id :: cls :: rest =>
    match parseMsg? on id cls rest with
    | some m => ({ st with hist := m :: st.hist }, [])
    | none => (st, ["bad-op"])
  | ["q", "reg", name] => (st, [answerReg st.hist.reverse name ""])
  | ["q", "reg", name, e] => (st, [answerReg st.hist.reverse name e])
  | _ => let (s, out) := stepSnap st.snap line; ({ st with snap := s }, out)

def main : IO Unit := do lineLoop (← IO.getStdin) ({} : St) stepStats
