import EosModel.Num
import EosModel.ModInfo
/-! Line protocol: `build <entry>;<entry>;...` (`build` alone = empty list) ->
    `<status code> <modifier>|<modifier>|...` with modifier = `filter,domain,extra,tgt,op,agg,aggKey,src`
    (enum codes of the repo, `-` for None).
    entry = `N` (non-dict) or `D func domain op groupID skillTypeID modifiedAttributeID modifyingAttributeID`;
    func ∈ item location locationGroup locationSkill ownerSkill unknown missing;
    domain ∈ null itemID charID shipID targetID otherID unknown missing;
    op ∈ i<int> f<num>/<den> other missing;  id ∈ i<int> s<int> f<num>/<den> badStr none other missing.
    Anything else -> `bad-op`. -/
open Eos Eos.ModInfo

def parseFunc : String → Option FuncField
  | "item" => some (.known .item) | "location" => some (.known .location)
  | "locationGroup" => some (.known .locationGroup) | "locationSkill" => some (.known .locationSkill)
  | "ownerSkill" => some (.known .ownerSkill) | "unknown" => some .unknown | "missing" => some .missing
  | _ => none

def parseDomain : String → Option DomainField
  | "null" => some .null | "itemID" => some .itemID | "charID" => some .charID | "shipID" => some .shipID
  | "targetID" => some .targetID | "otherID" => some .otherID | "unknown" => some .unknown
  | "missing" => some .missing | _ => none

def parseRatio (s : String) : Option (Int × Nat) :=
  match s.splitOn "/" with
  | [n, d] => match n.toInt?, d.toNat? with
    | some n, some d => if d = 0 then none else some (n, d)
    | _, _ => none
  | _ => none

def parseOp (s : String) : Option OpField :=
  if s = "other" then some .other else if s = "missing" then some .missing
  else if s.startsWith "i" then (s.drop 1).toInt?.map .int
  else if s.startsWith "f" then (parseRatio (s.drop 1).toString).map fun (n, d) => .float n d
  else none

def parseId (s : String) : Option IdShape :=
  if s = "badStr" then some .badStr else if s = "none" then some .none else if s = "other" then some .other
  else if s = "missing" then some .missing
  else if s.startsWith "i" then (s.drop 1).toInt?.map .int
  else if s.startsWith "s" then (s.drop 1).toInt?.map .intStr
  else if s.startsWith "f" then (parseRatio (s.drop 1).toString).map fun (n, d) => .float n d
  else none

def parseEntry (s : String) : Option Entry :=
  match s.splitOn " " with
  | ["N"] => some .nonDict
  | ["D", f, d, o, g, sk, t, m] =>
    match parseFunc f, parseDomain d, parseOp o, parseId g, parseId sk, parseId t, parseId m with
    | some f, some d, some o, some g, some sk, some t, some m => some (.dict f d o g sk t m)
    | _, _, _, _, _, _, _ => none
  | _ => none

def showOpt : Option Int → String
  | none => "-"
  | some v => toString v

def showMod (m : Modifier) : String :=
  s!"{m.filter.code},{m.domain.code},{showOpt m.extra},{m.tgtAttr},{m.op.code},{m.agg.code},{showOpt m.aggKey},{m.srcAttr}"

def stepModInfo (_ : Unit) (line : String) : Unit × List String :=
  let out (es : List Entry) :=
    let b := build es
    ((), [s!"{b.status.code} {"|".intercalate (b.mods.map showMod)}"])
  if line = "build" then out []
  else if line.startsWith "build " then
    match ((line.drop 6).toString.splitOn ";").mapM parseEntry with
    | some es => out es
    | none => ((), ["bad-op"])
  else ((), ["bad-op"])

def main : IO Unit := do lineLoop (← IO.getStdin) () stepModInfo
