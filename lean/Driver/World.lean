import Driver.WorldCommon
/-! Entry point of the world / calculator model driver (protocol: see Driver/WorldCommon.lean). -/
open Eos

def main : IO Unit := do lineLoop (← IO.getStdin) ({} : St) step
