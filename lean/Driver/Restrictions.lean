import EosModel.Restrictions
/-! Line protocol of the validation model (every command answers with exactly one line).

    reset                               forget snapshot, message history and registers
    begin                               start a new snapshot (history and registers are kept)
    item <id> <Cls> <typeId> <state> <level|-> <charge|-> <loaded 0|1> <group|-> <category|->
         <attrs a=v,..|-> <effects e=state,..|-> <reqSkills t=l,..|-> <running e,..|-> <mattrs a=v,..|->
    fit <ship|-> <character|-> <stance|-> <beacon|-> <skills> <implants> <boosters> <subsystems>
        <rigs> <drones> <fighters> <high> <mid> <low>          racks: `3,x,5` (`x` = hole)
    msg L <i> <Cls> <group|-> <category|-> <attrs> <effects> <reqSkills>   ItemLoaded
    msg U <i> | msg SA <i> <states> | msg SD <i> <states> | msg ES <i> <effects> | msg EX <i> <effects>
    validate <skipped types n,..|->     -> `V <spec outcome> <register-based outcome>`
    regs                                -> `R wf=b agree=b snapwf=b derived=b <type>=<register>;...`
-/
open Eos Eos.Restr Eos.Toggle

structure St where
  cfg : Snapshot := {}
  μ : Micro := {}
  regs : List (RType × Reg Payload) := []
  wf : Bool := true
  known : List Nat := []

def St.regsFn (s : St) : Regs := fun t => (s.regs.lookup t).getD []

def optTok (s : String) (f : String → Option α) : Option (Option α) :=
  if s == "-" then some none else (f s).map some

def listTok (s : String) (f : String → Option α) : Option (List α) :=
  if s == "-" then some [] else (s.splitOn ",").mapM f

def pairTok (f : String → Option β) (s : String) : Option (Nat × β) :=
  match s.splitOn "=" with
  | [a, b] => do let a ← a.toNat?; let b ← f b; pure (a, b)
  | _ => none

def rackTok (s : String) : Option (List (Option Nat)) :=
  listTok s fun x => if x == "x" then some none else x.toNat?.map some

def parseTd (group cat attrs effects rq : String) : Option TypeData := do
  let g ← optTok group String.toNat?
  let c ← optTok cat String.toNat?
  let a ← listTok attrs (pairTok parseRat?)
  let e ← listTok effects (pairTok String.toNat?)
  let r ← listTok rq (pairTok parseRat?)
  pure ⟨g, c, a, e, r⟩

def parseItem : List String → Option Item
  | [id, cls, ty, st, lvl, ch, ld, g, c, a, e, rq, run, m] => do
    let td ← if ld == "1" then (parseTd g c a e rq).map some else some none
    pure { id := (← id.toNat?), cls := (← Cls.ofName? cls), typeId := (← ty.toNat?), state := (← st.toNat?),
           level := (← optTok lvl parseRat?), charge := (← optTok ch String.toNat?), td := td,
           running := (← listTok run String.toNat?), mattrs := (← listTok m (pairTok parseRat?)) }
  | _ => none

def parseFit (cfg : Snapshot) : List String → Option Snapshot
  | [sh, ch, sta, be, sk, im, bo, su, ri, dr, fi, hi, mi, lo] => do
    let ids (s : String) := listTok s String.toNat?
    let one (s : String) := optTok s String.toNat?
    pure { items := cfg.items, ship := (← one sh), character := (← one ch), stance := (← one sta),
           beacon := (← one be), skills := (← ids sk), implants := (← ids im), boosters := (← ids bo),
           subsystems := (← ids su), rigs := (← ids ri), drones := (← ids dr), fighters := (← ids fi),
           high := (← rackTok hi), mid := (← rackTok mi), low := (← rackTok lo) }
  | _ => none

def parseMsg : List String → Option Msg
  | ["L", i, cls, g, c, a, e, rq] => do
    pure (.itemLoaded (← i.toNat?) (← Cls.ofName? cls) (← parseTd g c a e rq))
  | ["U", i] => i.toNat?.map .itemUnloaded
  | ["SA", i, l] => do pure (.statesOn (← i.toNat?) (← listTok l String.toNat?))
  | ["SD", i, l] => do pure (.statesOff (← i.toNat?) (← listTok l String.toNat?))
  | ["ES", i, l] => do pure (.effectsOn (← i.toNat?) (← listTok l String.toNat?))
  | ["EX", i, l] => do pure (.effectsOff (← i.toNat?) (← listTok l String.toNat?))
  | _ => none

def Eos.Restr.Msg.item : Msg → Nat
  | .itemLoaded i _ _ | .itemUnloaded i | .statesOn i _ | .statesOff i _ | .effectsOn i _ | .effectsOff i _ => i

def plus (l : List String) : String := if l.isEmpty then "" else "+".intercalate l
def showOptNat : Option Nat → String
  | some n => toString n
  | none => "N"
def showRats (l : List Rat) : String := plus (l.map showRat)

def showErr : ErrData → String
  | .resource a b c => s!"res,{showRat a},{showRat b},{showRat c}"
  | .slotQuantity u t => s!"slot,{u},{t}"
  | .slotIndex x => s!"idx,{showRat x}"
  | .rigSize a b => s!"rig,{showRat a},{showRat b}"
  | .droneGroup g l => s!"dg,{showOptNat g},{showRats l}"
  | .shipTypeGroup t g ts gs => s!"stg,{showOptNat t},{showOptNat g},{showRats ts},{showRats gs}"
  | .capitalItem v m => s!"cap,{showRat v},{showRat m}"
  | .maxGroup g q m => s!"mg,{g},{q},{showRat m}"
  | .skillRequirement es =>
    "sk," ++ plus (es.map fun e => s!"{e.1}={(e.2.1.map showRat).getD "N"}={showRat e.2.2}")
  | .itemClass c l => s!"ic,{c.name},{plus ((l.map Cls.name).mergeSort (fun a b => decide (a ≤ b)))}"
  | .state s l => s!"st,{s},{plus (l.map toString)}"
  | .chargeGroup g l => s!"cg,{showOptNat g},{showRats l}"
  | .chargeSize s a => s!"cs,{(s.map showRat).getD "N"},{showRat a}"
  | .chargeVolume v c => s!"cv,{showRat v},{showRat c}"
  | .loadedItem => "li"
  | .internal => "int"

def showOutcome (es : Entries) : String :=
  match outcome es with
  | .passes => "pass"
  | .raisesInternal => "internal"
  | .raisesValidation d =>
    let srt := d.mergeSort fun a b => decide (a.1 < b.1 ∨ (a.1 = b.1 ∧ a.2.1.toNat ≤ b.2.1.toNat))
    ";".intercalate (srt.map fun e => s!"{e.1}:{e.2.1.toNat}:{showErr e.2.2}")

def showPayload : Payload → String
  | .unit => "u"
  | .groups l => s!"G{showRats l}"
  | .typesGroups t g => s!"T{showRats t}_{showRats g}"
  | .index x => s!"I{showRat x}"
  | .maxGroup g r => s!"M{g}_{if r then 1 else 0}"

def showReg (reg : Reg Payload) : String :=
  ",".intercalate ((reg.mergeSort fun a b => decide (a.1 ≤ b.1)).map fun e => s!"{e.1}~{showPayload e.2}")

/-- Decidable version of `Agree` on the items the snapshot and the history mention. -/
def agreeb (μ : Micro) (cfg : Snapshot) (known : List Nat) : Bool :=
  decide cfg.ids.Nodup &&
  cfg.items.all (fun it =>
    decide (μ.data it.id = it.td.map (fun t => (it.cls, t))) &&
    (it.td.isNone ||
      ([0, 1, 2, 3, 4, 5].all (fun s => (μ.states it.id).contains s == (decide (1 ≤ s) && decide (s ≤ it.state))) &&
       (μ.running it.id ++ it.running).all (fun e => (μ.running it.id).contains e == it.running.contains e)))) &&
  known.all (fun i => ((μ.data i).isNone || cfg.ids.contains i) &&
    ((μ.data i).isSome || ((μ.states i).isEmpty && (μ.running i).isEmpty)))

def samePerm (a b : Reg Payload) : Bool :=
  a.length == b.length && a.all (b.contains ·) && b.all (a.contains ·)

def stepRestr (s : St) (line : String) : St × List String :=
  match line.splitOn " " with
  | ["reset"] => ({}, ["ok"])
  | ["begin"] => ({ s with cfg := {} }, ["ok"])
  | "item" :: rest =>
    match parseItem rest with
    | some it => ({ s with cfg := { s.cfg with items := s.cfg.items ++ [it] } }, ["ok"])
    | none => (s, ["bad-op"])
  | "fit" :: rest =>
    match parseFit s.cfg rest with
    | some cfg => ({ s with cfg := cfg }, ["ok"])
    | none => (s, ["bad-op"])
  | "msg" :: rest =>
    match parseMsg rest with
    | some m =>
      let ok := s.μ.wf m
      let μ' := s.μ.apply m
      let regs' := s.regsFn.step μ' m
      ({ s with μ := μ', regs := RType.stateful.map (fun t => (t, regs' t)), wf := s.wf && ok,
                known := if s.known.contains m.item then s.known else m.item :: s.known },
       [if ok then "ok" else "wf-violation"])
    | none => (s, ["bad-op"])
  | ["validate", skip] =>
    match listTok skip (fun x => x.toNat?.bind RType.ofNat?) with
    | some sk =>
      (s, [s!"V {showOutcome (validateSpec s.cfg sk)} {showOutcome (validateImpl s.regsFn s.cfg sk)}"])
    | none => (s, ["bad-op"])
  | ["regs"] =>
    let b (x : Bool) := if x then "1" else "0"
    let der := RType.stateful.all fun t => samePerm (s.regsFn t) (derivedCfg (regSpec t) s.cfg)
    let body := ";".intercalate (RType.stateful.map fun t => s!"{t.toNat}={showReg (s.regsFn t)}")
    (s, [s!"R wf={b s.wf} agree={b (agreeb s.μ s.cfg s.known)} snapwf={b s.cfg.wfb} derived={b der} {body}"])
  | _ => (s, ["bad-op"])

def main : IO Unit := do lineLoop (← IO.getStdin) ({} : St) stepRestr
