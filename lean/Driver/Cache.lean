import EosModel.Num
import EosModel.Codec
import EosModel.Loader
import EosModel.SourceMgr
/-! Line protocol of the cache-handler / source-manager models (C15, C16, C17).

Python values travel as space-separated tokens: `N` None, `T`/`F`, `i<int>`, `e<int>` (IntEnum member),
`r<n>/<d>` (float as exact ratio), `I`/`M` (±inf), `s<hex utf-8>`, `[ .. ]` list, `( .. )` tuple,
`{ s<hex> <value> .. }` dict.  Eve objects are dicts keyed by the Python attribute names (dict-valued
attributes as lists of `[key, value]` pairs).

  update <objs> <fp>   -> `<T|F> | <file tree after json> | <writer memory> | <fresh reader memory>`
  load <tree>|X        -> `<memory>`            (X = the file does not decode)
  reset                -> `ok`
  mgr-reset <ev>       -> `ok`                  (registry emptied, engine version set)
  mgr-handler <id> <fp> <content> -> `ok`
  mgr add s<alias hex> <version> <objs id> <handler id> <T|F> | mgr get s<alias hex> | mgr remove s<alias hex> | mgr list
                       -> `<result> | <aliases> | <default> | <fp and content of every handler set so far>`
  anything else        -> `bad-op` -/
open Eos Eos.Codec Eos.Codec.PV Eos.Loader Eos.SourceMgr

def hexDigit (c : Char) : Option Nat :=
  if '0' ≤ c ∧ c ≤ '9' then some (c.toNat - '0'.toNat)
  else if 'a' ≤ c ∧ c ≤ 'f' then some (c.toNat - 'a'.toNat + 10) else none

def unhexBytes : List Char → Option (List UInt8)
  | [] => some []
  | a :: b :: r => do
    let x ← hexDigit a
    let y ← hexDigit b
    (UInt8.ofNat (16 * x + y) :: ·) <$> unhexBytes r
  | _ => none

def unhex (s : String) : Option String := do
  String.fromUTF8? ⟨(← unhexBytes s.toList).toArray⟩

def hex (s : String) : String :=
  let d := "0123456789abcdef".toList.toArray
  String.ofList (s.toUTF8.toList.flatMap fun b => [d[b.toNat / 16]!, d[b.toNat % 16]!])

mutual
partial def parsePV : List String → Option (PV × List String)
  | "N" :: r => some (.pnone, r)
  | "T" :: r => some (.bool true, r)
  | "F" :: r => some (.bool false, r)
  | "I" :: r => some (.inf, r)
  | "M" :: r => some (.ninf, r)
  | "[" :: r => (parseSeq r).map fun (l, r) => (.list l, r)
  | "(" :: r => (parseSeq r).map fun (l, r) => (.tuple l, r)
  | "{" :: r => (parseKV r).map fun (l, r) => (.dict l, r)
  | t :: r =>
    match t.toList with
    | 'i' :: cs => (String.ofList cs).toInt?.map fun i => (.int i, r)
    | 'e' :: cs => (String.ofList cs).toInt?.map fun i => (.enum i, r)
    | 'r' :: cs => (parseRat? (String.ofList cs)).map fun q => (.real q, r)
    | 's' :: cs => (unhex (String.ofList cs)).map fun s => (.str s, r)
    | _ => none
  | [] => none
partial def parseSeq : List String → Option (List PV × List String)
  | "]" :: r => some ([], r)
  | ")" :: r => some ([], r)
  | ts => do
    let (v, r) ← parsePV ts
    let (l, r) ← parseSeq r
    some (v :: l, r)
partial def parseKV : List String → Option (List (String × PV) × List String)
  | "}" :: r => some ([], r)
  | ts => do
    let (k, r) ← parsePV ts
    let (v, r) ← parsePV r
    let (l, r) ← parseKV r
    match k with
    | .str s => some ((s, v) :: l, r)
    | _ => none
end

partial def showPV : PV → String
  | .pnone => "N" | .bool true => "T" | .bool false => "F" | .inf => "I" | .ninf => "M"
  | .int i => s!"i{i}" | .enum i => s!"e{i}" | .real r => s!"r{showRat r}" | .str s => "s" ++ hex s
  | .list l => " ".intercalate ("[" :: l.map showPV ++ ["]"])
  | .tuple l => " ".intercalate ("(" :: l.map showPV ++ [")"])
  | .dict kv => " ".intercalate ("{" :: kv.flatMap (fun p => ["s" ++ hex p.1, showPV p.2]) ++ ["}"])

/-! eve objects <-> dicts keyed by Python attribute names -/
def toBool : PV → Option Bool
  | .bool b => some b
  | _ => none

def toModifier (v : PV) : Option Modifier := do
  some ⟨← v.get? "affectee_filter", ← v.get? "affectee_domain", ← v.get? "affectee_filter_extra_arg",
        ← v.get? "affectee_attr_id", ← v.get? "operator", ← v.get? "aggregate_mode", ← v.get? "aggregate_key",
        ← v.get? "affector_attr_id"⟩

def ofModifier (m : Modifier) : PV :=
  .dict [("affectee_filter", m.affecteeFilter), ("affectee_domain", m.affecteeDomain),
    ("affectee_filter_extra_arg", m.affecteeFilterExtraArg), ("affectee_attr_id", m.affecteeAttrId),
    ("operator", m.operator), ("aggregate_mode", m.aggregateMode), ("aggregate_key", m.aggregateKey),
    ("affector_attr_id", m.affectorAttrId)]

def toBuff (v : PV) : Option Buff := do
  some ⟨← v.get? "buff_id", ← v.get? "affectee_filter", ← v.get? "affectee_filter_extra_arg",
        ← v.get? "affectee_attr_id", ← v.get? "operator", ← v.get? "aggregate_mode"⟩

def ofBuff (b : Buff) : PV :=
  .dict [("buff_id", b.buffId), ("affectee_filter", b.affecteeFilter),
    ("affectee_filter_extra_arg", b.affecteeFilterExtraArg), ("affectee_attr_id", b.affecteeAttrId),
    ("operator", b.operator), ("aggregate_mode", b.aggregateMode)]

def toAttr (v : PV) : Option Attr := do
  some ⟨← v.get? "id", ← v.get? "max_attr_id", ← v.get? "default_value", ← toBool (← v.get? "high_is_good"),
        ← toBool (← v.get? "stackable")⟩

def ofAttr (a : Attr) : PV :=
  .dict [("id", a.id), ("max_attr_id", a.maxAttrId), ("default_value", a.defaultValue),
    ("high_is_good", .bool a.highIsGood), ("stackable", .bool a.stackable)]

def toEffect (v : PV) : Option Effect := do
  some { id := ← v.get? "id", categoryId := ← v.get? "category_id", isOffensive := ← toBool (← v.get? "is_offensive"),
         isAssistance := ← toBool (← v.get? "is_assistance"), durationAttrId := ← v.get? "duration_attr_id",
         dischargeAttrId := ← v.get? "discharge_attr_id", rangeAttrId := ← v.get? "range_attr_id",
         falloffAttrId := ← v.get? "falloff_attr_id", trackingSpeedAttrId := ← v.get? "tracking_speed_attr_id",
         fittingUsageChanceAttrId := ← v.get? "fitting_usage_chance_attr_id",
         resistAttrId := ← v.get? "resist_attr_id", buildStatus := ← v.get? "build_status",
         modifiers := ← (← (← v.get? "modifiers").iter?).mapM toModifier }

def ofEffect (e : Effect) : PV :=
  .dict [("id", e.id), ("category_id", e.categoryId), ("is_offensive", .bool e.isOffensive),
    ("is_assistance", .bool e.isAssistance), ("duration_attr_id", e.durationAttrId),
    ("discharge_attr_id", e.dischargeAttrId), ("range_attr_id", e.rangeAttrId), ("falloff_attr_id", e.falloffAttrId),
    ("tracking_speed_attr_id", e.trackingSpeedAttrId), ("fitting_usage_chance_attr_id", e.fittingUsageChanceAttrId),
    ("resist_attr_id", e.resistAttrId), ("build_status", e.buildStatus),
    ("modifiers", .list (e.modifiers.map ofModifier))]

def toType (v : PV) : Option EType := do
  let effs ← (← (← v.get? "effects").pairs?).mapM fun p => do some (p.1, ← toEffect p.2)
  let defEff ← match ← v.get? "default_effect" with
    | .pnone => some none
    | d => (toEffect d).map some
  some { id := ← v.get? "id", groupId := ← v.get? "group_id", categoryId := ← v.get? "category_id",
         attrs := ← (← v.get? "attrs").pairs?, effects := effs, defaultEffect := defEff,
         abilitiesData := ← (← (← v.get? "abilities_data").pairs?).mapM abilityPair,
         requiredSkills := ← (← v.get? "required_skills").pairs? }

def ofPairs (d : Dict PV) : PV := .list (d.map fun p => .list [p.1, p.2])

def ofType (t : EType) : PV :=
  .dict [("id", t.id), ("group_id", t.groupId), ("category_id", t.categoryId), ("attrs", ofPairs t.attrs),
    ("effects", .list (t.effects.map fun p => .list [p.1, ofEffect p.2])),
    ("default_effect", match t.defaultEffect with | none => .pnone | some e => ofEffect e),
    ("abilities_data", .list (t.abilitiesData.map fun p => .list [p.1, .list [p.2.cooldownTime, p.2.chargeQuantity]])),
    ("required_skills", ofPairs t.requiredSkills)]

def toObjs (v : PV) : Option Objs := do
  some ⟨← (← (← v.get? "types").iter?).mapM toType, ← (← (← v.get? "attrs").iter?).mapM toAttr,
        ← (← (← v.get? "effects").iter?).mapM toEffect, ← (← (← v.get? "buffs").iter?).mapM toBuff⟩

def ofStore {α : Type} (f : α → PV) (d : Dict α) : PV := .list (d.map fun p => .list [p.1, f p.2])

def ofMem (m : Mem) : PV :=
  .dict [("types", ofStore ofType m.types), ("attrs", ofStore ofAttr m.attrs), ("effects", ofStore ofEffect m.effects),
    ("buffs", ofStore (fun l => .list (l.map ofBuff)) m.buffs), ("fingerprint", m.fingerprint)]

structure DS where
  h : Handler PV := ⟨none, Mem.empty⟩
  ev : String := ""
  w : World Nat := ⟨fun _ => ⟨none, 0⟩, [], none⟩
  known : List Nat := []

def showOptS : Option String → String
  | none => "N"
  | some s => "s" ++ hex s

def parseOptS (t : String) : Option (Option String) :=
  if t == "N" then some none else
  match t.toList with
  | 's' :: cs => (unhex (String.ofList cs)).map some
  | _ => none

/-- `s<hex>` (so that the empty alias is still a token). -/
def alias? (t : String) : Option String :=
  match t.toList with
  | 's' :: cs => unhex (String.ofList cs)
  | _ => none

def showRes : Res → String
  | .added b => if b then "added-rebuilt" else "added-cached"
  | .existingSourceError => "ExistingSourceError"
  | .source a c => s!"source s{hex a} {c}"
  | .unknownSourceError => "UnknownSourceError"
  | .removed => "removed"
  | .aliases l => " ".intercalate ("aliases" :: l.map fun a => "s" ++ hex a)

def showWorld (s : DS) : String :=
  let al := " ".intercalate (s.w.aliases.map fun a => "s" ++ hex a)
  let df := match s.w.default with | none => "N" | some (a, c) => s!"s{hex a}:{c}"
  let hs := " ".intercalate (s.known.map fun i => s!"{i}:{showOptS (s.w.handlers i).fp}:{(s.w.handlers i).content}")
  s!"{al} | {df} | {hs}"

def mgrOp (s : DS) (op : Op Nat) : DS × List String :=
  let r := step s.ev s.w op
  let s' := { s with w := r.1 }
  (s', [s!"{showRes r.2} | {showWorld s'}"])

def stepCache (s : DS) (line : String) : DS × List String :=
  match line.splitOn " " with
  | ["reset"] => ({ s with h := ⟨none, Mem.empty⟩ }, ["ok"])
  | "update" :: toks =>
    match parsePV toks with
    | some (ov, rest) =>
      match toObjs ov, parsePV rest with
      | some o, some (fp, []) =>
        let r := updateCache PV.norm s.h o fp
        let reader := load some r.1.file
        ({ s with h := r.1 }, [s!"{showPV (.bool r.2)} | {showPV ((r.1.file).getD .pnone)} | {showPV (ofMem r.1.mem)} | {showPV (ofMem reader)}"])
      | _, _ => (s, ["bad-op"])
    | none => (s, ["bad-op"])
  | ["load", "X"] => (s, [showPV (ofMem (load (fun (_ : Unit) => none) (some ())))])
  | "load" :: toks =>
    match parsePV toks with
    | some (j, []) => (s, [showPV (ofMem (load some (some j)))])
    | _ => (s, ["bad-op"])
  | ["mgr-reset", ev] =>
    match unhex ev with
    | some e => ({ s with ev := e, w := ⟨fun _ => ⟨none, 0⟩, [], none⟩, known := [] }, ["ok"])
    | none => (s, ["bad-op"])
  | ["mgr-handler", i, fp, c] =>
    match i.toNat?, parseOptS fp, c.toNat? with
    | some i, some fp, some c =>
      ({ s with w := { s.w with handlers := setHandler s.w.handlers i ⟨fp, c⟩ },
                known := if s.known.contains i then s.known else s.known ++ [i] }, ["ok"])
    | _, _, _ => (s, ["bad-op"])
  | ["mgr", "add", a, v, o, c, mk] =>
    match alias? a, parseOptS v, o.toNat?, c.toNat?, (if mk == "T" then some true else if mk == "F" then some false else none) with
    | some a, some v, some o, some c, some mk => mgrOp s (.add a v o c mk)
    | _, _, _, _, _ => (s, ["bad-op"])
  | ["mgr", "get", a] => match alias? a with | some a => mgrOp s (.get a) | none => (s, ["bad-op"])
  | ["mgr", "remove", a] => match alias? a with | some a => mgrOp s (.remove a) | none => (s, ["bad-op"])
  | ["mgr", "list"] => mgrOp s .list
  | _ => (s, ["bad-op"])

def main : IO Unit := do lineLoop (← IO.getStdin) ({} : DS) stepCache
