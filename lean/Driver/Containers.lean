import EosModel.Num
import EosModel.Containers
/-! Line protocol of the container model (one output line per input line).

Set-up: `reset F S L` (fits, solar systems, fleets; empty world), `item <id> <Cls> <typeId>`, `holder <id>`
(an item that carries an `ItemDict`), `save k` / `load k` (snapshot the world).  Operations (values are an
item id or `N` for `None`):
`insert f r idx v` `append f r v` `place f r idx v` `equip f r v` `removeIdx f r idx` `removeVal f r v`
`freeIdx f r idx` `freeVal f r v` `clear f r` `setAdd f k v` `setRemove f k v` `setClear f k` `tuAdd f v`
`tuRemove f v` `tuDel f t` `tuClear f` `dictSet m key v` `dictDel m key` `dictClear m` `assignFit f k v`
`assignCharge m v` `ssAdd s f` `ssRemove s f` `ssClear s` `flAdd l f` `flRemove l f` `flClear l`
`setDmg f a` `setRah f a` (a = `p<n>` | `N` | `J`).
Answer: `ok <dump>` or `err <Class> <dump>`; `-` for set-up lines; `bad-op` otherwise. -/
open Eos Eos.Containers

structure DState where
  nFits : Nat := 0
  nSs : Nat := 0
  nFl : Nat := 0
  decl : List (Nat × Cls × Nat) := []
  holders : List Nat := []
  world : World := World.empty
  saved : List (Nat × World) := []

def clsOfName : String → Option Cls
  | "ModuleHigh" => some .modHigh | "ModuleMid" => some .modMid | "ModuleLow" => some .modLow
  | "Subsystem" => some .subsystem | "Rig" => some .rig | "Drone" => some .drone
  | "FighterSquad" => some .fighter | "Implant" => some .implant | "Booster" => some .booster
  | "Skill" => some .skill | "Character" => some .character | "Ship" => some .ship
  | "Stance" => some .stance | "EffectBeacon" => some .beacon | "Charge" => some .charge
  | "Autocharge" => some .autocharge | "Other" => some .other
  | _ => none

def DState.univ (d : DState) : Univ :=
  { cls := fun i => match d.decl.find? (·.1 == i) with | some (_, c, _) => c | none => .other
    tid := fun i => match d.decl.find? (·.1 == i) with | some (_, _, t) => t | none => 0 }

def errName : Err → String
  | .typeError => "TypeError" | .valueError => "ValueError" | .keyError => "KeyError"
  | .indexError => "IndexError" | .slotTaken => "SlotTakenError"

def showOpt : Option Nat → String
  | none => "N"
  | some i => toString i

def showList (l : List String) : String := "[" ++ ",".intercalate l ++ "]"
def showSorted (l : List Nat) : String := showList ((l.toArray.qsort (· < ·)).toList.map toString)
def bits (l : List Bool) : String := String.ofList (l.map fun b => if b then '1' else '0')

def showPlace : Place → String
  | .rack f r => s!"R{f}.{r}"
  | .set (.plain f k) => s!"S{f}.{k}"
  | .set (.skills f) => s!"K{f}"
  | .set (.auto m) => s!"A{m}"
  | .slot (.fit f k) => s!"D{f}.{k}"
  | .slot (.charge m) => s!"C{m}"

def showRef : Ref → String
  | .cont p => showPlace p
  | .fit f => s!"F{f}"
  | .item m => s!"I{m}"

def showKeyed (l : List (Nat × Nat)) : String :=
  showList ((l.toArray.qsort (fun a b => a.1 < b.1)).toList.map fun (k, i) => s!"{k}:{i}")

/-- Canonical text of the whole observable state; empty containers and unowned items are left out. -/
def dump (d : DState) : String :=
  let s := d.world
  let ids := d.decl.map (·.1)
  let vals : List (Option Nat) := ids.map some ++ [none]
  let tids := (d.decl.filter (fun e => e.2.1 == Cls.skill)).map (·.2.2) |>.eraseDups
  let fitPart := (List.range d.nFits).flatMap fun f =>
    let racks := (List.range 3).filterMap fun r =>
      if (s.lists f r).isEmpty then none else some <|
      s!"R{f}.{r}={showList ((s.lists f r).map showOpt)}|{rackLen s f r}|{rackItemsLen s f r}|" ++
      s!"{bits (vals.map (rackContains s f r))}|{bits (vals.map (rackItemsContains s f r))}"
    let sets := (List.range 6).filterMap fun k =>
      if (s.sets (.plain f k)).isEmpty then none else some <|
      s!"S{f}.{k}={showSorted (s.sets (.plain f k))}|{setLen s (.plain f k)}|{bits (ids.map (setContains s (.plain f k)))}"
    let sk := if (s.sets (.skills f)).isEmpty && (s.keyed (.skills f)).isEmpty then [] else
      [s!"K{f}={showSorted (s.sets (.skills f))}|{setLen s (.skills f)}|{showKeyed (s.keyed (.skills f))}|" ++
       s!"{showList (tids.map fun t => showOpt (keyedGet s (.skills f) t))}|{bits (ids.map (setContains s (.skills f)))}"]
    let slotVals := (List.range 4).map fun k => s.slots (.fit f k)
    let sl := if slotVals.all Option.isNone then [] else [s!"D{f}={showList (slotVals.map showOpt)}"]
    let fs := s!"F{f}={showOpt (s.fitSs f)},{showOpt (s.fitFl f)},{s.dmg f},{showOpt (s.rah f)}"
    racks ++ sets ++ sk ++ sl ++ [fs]
  let mods := d.decl.filter fun e => e.2.1 == Cls.modHigh || e.2.1 == Cls.modMid || e.2.1 == Cls.modLow
  let chargePart := mods.filterMap fun e => (s.slots (.charge e.1)).map fun c => s!"C{e.1}={c}"
  let autoPart := d.holders.filterMap fun m =>
    if (s.sets (.auto m)).isEmpty && (s.keyed (.auto m)).isEmpty then none else some <|
    s!"A{m}={showSorted (s.sets (.auto m))}|{keyedLen s (.auto m)}|{showKeyed (s.keyed (.auto m))}"
  let ownPart := ids.filterMap fun i =>
    match s.owner i, fitOf s 4 i with
    | none, none => none
    | o, f => some s!"O{i}={match o with | none => "-" | some p => showRef p.ref}/{showOpt f}"
  let ssPart := (List.range d.nSs).filterMap fun k =>
    if (s.ssFits k).isEmpty then none else some s!"SS{k}={showSorted (s.ssFits k)}"
  let flPart := (List.range d.nFl).filterMap fun k =>
    if (s.flFits k).isEmpty then none else some s!"FL{k}={showSorted (s.flFits k)}"
  ";".intercalate (fitPart ++ chargePart ++ autoPart ++ ownPart ++ ssPart ++ flPart)

def parseVal : String → Option (Option Nat)
  | "N" => some none
  | t => t.toNat?.map some

def parseDmg (t : String) : Option DmgArg :=
  if t == "N" then some .none else if t == "J" then some .junk
  else if t.startsWith "p" then (t.drop 1).toNat?.map .profile else none

def parseOp : List String → Option Op
  | ["insert", f, r, i, v] => do pure (.insert (← f.toNat?) (← r.toNat?) (← i.toInt?) (← parseVal v))
  | ["append", f, r, v] => do pure (.append (← f.toNat?) (← r.toNat?) (← parseVal v))
  | ["place", f, r, i, v] => do pure (.place (← f.toNat?) (← r.toNat?) (← i.toInt?) (← parseVal v))
  | ["equip", f, r, v] => do pure (.equip (← f.toNat?) (← r.toNat?) (← parseVal v))
  | ["removeIdx", f, r, i] => do pure (.removeIdx (← f.toNat?) (← r.toNat?) (← i.toInt?))
  | ["removeVal", f, r, v] => do pure (.removeVal (← f.toNat?) (← r.toNat?) (← parseVal v))
  | ["freeIdx", f, r, i] => do pure (.freeIdx (← f.toNat?) (← r.toNat?) (← i.toInt?))
  | ["freeVal", f, r, v] => do pure (.freeVal (← f.toNat?) (← r.toNat?) (← parseVal v))
  | ["clear", f, r] => do pure (.clear (← f.toNat?) (← r.toNat?))
  | ["setAdd", f, k, v] => do pure (.setAdd (← f.toNat?) (← k.toNat?) (← parseVal v))
  | ["setRemove", f, k, v] => do pure (.setRemove (← f.toNat?) (← k.toNat?) (← parseVal v))
  | ["setClear", f, k] => do pure (.setClear (← f.toNat?) (← k.toNat?))
  | ["tuAdd", f, v] => do pure (.tuAdd (← f.toNat?) (← parseVal v))
  | ["tuRemove", f, v] => do pure (.tuRemove (← f.toNat?) (← parseVal v))
  | ["tuDel", f, t] => do pure (.tuDel (← f.toNat?) (← t.toNat?))
  | ["tuClear", f] => do pure (.tuClear (← f.toNat?))
  | ["dictSet", m, k, v] => do pure (.dictSet (← m.toNat?) (← k.toNat?) (← parseVal v))
  | ["dictDel", m, k] => do pure (.dictDel (← m.toNat?) (← k.toNat?))
  | ["dictClear", m] => do pure (.dictClear (← m.toNat?))
  | ["assignFit", f, k, v] => do pure (.assign (.fit (← f.toNat?) (← k.toNat?)) (← parseVal v))
  | ["assignCharge", m, v] => do pure (.assign (.charge (← m.toNat?)) (← parseVal v))
  | ["ssAdd", a, f] => do pure (.ssAdd (← a.toNat?) (← f.toNat?))
  | ["ssRemove", a, f] => do pure (.ssRemove (← a.toNat?) (← f.toNat?))
  | ["ssClear", a] => do pure (.ssClear (← a.toNat?))
  | ["flAdd", a, f] => do pure (.flAdd (← a.toNat?) (← f.toNat?))
  | ["flRemove", a, f] => do pure (.flRemove (← a.toNat?) (← f.toNat?))
  | ["flClear", a] => do pure (.flClear (← a.toNat?))
  | ["setDmg", f, a] => do pure (.setDmg (← f.toNat?) (← parseDmg a))
  | ["setRah", f, a] => do pure (.setRah (← f.toNat?) (← parseDmg a))
  | _ => none

def stepLine (d : DState) (line : String) : DState × List String :=
  match line.splitOn " " with
  | ["reset", f, s, l] =>
    match f.toNat?, s.toNat?, l.toNat? with
    | some f, some s, some l => ({ nFits := f, nSs := s, nFl := l }, ["-"])
    | _, _, _ => (d, ["bad-op"])
  | ["item", i, c, t] =>
    match i.toNat?, clsOfName c, t.toNat? with
    | some i, some c, some t => ({ d with decl := d.decl ++ [(i, c, t)] }, ["-"])
    | _, _, _ => (d, ["bad-op"])
  | ["holder", m] =>
    match m.toNat? with
    | some m => ({ d with holders := d.holders ++ [m] }, ["-"])
    | none => (d, ["bad-op"])
  | ["save", k] =>
    match k.toNat? with
    | some k => ({ d with saved := (k, d.world) :: d.saved.filter (·.1 != k) }, ["-"])
    | none => (d, ["bad-op"])
  | ["load", k] =>
    match k.toNat?.bind fun k => d.saved.find? (·.1 == k) with
    | some (_, w) => ({ d with world := w }, ["-"])
    | none => (d, ["bad-op"])
  | toks =>
    match parseOp toks with
    | none => (d, ["bad-op"])
    | some op =>
      let (out, w) := step d.univ d.world op
      let d' := { d with world := w }
      match out with
      | .ok => (d', ["ok " ++ dump d'])
      | .error e => (d', [s!"err {errName e} " ++ dump d'])

def main : IO Unit := do lineLoop (← IO.getStdin) ({} : DState) stepLine
