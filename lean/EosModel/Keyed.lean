/-! Model of `eos/util/keyed_storage.py::KeyedStorage` — the dict-of-sets every calculator, restriction and
    statistics register of eos is built from (affection.py, projection.py, service.py, map.py, max_group.py,
    slot_index.py, dmg_dealer.py).  A store is an association list key ↦ bucket (a duplicate-free list standing
    for the Python set); the four methods are modelled as the code has them: a bucket that becomes empty in
    `rm_data_*` is deleted ("cleanup jobs"), `add_data_set` with an empty iterable on a missing key *creates an
    empty bucket* (the real code does, see `Props/C11Keyed.lean`).  No imports: the driver is a `lean_exe`. -/
namespace Eos.Keyed

abbrev Store := List (Nat × List Nat)

def insertNew (b : List Nat) (v : Nat) : List Nat := if v ∈ b then b else b ++ [v]
/-- `set.update` -/
def union (b d : List Nat) : List Nat := d.foldl insertNew b
/-- `set.difference_update` -/
def diff (b d : List Nat) : List Nat := b.filter (fun x => !d.contains x)

/-- `add_data_set(key, data_set)`: `self[key].update(data_set)`, on KeyError `self[key] = set(data_set)` -/
def addSet : Store → Nat → List Nat → Store
  | [], k, d => [(k, union [] d)]
  | (k', b) :: s, k, d => if k' = k then (k', union b d) :: s else (k', b) :: addSet s k d

/-- `rm_data_set(key, data_set)`: KeyError → nothing; `difference_update`; `if not value: del self[key]` -/
def rmSet : Store → Nat → List Nat → Store
  | [], _, _ => []
  | (k', b) :: s, k, d =>
    if k' = k then (if (diff b d).isEmpty then s else (k', diff b d) :: s) else (k', b) :: rmSet s k d

/-- `add_data_entry(key, data)`: `self[key].add(data)`, on KeyError `self[key] = {data}` -/
def addEntry : Store → Nat → Nat → Store
  | [], k, v => [(k, [v])]
  | (k', b) :: s, k, v => if k' = k then (k', insertNew b v) :: s else (k', b) :: addEntry s k v

/-- `rm_data_entry(key, data)`: KeyError → nothing; `discard`; `if not value: del self[key]` -/
def rmEntry : Store → Nat → Nat → Store
  | [], _, _ => []
  | (k', b) :: s, k, v =>
    if k' = k then (if (b.erase v).isEmpty then s else (k', b.erase v) :: s) else (k', b) :: rmEntry s k v

/-- `del self[key]` (used directly by affection.py) -/
def delKey : Store → Nat → Store
  | [], _ => []
  | (k', b) :: s, k => if k' = k then s else (k', b) :: delKey s k

/-- `self.get(key, ())` -/
def bucket : Store → Nat → List Nat
  | [], _ => []
  | (k', b) :: s, k => if k' = k then b else bucket s k
def keys (s : Store) : List Nat := s.map (·.1)

inductive Op
  | addSet (k : Nat) (d : List Nat)
  | rmSet (k : Nat) (d : List Nat)
  | addEntry (k v : Nat)
  | rmEntry (k v : Nat)
  | delKey (k : Nat)

def step (s : Store) : Op → Store
  | .addSet k d => addSet s k d
  | .rmSet k d => rmSet s k d
  | .addEntry k v => addEntry s k v
  | .rmEntry k v => rmEntry s k v
  | .delKey k => delKey s k

def run (s : Store) (ops : List Op) : Store := ops.foldl step s

end Eos.Keyed

/-! The projection register's pair of maps (`projection.py`: `__projector_tgts`, `__tgt_projectors`), as
    `apply_projector` / `unapply_projector` maintain them. -/
namespace Eos.Keyed

structure ProjReg where
  projTgts : Store := []
  tgtProjs : Store := []

/-- `apply_projector(projector, tgt_items)` -/
def ProjReg.apply (r : ProjReg) (p : Nat) (ts : List Nat) : ProjReg :=
  { projTgts := addSet r.projTgts p ts, tgtProjs := ts.foldl (fun b t => addEntry b t p) r.tgtProjs }
/-- `unapply_projector(projector, tgt_items)` -/
def ProjReg.unapply (r : ProjReg) (p : Nat) (ts : List Nat) : ProjReg :=
  { projTgts := rmSet r.projTgts p ts, tgtProjs := ts.foldl (fun b t => rmEntry b t p) r.tgtProjs }

inductive ProjOp
  | apply (p : Nat) (ts : List Nat)
  | unapply (p : Nat) (ts : List Nat)

def ProjReg.step (r : ProjReg) : ProjOp → ProjReg
  | .apply p ts => r.apply p ts
  | .unapply p ts => r.unapply p ts
def ProjReg.run (r : ProjReg) (ops : List ProjOp) : ProjReg := ops.foldl ProjReg.step r

end Eos.Keyed

/-! The "parking" of direct ship-domain affector specs in `affection.py` for one fit: specs wait under the fit key in
    `__affectors_item_awaiting` while no ship is registered and sit under the ship in `__affectors_item_active` while
    one is (`__get_local_affector_storages_ship`, `__activate_special_affector_specs`,
    `__deactivate_special_affector_specs`).  The fit is key 0 of the awaiting store. -/
namespace Eos.Keyed

structure AffReg where
  ship : Option Nat := none
  awaiting : Store := []
  active : Store := []

/-- `register_local_affector_spec` of an item-filter / ship-domain spec -/
def AffReg.regSpec (r : AffReg) (x : Nat) : AffReg :=
  match r.ship with
  | some s => { r with active := addEntry r.active s x }
  | none => { r with awaiting := addEntry r.awaiting 0 x }
/-- `unregister_local_affector_spec` -/
def AffReg.unregSpec (r : AffReg) (x : Nat) : AffReg :=
  match r.ship with
  | some s => { r with active := rmEntry r.active s x }
  | none => { r with awaiting := rmEntry r.awaiting 0 x }
/-- `register_affectee_item(ship)`: awaiting ship-domain specs of the fit become active on it (`if awaiting_to_activate:`) -/
def AffReg.regShip (r : AffReg) (s : Nat) : AffReg :=
  let to := bucket r.awaiting 0
  if to.isEmpty then { r with ship := some s }
  else { ship := some s, awaiting := rmSet r.awaiting 0 to, active := addSet r.active s to }
/-- `unregister_affectee_item(ship)`: its awaitable specs go back under the fit key -/
def AffReg.unregShip (r : AffReg) : AffReg :=
  match r.ship with
  | none => r
  | some s =>
    if (keys r.active).contains s then
      let to := bucket r.active s
      let act := delKey r.active s
      if to.isEmpty then { ship := none, awaiting := r.awaiting, active := act }
      else { ship := none, awaiting := addSet r.awaiting 0 to, active := act }
    else { r with ship := none }

inductive AffOp
  | regSpec (x : Nat) | unregSpec (x : Nat) | regShip (s : Nat) | unregShip

/-- a ship is registered only when none is (the fit replaces a ship by unregistering the old one first) -/
def AffReg.step (r : AffReg) : AffOp → AffReg
  | .regSpec x => r.regSpec x
  | .unregSpec x => r.unregSpec x
  | .regShip s => if r.ship.isSome then r else r.regShip s
  | .unregShip => r.unregShip
def AffReg.run (r : AffReg) (ops : List AffOp) : AffReg := ops.foldl AffReg.step r

end Eos.Keyed
