/-! Exact rational transport used by every driver: `n/d` text <-> core `Rat`. -/
namespace Eos

/-- Parse `-12/5` or `7`. Rejects zero denominators and junk (never defaults). -/
def parseRat? (s : String) : Option Rat :=
  match s.splitOn "/" with
  | [n] => n.toInt?.map (fun i => (i : Rat))
  | [n, d] =>
    match n.toInt?, d.toNat? with
    | some i, some k => if k = 0 then none else some ((i : Rat) / (k : Rat))
    | _, _ => none
  | _ => none

def showRat (r : Rat) : String := s!"{r.num}/{r.den}"

def parseRats? (l : List String) : Option (List Rat) := l.mapM parseRat?

/-- Read all of stdin line by line, feeding `step`; print each output line. -/
partial def lineLoop {σ : Type} (h : IO.FS.Stream) (st : σ) (step : σ → String → σ × List String) : IO Unit := do
  let line ← h.getLine
  if line.isEmpty then return ()
  let l := line.trimAscii.toString
  let (st', outs) := step st l
  for o in outs do IO.println o
  lineLoop h st' step

end Eos
