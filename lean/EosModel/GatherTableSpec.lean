import EosModel.AffectsSpec
/-! # Cases of the regenerated resistance table (C02) and fleet-boost table (C13)

`tools/gen/resist_table.py` and `tools/gen/fleet_table.py` build small worlds through the public API of the real
code and record, for every item, whether (and with which resistance factor) one designated attribute is modified —
from scratch and incrementally, as in `EosModel/AffectsSpec.lean`.  A recorded world here also carries what the
specification's `gather` needs: the source's item types, the effect under test, the buff templates.  The
specification's answers are `resistOf`, `boostTargets` + `affectsProjected`, `buffModifiers` and the whole `gather`
(which also goes through `runningEffects`, `projectionTargets` and `mk`).  Attribute values the specification reads
(`rd`) are the type's base values: in these worlds nothing modifies the source, resistance or buff attributes.
Mathlib-free. -/
namespace Eos.AffectsSpec
open Eos.World Eos.Calc

/-- A recorded world with the part of the universe `gather` looks at. -/
structure GWorld where
  cfg : Config
  types : List ItemType          -- aligned with `cfg.items`
  utypes : List ItemType         -- the item types of the source
  eff : Effect                   -- the effect under test, without its modifiers
  buffs : List BuffTemplate
  affector : Nat
  target : Option Nat
  deriving Repr

def GWorld.universe (w : GWorld) (mods : List Modifier) : Universe :=
  { attrs := [], effects := [{ w.eff with mods := mods }], types := w.utypes, buffs := w.buffs }

/-- Reads the unmodified (type) value of an attribute; a skill's level as `readDep` does. -/
def baseReader (u : Universe) (cfg : Config) : Reader := fun it a =>
  if it.kind == .skill && a == 280 then (match it.level with | some l => .ok l | none => .absent)
  else match itemType? u cfg it with
    | some ty => (match ty.attrs.find? (·.1 == a) with | some p => .ok p.2 | none => .absent)
    | none => .absent

/-- What a gathered list says about ONE expected modification `(op, v)`: `some none` nothing gathered,
`some (some r)` exactly that modification with resistance factor `r`, `none` anything else. -/
def gatherOutcome (g : Except Val (List Mod)) (op : Nat) (v : Rat) : Option (Option Rat) :=
  match g with
  | .ok [] => some none
  | .ok [md] => if md.op == op && md.value == v then some (some md.resist) else none
  | _ => none

def factorOf (l : List (Nat × Rat)) (i : Nat) : Option Rat := (l.find? (·.1 == i)).map (·.2)

/-! ## `gather` restricted to the items that run an effect

Kernel evaluation of `gather` walks over every item of the configuration for every case; `gatherVia` walks over
the (few) items that have running effects, and `activeItems` is the same term for all cases of a row.
`EosProofs/Lemmas/GatherVia.lean` proves `gather … = gatherVia … (activeItems u cfg)` for all arguments. -/

/-- The loaded items with at least one running effect, with their type and running effects. -/
def activeItems (u : Universe) (cfg : Config) : List (Item × ItemType × List Effect) :=
  cfg.items.filterMap fun b =>
    match itemType? u cfg b with
    | none => none
    | some ta => if (runningEffects u cfg b).isEmpty then none else some (b, ta, runningEffects u cfg b)

/-- `mk` of `gather`. -/
def mkModG (cfg : Config) (rd : Reader) (x a : Item) (e : Effect) (imm : Bool) (m : Modifier) (acc : List Mod) :
    Except Val (List Mod) :=
  match rd a m.srcAttr with
  | .absent => .ok acc
  | .ok v => (match resistOf cfg rd e x with
    | .ok r => .ok (acc ++ [{ op := m.op, value := v, resist := r, agg := m.agg, aggKey := m.aggKey, immune := imm }])
    | w => .error w)
  | w => .error w

/-- The body of `gather` for one running effect `e` of item `a` (of type `ta`). -/
def effStepG (u : Universe) (cfg : Config) (immune : List Int) (rd : Reader) (x : Item) (tx : ItemType) (attr : Int)
    (a : Item) (ta : ItemType) (acc : List Mod) (e : Effect) : Except Val (List Mod) := do
  let imm := match ta.category with | some c => immune.contains c | none => false
  let acc ← (e.mods.filter fun m => m.tgtAttr == attr && affectsLocal cfg a m x tx).foldlM (init := acc)
    fun acc m => mkModG cfg rd x a e imm m acc
  let acc ← (projectionTargets cfg a e).foldlM (init := acc) fun acc tg =>
    (e.mods.filter fun m => m.domain == 4 && m.tgtAttr == attr && affectsProjected cfg a m tg x tx).foldlM
      (init := acc) fun acc m => mkModG cfg rd x a e imm m acc
  if e.isBuff then do
    let bms ← (if u.buffs.any (·.tgtAttr == attr) then buffModifiers u rd a else pure [])
    let bms := bms ++ e.mods.filter (·.domain == 4)
    (boostTargets cfg a.fit).foldlM (init := acc) fun acc tg =>
      (bms.filter fun m => m.tgtAttr == attr && affectsProjected cfg a m tg x tx).foldlM
        (init := acc) fun acc m => mkModG cfg rd x a e imm m acc
  else pure acc

/-- Evaluate the spine of a list once and hand the evaluated list on (`forced l k = k l`,
`EosProofs/Lemmas/GatherVia.lean`): under kernel evaluation `k` receives a list of evaluated cells instead of an
expression that every use would evaluate again. -/
def forced {α β : Type} : List α → (List α → β) → β
  | [], k => k []
  | x :: xs, k => forced xs (fun ys => k (x :: ys))

/-- `imm` of `gather`: is the affector's type category penalty-immune. -/
def immOf (immune : List Int) (ta : ItemType) : Bool :=
  match ta.category with | some c => immune.contains c | none => false

/-- The fleet-boost branch of `effStepG` for given buff modifiers and boost targets. -/
def boostFold (cfg : Config) (rd : Reader) (x : Item) (tx : ItemType) (attr : Int) (a : Item) (e : Effect)
    (imm : Bool) (bms : List Modifier) (tgs : List Item) : Except Val (List Mod) :=
  tgs.foldlM (init := []) fun acc tg =>
    (bms.filter fun m => m.tgtAttr == attr && affectsProjected cfg a m tg x tx).foldlM
      (init := acc) fun acc m => mkModG cfg rd x a e imm m acc

def gatherVia (u : Universe) (cfg : Config) (immune : List Int) (rd : Reader) (x : Item) (tx : ItemType) (attr : Int)
    (act : List (Item × ItemType × List Effect)) : Except Val (List Mod) :=
  act.foldlM (init := []) fun acc p => p.2.2.foldlM (init := acc) (effStepG u cfg immune rd x tx attr p.1 p.2.1)

/-! ## Resistance table -/

structure ResistRow where
  w : GWorld
  m : Modifier
  valid : Bool                    -- `modifier._valid` of the real modifier object
  obs : List (Nat × Rat)          -- (item id, factor applied) of the modified items, world built from scratch
  obsInc : List (Nat × Rat)       -- the same, target set after every item was read
  deriving Repr

structure ResistCase where
  u : Universe
  cfg : Config
  a : Item
  e : Effect
  m : Modifier
  t : Item
  x : Item
  tx : ItemType
  valid : Bool
  obs : Option Rat                -- `none`: not modified; `some r`: modified, factor `r`
  obsInc : Option Rat
  deriving Repr

/-- Selection and resistance: is `x` selected, and with which factor (`none` = the specification errs). -/
def specResist (c : ResistCase) : Option (Option Rat) :=
  if affectsProjected c.cfg c.a c.m c.t c.x c.tx then
    match resistOf c.cfg (baseReader c.u c.cfg) c.e c.x with
    | .ok r => some (some r)
    | _ => none
  else some none

/-- The whole `gather` for the attribute the modifier targets: nothing, or exactly the modification
`(m.op, value of the source attribute, factor)`. -/
def specGatherResist (c : ResistCase) : Option (Option Rat) :=
  match baseReader c.u c.cfg c.a c.m.srcAttr with
  | .ok v => gatherOutcome (gather c.u c.cfg specImmune (baseReader c.u c.cfg) c.x c.tx c.m.tgtAttr) c.m.op v
  | _ => none

/-- The same for a world whose only running effect is `e` on item `b` (of type `ta`) and whose source value is
`v`: what the kernel evaluates, `b`, `ta`, `e`, `v` being computed once per row (`ResistRow.ok`). -/
def specGatherResistAt (b : Item) (ta : ItemType) (e : Effect) (v : Rat) (c : ResistCase) : Option (Option Rat) :=
  gatherOutcome (effStepG c.u c.cfg specImmune (baseReader c.u c.cfg) c.x c.tx c.m.tgtAttr b ta [] e) c.m.op v

def ResistRow.cases (r : ResistRow) : List ResistCase :=
  match item? r.w.cfg r.w.affector, r.w.target.bind (item? r.w.cfg) with
  | some a, some t => (r.w.cfg.items.zip r.w.types).map fun p =>
      ⟨r.w.universe [r.m], r.w.cfg, a, { r.w.eff with mods := [r.m] }, r.m, t, p.1, p.2, r.valid,
        factorOf r.obs p.1.id, factorOf r.obsInc p.1.id⟩
  | _, _ => []

def resistCasesOf (rows : List ResistRow) : List ResistCase := rows.flatMap ResistRow.cases

def agree2 (s : Option (Option Rat)) (o1 o2 : Option Rat) : Bool :=
  match s with
  | some r => r == o1 && r == o2
  | none => false

def resistCaseOkAt (b : Item) (ta : ItemType) (e : Effect) (v : Rat) (c : ResistCase) : Bool :=
  c.x.typeId == c.tx.id && agree2 (specResist c) c.obs c.obsInc && specGatherResistAt b ta e v c == some c.obs

/-- Row check.  The items with running effects and the source value are evaluated once per row. -/
def ResistRow.ok (r : ResistRow) : Bool :=
  match activeItems (r.w.universe [r.m]) r.w.cfg, r.w.target.bind (item? r.w.cfg),
      item? r.w.cfg r.w.affector with
  | [(b, ta, [e])], some _, some a =>
    (match baseReader (r.w.universe [r.m]) r.w.cfg a r.m.srcAttr with
     | .ok v => r.cases.all (resistCaseOkAt b ta e v)
     | _ => false)
  | _, _, _ => false

def resistBlockOk (rows : List ResistRow) (n k v : Nat) : Bool :=
  let cs := resistCasesOf rows
  rows.all ResistRow.ok && cs.length == n && cs.countP (·.obs.isSome) == k && cs.countP (·.valid) == v
    && ((rows.map (·.obs.length)).sum == k)

theorem agree2_iff {s : Option (Option Rat)} {o1 o2 : Option Rat} :
    agree2 s o1 o2 = true ↔ s = some o1 ∧ s = some o2 := by
  cases s with
  | none => simp [agree2]
  | some r => simp [agree2]

/-! ## Fleet-boost table -/

structure FleetRow where
  w : GWorld
  m : Modifier                    -- the modifier the service makes of one buff template
  obs : List Nat                  -- ids of the boosted items, world built from scratch (booster started last)
  obsInc : List Nat               -- the same, booster started after every item was read
  deriving Repr

structure FleetCase where
  u : Universe
  cfg : Config
  a : Item
  m : Modifier
  x : Item
  tx : ItemType
  obs : Bool
  obsInc : Bool
  deriving Repr

/-- "the ships of the boosting fit and of the fits in its fleet", then the projected filter onto each. -/
def specBoost (c : FleetCase) : Bool :=
  (boostTargets c.cfg c.a.fit).any fun tg => affectsProjected c.cfg c.a c.m tg c.x c.tx

/-- The specification derives the recorded modifier from the buff templates. -/
def specBuffModifier (c : FleetCase) : Bool :=
  match buffModifiers c.u (baseReader c.u c.cfg) c.a with
  | .ok bms => bms.contains c.m
  | _ => false

/-- The whole `gather` (fleet-boost branch) for the attribute the template targets. -/
def specGatherBoost (c : FleetCase) : Option (Option Rat) :=
  match baseReader c.u c.cfg c.a c.m.srcAttr with
  | .ok v => gatherOutcome (gather c.u c.cfg specImmune (baseReader c.u c.cfg) c.x c.tx c.m.tgtAttr) c.m.op v
  | _ => none

/-- The same for a world whose only running effect is the modifier-less buff effect `e` on item `b`, for given
(once evaluated) buff modifiers `bms`, boost targets `tgs` and source value `v`: what the kernel evaluates. -/
def specGatherBoostFast (b : Item) (e : Effect) (imm : Bool) (bms : List Modifier) (tgs : List Item) (v : Rat)
    (c : FleetCase) : Option (Option Rat) :=
  gatherOutcome (boostFold c.cfg (baseReader c.u c.cfg) c.x c.tx c.m.tgtAttr b e imm bms tgs) c.m.op v

def FleetRow.cases (r : FleetRow) : List FleetCase :=
  match item? r.w.cfg r.w.affector with
  | some a => (r.w.cfg.items.zip r.w.types).map fun p =>
      ⟨r.w.universe [], r.w.cfg, a, r.m, p.1, p.2, r.obs.contains p.1.id, r.obsInc.contains p.1.id⟩
  | none => []

def fleetCasesOf (rows : List FleetRow) : List FleetCase := rows.flatMap FleetRow.cases

def fleetCaseOkFast (b : Item) (e : Effect) (imm : Bool) (bms : List Modifier) (tgsB tgsA : List Item) (v : Rat)
    (c : FleetCase) : Bool :=
  c.x.typeId == c.tx.id &&
    (match tgsA.any (fun tg => affectsProjected c.cfg c.a c.m tg c.x c.tx) with
     | true => c.obs && c.obsInc
     | false => !c.obs && !c.obsInc) &&
    specGatherBoostFast b e imm bms tgsB v c == some (if c.obs then some 1 else none)

/-- Row check.  The item with the running effect, the source value, the buff modifiers and the boost targets are
evaluated once per row. -/
def FleetRow.ok (r : FleetRow) : Bool :=
  match activeItems (r.w.universe []) r.w.cfg, item? r.w.cfg r.w.affector with
  | [(b, ta, [e])], some a =>
    e.mods.isEmpty && e.isBuff && (r.w.universe []).buffs.any (·.tgtAttr == r.m.tgtAttr) &&
    (match baseReader (r.w.universe []) r.w.cfg a r.m.srcAttr,
        buffModifiers (r.w.universe []) (baseReader (r.w.universe []) r.w.cfg) b,
        buffModifiers (r.w.universe []) (baseReader (r.w.universe []) r.w.cfg) a with
     | .ok v, .ok bms, .ok bmsA =>
       bmsA.contains r.m &&
       forced bms fun bms' => forced (boostTargets r.w.cfg b.fit) fun tgsB =>
         forced (boostTargets r.w.cfg a.fit) fun tgsA =>
           r.cases.all (fleetCaseOkFast b e (immOf specImmune ta) bms' tgsB tgsA v)
     | _, _, _ => false)
  | _, _ => false

def fleetBlockOk (rows : List FleetRow) (n k : Nat) : Bool :=
  let cs := fleetCasesOf rows
  rows.all FleetRow.ok && cs.length == n && cs.countP (·.obs) == k && ((rows.map (·.obs.length)).sum == k)

end Eos.AffectsSpec
